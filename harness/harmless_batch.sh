#!/bin/bash
# run the dev copy's checks (same code as /verif) against harmless changes applied to the scratch worktree
cd /tmp/vdev
mkdir -p /tmp/harmless
for d in /tmp/mut5/a*/C??_h?; do
  n=$(basename $d); p=${n%_*}
  [ -f /tmp/harmless/$n.txt ] && continue
  [ -f $d/patch.diff ] || continue
  if ! git -C /tmp/cleanrepo apply $d/patch.diff 2>/dev/null; then echo "$n PATCH-FAILS" > /tmp/harmless/$n.txt; continue; fi
  line="$n"
  for q in $(echo $p C02 C03 | tr ' ' '\n' | awk '!seen[$0]++'); do
    out=$(VERIF_REPO=/tmp/cleanrepo timeout 1800 ./check $q --tier quick 2>&1); rc=$?
    echo "$out" > /tmp/harmless/$n.$q.log
    v=$(echo "$out" | grep '^VIOLATION' | head -1)
    if [ $rc -eq 0 ]; then r="ok"; elif echo "$v" | grep -q no-failing-input-found; then r="obligation-only"; else r="FAILING-INPUT"; fi
    line="$line $q:$r"
  done
  git -C /tmp/cleanrepo checkout -- .
  echo "$line" > /tmp/harmless/$n.txt
done
cat /tmp/harmless/*.txt
