#!/bin/bash
# copy every finished seeded change from /tmp/mut_out/a*/Cxx_k to /verif/seeded and run the checks against it
cd /verif
for d in ${SEED_SRC:-/tmp/mut_out}/a*/C??_?; do
  n=$(basename $d)
  [ -f $d/patch.diff ] && [ -f $d/demo.py ] && [ -f $d/meta.json ] || continue
  [ -f seeded/$n/result.json ] && continue
  mkdir -p seeded/$n; cp $d/patch.diff $d/demo.py $d/meta.json seeded/$n/
  /venv/bin/python harness/seeded_run.py seeded/$n --tier both > /tmp/seeded_$n.log 2>&1
  python3 - seeded/$n/result.json <<'PY'
import sys,json
d=json.load(open(sys.argv[1]))
ch=d.get('checks',[])
det=[c for c in ch if c.get('detected')]
print(d['dir'].split('/')[-1], 'demo', d.get('demo_clean_rc'), d.get('demo_patched_rc'), 'tests', d.get('tests_46_pass'),
      'DETECTED' if det else 'MISSED', [(c['tier'], 'input' if c.get('with_failing_input') else 'no-input', c.get('violation_keys')) for c in ch], 'clean_after', d.get('clean_after_rc'), d.get('error',''), 'OTHER', [(o['property'], o['rc'], o['keys']) for o in d.get('other_checks',[])])
PY
done
