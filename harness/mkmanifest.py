"""Regenerate /verif/MANIFEST.json from the property modules that exist (keeps it valid at all times)."""
import importlib
import json
import os
import subprocess
import sys

HARNESS = os.path.dirname(os.path.abspath(__file__))
VERIF = os.path.dirname(HARNESS)
sys.path.insert(0, HARNESS)

props = [json.loads(l) for l in open(os.path.join(VERIF, "properties.jsonl"))]
checks, na = [], []
for p in props:
    pid = p["id"]
    path = os.path.join(HARNESS, "props", pid.lower() + ".py")
    registered = [l.strip() for l in open(os.path.join(HARNESS, "registered.txt")) if l.strip()]
    if not os.path.exists(path) or pid not in registered:
        na.append({"property_id": pid, "reason": "check not built yet in this round (planned: see DESIGN.md section 6); not claimed until its theorems and correspondence exist"})
        continue
    mod = importlib.import_module("props." + pid.lower())
    if getattr(mod, "NOT_CLAIMED", None):
        na.append({"property_id": pid, "reason": mod.NOT_CLAIMED})
        continue
    checks.append({
        "property_id": pid,
        "quick_cmd": "./check %s --tier quick" % pid,
        "thorough_cmd": "./check %s --tier thorough" % pid,
        "evidence_file": "evidence/%s.json" % pid,
        "replay_cmd_template": "./check %s --replay {path}" % pid,
        "engine": "lean4-proof+correspondence",
        "level_claimed": {
            "category": "proof",
            "text": getattr(mod, "LEVEL_TEXT", "Lean 4 theorems about the model of this property, tied to the source by the regenerated definitions and the correspondence run."),
            "design_ref": "DESIGN.md section 6 (%s)" % pid,
        },
        "level_note": getattr(mod, "LEVEL_NOTE", "; ".join(getattr(mod, "TRUSTED", []))),
        "technique": getattr(mod, "TECHNIQUE", "Lean 4 machine-checked proof over an executable model; model tied to source by AST extraction + differential correspondence")
        + (" + regenerated control skeletons of the %d transcribed functions compared with the literals the model was written against"
           % len(mod.SHAPES) if getattr(mod, "SHAPES", None) else ""),
    })

fix_commits = subprocess.run(["git", "-C", "/repo", "log", "--format=%h %s"], stdout=subprocess.PIPE, text=True).stdout
man = {
    "version": 1,
    "setup_cmd": "./setup.sh",
    "hooks": {
        "guard": "SDPYTHON_MLINSIGHTS_VERIF",
        "enable": "no source hook is needed: the checks run /repo's working tree from a shadow copy (harness/shadow.py: Cython build + sklearn.utils._joblib shim); ./check exports SDPYTHON_MLINSIGHTS_VERIF=1 for uniformity",
        "baseline_off_cmd": "/venv/bin/python harness/baseline.py",
        "source_commits": [],
        "add_only": True,
    },
    "engines": [{
        "name": "lean4-proof+correspondence",
        "path": "lean/ (lake project MlVerif) + harness/",
        "serves_properties": [c["property_id"] for c in checks],
        "kind_free_text": "Lean 4.33 theorems (kernel-checked, axioms audited) about executable models; Gen/*.lean regenerated from the source AST on every run; line-protocol correspondence between model and real code; oracle-based failing-input search on the real code",
    }],
    "checks": checks,
    "not_applicable": na,
    "notes": "fix: commits in /repo are listed in known_findings.json (status=fixed). All checks: exit 0 ok, 1 violation, 2 harness error/timeout.",
}
with open(os.path.join(VERIF, "MANIFEST.json"), "w") as f:
    json.dump(man, f, indent=1)
print("MANIFEST: %d checks, %d not_applicable" % (len(checks), len(na)))
try:
    import jsonschema
    jsonschema.validate(man, json.load(open("/root/.vp/MANIFEST.schema.json")))
    print("schema ok")
except ImportError:
    print("(jsonschema not available in this interpreter)")
