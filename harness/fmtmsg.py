"""Format a commit message: a short subject line (first sentence), blank line, wrapped body."""
import sys, textwrap
txt = sys.stdin.read().strip()
lines = txt.split("\n")
first = lines[0]
rest = "\n".join(lines[1:]).strip()
if len(first) > 100:
    cut = first.find(". ")
    if 0 < cut:
        rest = (first[cut + 2:].strip() + ("\n\n" + rest if rest else "")).strip()
        first = first[:cut]
    if len(first) > 100:
        # still long: cut at a word boundary
        w = first[:97].rsplit(" ", 1)[0]
        rest = ("..." + first[len(w):].strip() + ("\n\n" + rest if rest else "")).strip()
        first = w + " ..."
paras = [textwrap.fill(p.replace("\n", " "), 88) for p in rest.split("\n\n") if p.strip()]
print(first + ("\n\n" + "\n\n".join(paras) if paras else ""))
