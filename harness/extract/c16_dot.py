"""C16 — parser for the subset of DOT emitted by mlinsights.plotting.visualize.pipeline2dot.

grammar (one statement per line):
    digraph{
      <opt>=<value>;
      <id>[label="<label>",shape=record,fontsize=<n>];                     record node, label = <fK> text|...
      <id>[label="<label>",shape=box,style="filled,rounded",color=<c>,fontsize=<n>];
      <id>[:<port>] -> <id>[:<port>];
      (blank)
    }
Anything else is a ParseError (= not well formed).  The result is a plain structure:
    {"options": [(k, v)], "nodes": {id: {"shape","label","ports": [(port, text)],"color","line"}},
     "order": [id...], "edges": [((id, port|None), (id, port|None))]}
"""
import re


class ParseError(Exception):
    pass


_ID = r"[A-Za-z_][A-Za-z_0-9]*"
_RE_OPT = re.compile(r"^  (%s)=([^;\"\[\]]+);$" % _ID)
_RE_REC = re.compile(r'^  (%s)\[label="([^"]*)",shape=record,fontsize=(\d+)\];$' % _ID)
_RE_BOX = re.compile(r'^  (%s)\[label="([^"]*)",shape=box,style="filled,rounded",color=(\w+),fontsize=(\d+)\];$' % _ID)
_RE_EDGE = re.compile(r"^  (.+?) -> (.+?);$")
_RE_END = re.compile(r"^(%s)(?::(%s))?$" % (_ID, _ID))


def parse(text):
    lines = text.split("\n")
    if not lines or lines[0] != "digraph{":
        raise ParseError("first line is not 'digraph{'")
    if lines[-1] != "}":
        raise ParseError("last line is not '}'")
    g = {"options": [], "nodes": {}, "order": [], "edges": []}
    for ln, line in enumerate(lines[1:-1], 2):
        if line == "":
            continue
        m = _RE_REC.match(line)
        if m:
            nid, label, _ = m.groups()
            ports = []
            if label != "":
                for field in label.split("|"):
                    fm = re.match(r"^<(%s)> (.*)$" % _ID, field)
                    if not fm:
                        raise ParseError("line %d: record field %r" % (ln, field))
                    ports.append((fm.group(1), fm.group(2)))
            if len(set(p for p, _ in ports)) != len(ports):
                raise ParseError("line %d: duplicate port in record" % ln)
            _add(g, nid, {"shape": "record", "label": label, "ports": ports, "color": None, "line": ln}, ln)
            continue
        m = _RE_BOX.match(line)
        if m:
            nid, label, color, _ = m.groups()
            _add(g, nid, {"shape": "box", "label": label, "ports": [], "color": color, "line": ln}, ln)
            continue
        m = _RE_EDGE.match(line)
        if m:
            ends = []
            for e in m.groups():
                em = _RE_END.match(e)
                if not em:
                    # not an identifier[:port]: keep the raw text as an (undeclared) node id
                    ends.append((e, None))
                else:
                    ends.append((em.group(1), em.group(2)))
            g["edges"].append((ends[0], ends[1], ln))
            continue
        m = _RE_OPT.match(line)
        if m:
            g["options"].append((m.group(1), m.group(2)))
            continue
        raise ParseError("line %d: %r" % (ln, line))
    return g


def _add(g, nid, node, ln):
    if nid in g["nodes"]:
        raise ParseError("line %d: node %s declared twice" % (ln, nid))
    g["nodes"][nid] = node
    g["order"].append(nid)


def undeclared_endpoints(g):
    bad = []
    for a, b, ln in g["edges"]:
        for nid, port in (a, b):
            node = g["nodes"].get(nid)
            if node is None:
                bad.append("%s (line %d)" % (nid if port is None else "%s:%s" % (nid, port), ln))
            elif port is not None and port not in [p for p, _ in node["ports"]]:
                bad.append("%s:%s (line %d)" % (nid, port, ln))
    return bad


def has_cycle(g):
    """cycle at the level of DOT nodes (a record node with its ports is ONE node)"""
    adj = {}
    for a, b, _ in g["edges"]:
        adj.setdefault(a[0], set()).add(b[0])
    color = {}

    def dfs(u):
        stack = [(u, iter(adj.get(u, ())))]
        color[u] = 1
        while stack:
            v, it = stack[-1]
            for w in it:
                if color.get(w, 0) == 1:
                    return True
                if color.get(w, 0) == 0:
                    color[w] = 1
                    stack.append((w, iter(adj.get(w, ()))))
                    break
            else:
                color[v] = 2
                stack.pop()
        return False
    for u in list(adj):
        if color.get(u, 0) == 0 and dfs(u):
            return True
    return False


def reachable_from(g, sources):
    """port-level reachability: vertices are (id, port|None); an edge into node `n` reaches n's
    box vertex (n, None); a box reaches exactly the ports it has an edge to."""
    adj = {}
    for a, b, _ in g["edges"]:
        adj.setdefault(a, set()).add(b)
    seen, todo = set(sources), list(sources)
    while todo:
        u = todo.pop()
        for w in adj.get(u, ()):
            if w not in seen:
                seen.add(w)
                todo.append(w)
    return seen


def canon(g):
    """canonical one-line form compared with the Lean model:
    sch0 ports ; then per step: box label ~ color ~ in-edge sources ~ ports ~ out-edge targets"""
    out = []
    order = g["order"]
    if not order:
        return "EMPTY"
    out.append("sch0=" + "|".join(t for _, t in g["nodes"][order[0]]["ports"]) if order[0] == "sch0" else "?" + order[0])
    i = 1
    # edges grouped by the box node they touch, in text order
    while i < len(order):
        box = order[i]
        rec = order[i + 1] if i + 1 < len(order) else None
        nb = g["nodes"][box]
        ins = ["%s" % (a[0] if a[1] is None else "%s:%s" % a) for a, b, _ in g["edges"] if b == (box, None)]
        outs = ["%s" % (b[0] if b[1] is None else "%s:%s" % b) for a, b, _ in g["edges"] if a == (box, None)]
        ports = "|".join(t for _, t in g["nodes"][rec]["ports"]) if rec is not None else "?"
        out.append("%s=%s~%s~%s~%s=%s~%s" % (box, nb["label"], nb["color"], ",".join(ins) or "-", rec, ports,
                                            ",".join(outs) or "-"))
        i += 2
    return " ; ".join(out)
