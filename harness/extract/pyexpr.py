"""Python-AST -> Lean translator for the small expression language the properties hinge on.

It translates *arithmetic index expressions* (``+ - * // %``, unary minus, ``min``/``max``,
``int(...)`` of a rational expression, ``len(x)``, comparisons, ``and``/``or``/``not``) into
Lean terms over ``Int`` (or ``Rat`` when a float literal or a rational variable occurs).
Names and attribute/subscript chains (``X.shape[0]``) are mapped through an explicit table
given by the caller; anything not in the table or not in the language is translated to
``(MlVerif.Gen.unknownInt "<source>")`` -- an opaque constant about which nothing can be
proved -- never to a guess.
"""
import ast
from fractions import Fraction


class Unknown(Exception):
    pass


def find_function(tree, qualname):
    """Find a (possibly nested) function/class by dotted path, e.g. ``IntervalRegressor.fit._fit``."""
    node = tree
    for part in qualname.split("."):
        found = None
        for child in ast.walk(node) if node is tree else ast.iter_child_nodes(node):
            if isinstance(child, (ast.FunctionDef, ast.ClassDef)) and child.name == part:
                found = child
                break
        if found is None:
            # nested deeper (inside if/for bodies)
            for child in ast.walk(node):
                if child is not node and isinstance(child, (ast.FunctionDef, ast.ClassDef)) \
                        and child.name == part:
                    found = child
                    break
        if found is None:
            raise Unknown("no definition %r in %r" % (part, qualname))
        node = found
    return node


def assignments(fn, name):
    """All ``name = <expr>`` statements (in source order) inside ``fn``."""
    out = []
    for n in ast.walk(fn):
        if isinstance(n, ast.Assign) and len(n.targets) == 1:
            t = n.targets[0]
            if isinstance(t, ast.Name) and t.id == name:
                out.append(n)
    out.sort(key=lambda n: (n.lineno, n.col_offset))
    return out


def calls(fn, dotted):
    """All calls whose callee source text is ``dotted`` (e.g. ``numpy.random.randint``)."""
    out = []
    for n in ast.walk(fn):
        if isinstance(n, ast.Call) and ast.unparse(n.func) == dotted:
            out.append(n)
    out.sort(key=lambda n: (n.lineno, n.col_offset))
    return out


class Tr:
    """Expression translator.  ``table`` maps python source text -> (lean term, 'int'|'rat'|'bool')."""

    def __init__(self, table):
        self.table = table

    def unknown(self, node):
        src = ast.unparse(node).replace('"', "'").replace("\\", "/")
        return '(MlVerif.Gen.unknownInt "%s")' % src, "int"

    def expr(self, node):
        src = ast.unparse(node)
        if src in self.table:
            return self.table[src]
        if isinstance(node, ast.Constant):
            v = node.value
            if isinstance(v, bool):
                return ("true" if v else "false"), "bool"
            if isinstance(v, int):
                return ("(%d : Int)" % v), "int"
            if isinstance(v, float):
                fr = Fraction(v)  # exact value of the float literal
                return "((%d : Rat) / %d)" % (fr.numerator, fr.denominator), "rat"
            return self.unknown(node)
        if isinstance(node, ast.UnaryOp):
            if isinstance(node.op, ast.USub):
                a, ta = self.expr(node.operand)
                return "(- %s)" % a, ta
            if isinstance(node.op, ast.Not):
                a, ta = self.expr(node.operand)
                if ta != "bool":
                    return self.unknown(node)
                return "(! %s)" % a, "bool"
            return self.unknown(node)
        if isinstance(node, ast.BinOp):
            a, ta = self.expr(node.left)
            b, tb = self.expr(node.right)
            if "bool" in (ta, tb):
                return self.unknown(node)
            ty = "rat" if "rat" in (ta, tb) else "int"
            if ty == "rat":
                if ta == "int":
                    a = "((%s : Int) : Rat)" % a
                if tb == "int":
                    b = "((%s : Int) : Rat)" % b
            op = node.op
            if isinstance(op, ast.Add):
                return "(%s + %s)" % (a, b), ty
            if isinstance(op, ast.Sub):
                return "(%s - %s)" % (a, b), ty
            if isinstance(op, ast.Mult):
                return "(%s * %s)" % (a, b), ty
            if isinstance(op, ast.FloorDiv) and ty == "int":
                # python floor division == Lean Int `/` (T-rounding is `Int.tdiv`; `/` is
                # Euclidean/floor for a positive divisor, which is the only case modelled)
                return "(MlVerif.Gen.pyFloorDiv %s %s)" % (a, b), ty
            if isinstance(op, ast.Mod) and ty == "int":
                return "(MlVerif.Gen.pyMod %s %s)" % (a, b), ty
            if isinstance(op, ast.Div):
                if ty == "int":
                    a = "((%s : Int) : Rat)" % a
                    b = "((%s : Int) : Rat)" % b
                return "(%s / %s)" % (a, b), "rat"
            return self.unknown(node)
        if isinstance(node, ast.Call):
            fn = ast.unparse(node.func)
            if fn == "int" and len(node.args) == 1 and not node.keywords:
                a, ta = self.expr(node.args[0])
                if ta == "int":
                    return a, "int"
                if ta == "rat":
                    return "(MlVerif.Gen.pyIntOfRat %s)" % a, "int"
            if fn in ("min", "max") and len(node.args) == 2 and not node.keywords:
                a, ta = self.expr(node.args[0])
                b, tb = self.expr(node.args[1])
                if ta == tb == "int":
                    return "(%s %s %s)" % (fn, a, b), "int"
            return self.unknown(node)
        if isinstance(node, ast.Compare) and len(node.ops) == 1:
            a, ta = self.expr(node.left)
            b, tb = self.expr(node.comparators[0])
            if ta == tb and ta in ("int", "rat"):
                ops = {ast.Lt: "<", ast.LtE: "≤", ast.Gt: ">", ast.GtE: "≥", ast.Eq: "=",
                       ast.NotEq: "≠"}
                for k, s in ops.items():
                    if isinstance(node.ops[0], k):
                        return "(decide (%s %s %s))" % (a, s, b), "bool"
            return self.unknown(node)
        if isinstance(node, ast.BoolOp):
            parts = [self.expr(v) for v in node.values]
            if all(t == "bool" for _, t in parts):
                s = " && " if isinstance(node.op, ast.And) else " || "
                return "(" + s.join(p for p, _ in parts) + ")", "bool"
            return self.unknown(node)
        return self.unknown(node)

    def int_expr(self, node):
        a, t = self.expr(node)
        if t != "int":
            return self.unknown(node)[0]
        return a


HEADER = """-- GENERATED by /verif/harness/extract from /repo's current working tree.
-- Do not edit: this file is rewritten by every check run (and by MANIFEST.setup_cmd).
"""
