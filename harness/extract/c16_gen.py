"""C16 — seeded PROGRAM GENERATOR for scikit-learn pipelines.

A pipeline is generated once as a plain *spec* (nested dicts) and rendered twice: as a
scikit-learn object (``build``) and as the token stream of a Lean ``Pipe`` term (``tokens``).

spec :=  {"t": "est", "kind": "T"|"C"|"R"|"B", "cls": <class name>}
       | {"t": "pipe",  "items": [spec, ...]}
       | {"t": "union", "items": [spec, ...]}
       | {"t": "cols",  "items": [[spec, cols], ...], "rem": "drop"|"passthrough"}   cols = [str,...] | [int,...]
       | {"t": "pass"} | {"t": "drop"}

Lean token stream (prefix notation, single spaces):
    E <kind> <cls> | P <n> child*n | U <n> child*n | C <rem> <n> (<cols> child)*n | I | D
    <cols> = n:a,b,c | i:0,2 | n:- (empty)
"""

# exact, shape-preserving transformers / predictors defined by the harness (integer arithmetic,
# so that the Lean interpreter can reproduce the recorded inputs/outputs exactly)
EXACT_T = ["Add1", "Add2", "Mul2", "Neg"]
EXACT_R = ["RowSum"]
SK_T = ["StandardScaler", "MinMaxScaler", "Normalizer", "MaxAbsScaler"]
SK_C = ["LogisticRegression", "DecisionTreeClassifier"]
SK_R = ["LinearRegression", "DecisionTreeRegressor"]
NAMES = ["a", "b", "c", "d", "e", "f", "g", "h"]

_CLASSES = {}


def classes():
    """name -> class (created lazily: scikit-learn must be imported after ctx.shadow)."""
    if _CLASSES:
        return _CLASSES
    import numpy
    from sklearn.base import BaseEstimator, TransformerMixin, RegressorMixin
    from sklearn.preprocessing import StandardScaler, MinMaxScaler, Normalizer, MaxAbsScaler
    from sklearn.linear_model import LogisticRegression, LinearRegression
    from sklearn.tree import DecisionTreeClassifier, DecisionTreeRegressor

    class _Exact(TransformerMixin, BaseEstimator):
        def fit(self, X, y=None):
            self.fitted_ = True
            return self

        def transform(self, X):
            return self._f(numpy.asarray(X))

    class Add1(_Exact):
        def _f(self, X):
            return X + 1

    class Add2(_Exact):
        def _f(self, X):
            return X + 2

    class Mul2(_Exact):
        def _f(self, X):
            return X * 2

    class Neg(_Exact):
        def _f(self, X):
            return -X

    class RowSum(RegressorMixin, BaseEstimator):
        def fit(self, X, y=None):
            self.fitted_ = True
            return self

        def predict(self, X):
            return numpy.asarray(X).sum(axis=1)

    class Plain(BaseEstimator):
        "neither transformer nor predictor"

        def fit(self, X, y=None):
            return self

    for c in (Add1, Add2, Mul2, Neg, RowSum, Plain, StandardScaler, MinMaxScaler, Normalizer, MaxAbsScaler,
              LogisticRegression, LinearRegression, DecisionTreeClassifier, DecisionTreeRegressor):
        _CLASSES[c.__name__] = c
    return _CLASSES


# --------------------------------------------------------------------------------------- specs

def est(kind, cls):
    return {"t": "est", "kind": kind, "cls": cls}


PASS = {"t": "pass"}
DROP = {"t": "drop"}


def depth(s):
    if s["t"] in ("pipe", "union"):
        return 1 + max([depth(c) for c in s["items"]] or [0])
    if s["t"] == "cols":
        return 1 + max([depth(c) for c, _ in s["items"]] or [0])
    return 1


def size(s):
    if s["t"] in ("pipe", "union"):
        return 1 + sum(size(c) for c in s["items"])
    if s["t"] == "cols":
        return 1 + sum(size(c) for c, _ in s["items"])
    return 1


def features(s, acc=None):
    """histogram of constructs used (for the input-distribution report)"""
    acc = acc if acc is not None else {}

    def hit(k):
        acc[k] = acc.get(k, 0) + 1
    t = s["t"]
    if t == "est":
        hit("est:" + s["kind"])
    elif t in ("pass", "drop"):
        hit(t)
    elif t in ("pipe", "union"):
        hit(t)
        for c in s["items"]:
            features(c, acc)
    else:
        hit("cols")
        hit("remainder:" + s["rem"])
        for c, cols in s["items"]:
            hit("cols:int" if cols and isinstance(cols[0], int) else ("cols:named" if cols else "cols:empty"))
            features(c, acc)
    return acc


def tokens(s):
    t = s["t"]
    if t == "est":
        return ["E", s["kind"], s["cls"]]
    if t == "pass":
        return ["I"]
    if t == "drop":
        return ["D"]
    if t in ("pipe", "union"):
        out = ["P" if t == "pipe" else "U", str(len(s["items"]))]
        for c in s["items"]:
            out += tokens(c)
        return out
    out = ["C", s["rem"], str(len(s["items"]))]
    for c, cols in s["items"]:
        if not cols:
            out.append("n:-")
        elif isinstance(cols[0], int):
            out.append("i:" + ",".join(str(v) for v in cols))
        else:
            out.append("n:" + ",".join(cols))
        out += tokens(c)
    return out


def build(s, exact_param=None):
    """spec -> scikit-learn object (fresh estimators)."""
    from sklearn.pipeline import Pipeline, FeatureUnion
    from sklearn.compose import ColumnTransformer
    t = s["t"]
    if t == "est":
        return classes()[s["cls"]]()
    if t == "pass":
        return "passthrough"
    if t == "drop":
        return "drop"
    if t == "pipe":
        return Pipeline([("s%d" % i, build(c)) for i, c in enumerate(s["items"])])
    if t == "union":
        return FeatureUnion([("u%d" % i, build(c)) for i, c in enumerate(s["items"])])
    return ColumnTransformer([("c%d" % i, build(c), list(cols)) for i, (c, cols) in enumerate(s["items"])],
                             remainder=s["rem"])


# --------------------------------------------------------------------------------------- generators

def gen_struct(rng, max_depth, leaf_kinds="TCRB", allow_drop=True, names=NAMES[:4], ncols=4):
    """Arbitrary nesting (not necessarily executable): for enumeration / text."""
    def leaf():
        r = rng.random()
        if r < 0.15:
            return dict(PASS)
        if allow_drop and r < 0.18:
            return dict(DROP)
        k = rng.choice(leaf_kinds)
        cls = {"T": SK_T + EXACT_T, "C": SK_C, "R": SK_R + EXACT_R, "B": ["Plain"]}[k]
        return est(k, rng.choice(cls))

    def go(d):
        if d <= 1 or rng.random() < 0.25:
            return leaf()
        t = rng.choice(["pipe", "union", "cols", "pipe"])
        n = rng.randint(1, 3)
        # one child is forced to be deep so that the requested depth is reached
        kids = [go(d - 1) if (i == 0 or rng.random() < 0.5) else leaf() for i in range(n)]
        rng.shuffle(kids)
        if t != "cols":
            return {"t": t, "items": kids}
        items = []
        for k in kids:
            if rng.random() < 0.5:
                cols = rng.sample(range(ncols), rng.randint(1, min(3, ncols)))
            else:
                cols = rng.sample(names, rng.randint(1, min(3, len(names))))
            items.append([k, cols])
        return {"t": "cols", "items": items, "rem": rng.choice(["drop", "passthrough"])}
    return go(max_depth)


def gen_exec(rng, max_depth, schema_names, is_df, leaves="sk", final="maybe"):
    """An *executable* pipeline for an input with columns `schema_names` (a DataFrame when is_df,
    else an ndarray with len(schema_names) columns).  Named columns are only used where the data
    reaching the ColumnTransformer is a DataFrame.  Returns spec.

    leaves: "sk" (scikit-learn scalers / predictors) or "exact" (integer harness classes)
    final: "maybe" | "yes" | "no" -- whether the outermost pipeline ends with a predictor
    """
    T = SK_T if leaves == "sk" else EXACT_T

    def tleaf():
        return est("T", rng.choice(T))

    # ctx = (names or None, n): names is a list when the value flowing is a DataFrame
    def go(d, ctx, in_container):
        names, n = ctx
        if d <= 1 or rng.random() < 0.2:
            if in_container and rng.random() < 0.2:
                # the drawing code gives fresh names to what flows out of a 'passthrough' step: named
                # columns are not generated after it (documented domain restriction, see ASSUMPTIONS)
                return dict(PASS), (None, n)
            return tleaf(), (None, n)
        t = rng.choice(["pipe", "union", "cols"])
        if t == "pipe":
            k = rng.randint(1, 3)
            items = []
            deep = rng.randrange(k)
            for i in range(k):
                c, ctx = go(d - 1 if (i == deep or rng.random() < 0.4) else 1, ctx, True)
                items.append(c)
            return {"t": "pipe", "items": items}, ctx
        if t == "union":
            k = rng.randint(1, 3)
            items, tot = [], 0
            deep = rng.randrange(k)
            for i in range(k):
                c, (_, m) = go(d - 1 if (i == deep or rng.random() < 0.4) else 1, ctx, True)
                items.append(c)
                tot += m
            return {"t": "union", "items": items}, (None, tot)
        k = rng.randint(1, 3)
        items, tot, used = [], 0, set()
        deep = rng.randrange(k)
        for i in range(k):
            m = rng.randint(1, min(3, n))
            pos = sorted(rng.sample(range(n), m)) if rng.random() < 0.7 else rng.sample(range(n), m)
            named = names is not None and rng.random() < 0.6
            cols = [names[p] for p in pos] if named else pos
            sub = ([names[p] for p in pos] if named else None, m)
            c, (_, mo) = go(d - 1 if (i == deep or rng.random() < 0.4) else 1, sub, True)
            items.append([c, cols])
            tot += mo
            used |= set(pos)
        rem = rng.choice(["drop", "passthrough"])
        if rem == "passthrough":
            tot += n - len(used)
        if tot == 0:
            tot = 1
        return {"t": "cols", "items": items, "rem": rem}, (None, tot)

    ctx0 = (list(schema_names) if is_df else None, len(schema_names))
    want_final = {"yes": True, "no": False}.get(final, rng.random() < 0.5)
    if want_final:
        body, ctx = go(max_depth - 1, ctx0, True) if max_depth > 1 else (None, ctx0)
        if leaves == "sk":
            kind = rng.choice("CR")
            pred = est(kind, rng.choice(SK_C if kind == "C" else SK_R))
        else:
            pred = est("R", "RowSum")
        items = ([body] if body is not None else []) + [pred]
        if body is not None and body["t"] == "pipe" and rng.random() < 0.5:
            items = body["items"] + [pred]      # flat pipeline ending in the predictor
        return {"t": "pipe", "items": items}
    s, _ = go(max_depth, ctx0, False)
    return s


def make_data(rng, schema_names, kind, nrows=6):
    """kind in df | nd | list.  Small integer data (exact under the harness transformers)."""
    import numpy
    import pandas
    n = len(schema_names)
    X = numpy.array([[rng.randint(-4, 9) for _ in range(n)] for _ in range(nrows)], dtype=numpy.int64)
    # make every column non constant (scalers divide by the range)
    for j in range(n):
        if len(set(X[:, j])) == 1:
            X[0, j] += 1
    if kind == "df":
        return pandas.DataFrame(X, columns=list(schema_names)), X
    if kind == "nd":
        return X, X
    return list(schema_names), X
