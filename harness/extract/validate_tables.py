"""Dynamic validation of the trusted classification tables of skeleton.py.

The ownership analysis trusts that the functions / methods listed as FRESH return an object that shares
no memory with their array arguments, and that the ones listed as in-place really are the only writers.
This module calls every listed name that exists in numpy (functions) or on numpy.ndarray (methods) on
small arrays, with a few generic call shapes, and reports

  * a FRESH function / method whose result shares memory with an argument (the table is WRONG: unsound),
  * a FRESH function / method that modifies an argument in place (unsound),

It does not prove the tables; it removes the most likely transcription mistakes from the trusted base.
Only names that the current source of mlinsights actually calls are exercised (plus the whole table in
the thorough tier).
"""
import ast
import os


def names_called(repo):
    """last dotted component of every call in mlinsights/**/*.py"""
    out = set()
    root = os.path.join(repo, "mlinsights")
    for dp, dn, fns in os.walk(root):
        for fn in fns:
            if not fn.endswith(".py"):
                continue
            try:
                tree = ast.parse(open(os.path.join(dp, fn), encoding="utf-8").read())
            except SyntaxError:
                continue
            for n in ast.walk(tree):
                if isinstance(n, ast.Call):
                    f = n.func
                    if isinstance(f, ast.Attribute):
                        out.add(f.attr)
                    elif isinstance(f, ast.Name):
                        out.add(f.id)
    return out


def _arrays():
    import numpy
    a = numpy.arange(12, dtype=float).reshape(3, 4) + 1.0
    b = numpy.arange(12, dtype=float).reshape(3, 4)[:, ::-1].copy() + 2.0
    v = numpy.array([3.0, 1.0, 2.0, 5.0])
    return a, b, v


def _call_shapes(f, a, b, v):
    """generic ways of calling a numpy function; yields (label, thunk, inputs)"""
    yield "f(a)", (lambda: f(a)), [a]
    yield "f(a, b)", (lambda: f(a, b)), [a, b]
    yield "f(v)", (lambda: f(v)), [v]
    yield "f([a, b])", (lambda: f([a, b])), [a, b]
    yield "f((a, b))", (lambda: f((a, b))), [a, b]
    yield "f(a, 1)", (lambda: f(a, 1)), [a]
    yield "f(a, axis=0)", (lambda: f(a, axis=0)), [a]
    yield "f(v, v)", (lambda: f(v, v)), [v]
    yield "f(a > 2, a, b)", (lambda: f(a > 2, a, b)), [a, b]
    yield "f(a.shape)", (lambda: f(a.shape)), []


def _shares(numpy, res, inputs):
    outs = res if isinstance(res, (tuple, list)) else [res]
    for o in outs:
        if isinstance(o, numpy.ndarray):
            for x in inputs:
                if numpy.shares_memory(o, x):
                    return True
    return False


def validate(repo, everything=False):
    """returns (problems, stats): problems = list of dicts"""
    import warnings
    import numpy
    from extract import skeleton as sk
    warnings.filterwarnings("ignore", category=FutureWarning)
    used = names_called(repo)
    problems, tried, ok_calls = [], 0, 0
    for name in sorted(sk.FRESH_FUNCS):
        if not everything and name not in used:
            continue
        f = getattr(numpy, name, None) or getattr(numpy.linalg, name, None) or getattr(numpy.random, name, None)
        if f is None or not callable(f) or isinstance(f, type):
            continue
        tried += 1
        nin = f.nin if isinstance(f, numpy.ufunc) else None
        for label, thunk, inputs in _call_shapes(f, *_arrays()):
            # a ufunc takes `nin` inputs; one more positional argument is its OUTPUT array (handled by the extractor
            # as an in-place write: UNARY_UFUNCS / BINARY_UFUNCS), so such call shapes are not "fresh result" calls
            if nin is not None and label in ("f(a, b)", "f(v, v)", "f(a, 1)", "f(a > 2, a, b)") and \
                    {"f(a, b)": 2, "f(v, v)": 2, "f(a, 1)": 2, "f(a > 2, a, b)": 3}[label] > nin:
                continue
            a, b, v = _arrays()
            before = [x.copy() for x in inputs]
            try:
                with warnings.catch_warnings():
                    warnings.simplefilter("ignore")
                    res = thunk()
            except Exception:  # noqa: BLE001  (this call shape does not apply to the function)
                continue
            ok_calls += 1
            if _shares(numpy, res, inputs):
                problems.append({"table": "FRESH_FUNCS", "name": "numpy.%s" % name, "call": label,
                                 "problem": "result shares memory with an argument"})
                break
            if any(not numpy.array_equal(x, x0, equal_nan=True) for x, x0 in zip(inputs, before)):
                problems.append({"table": "FRESH_FUNCS", "name": "numpy.%s" % name, "call": label,
                                 "problem": "an argument is modified in place"})
                break
    for name in sorted(sk.FRESH_FUNCS):
        f = getattr(numpy, name, None)
        if isinstance(f, numpy.ufunc):
            known = sk.UNARY_UFUNCS if f.nin == 1 else sk.BINARY_UFUNCS if f.nin == 2 else None
            if known is None or name not in known:
                problems.append({"table": "UNARY_UFUNCS/BINARY_UFUNCS", "name": "numpy.%s" % name, "call": "nin=%d" % f.nin,
                                 "problem": "ufunc missing from the positional-out table of the extractor"})
    for name in sorted(sk.FRESH_METHODS):
        if not everything and name not in used:
            continue
        a, b, v = _arrays()
        if not hasattr(a, name):
            continue
        tried += 1
        for label, args in (("a.m()", ()), ("a.m(0)", (0,)), ("a.m(float)", (float,)), ("a.m(b)", (b,)),
                            ("a.m(1, 3)", (1, 3)), ("a.m([0, 1])", ([0, 1],))):
            a, b, v = _arrays()
            a0 = a.copy()
            try:
                with warnings.catch_warnings():
                    warnings.simplefilter("ignore")
                    res = getattr(a, name)(*args)
            except Exception:  # noqa: BLE001
                continue
            ok_calls += 1
            if _shares(numpy, res, [a]):
                problems.append({"table": "FRESH_METHODS", "name": "ndarray.%s" % name, "call": label,
                                 "problem": "result shares memory with the receiver"})
                break
            if not numpy.array_equal(a, a0):
                problems.append({"table": "FRESH_METHODS", "name": "ndarray.%s" % name, "call": label,
                                 "problem": "the receiver is modified in place"})
                break
    return problems, {"names_exercised": tried, "successful_calls": ok_calls}
