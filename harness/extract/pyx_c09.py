"""Cython (.pyx) extractor for C09.

The three criterion sources are Cython, which Python's ``ast`` cannot parse.  This module
cuts a ``.pyx`` into classes and methods by indentation, turns each method *body* into plain
Python by removing the few Cython-only tokens that occur in these files (``cdef`` declarations,
``<type>`` casts, ``&`` address-of), parses the result with ``ast`` and pattern-matches the sites
the property hinges on: loop ranges, prefix-sum index expressions (``start - 1``, ``end - 1``,
``new_pos - 1``), the packing index arithmetic of ``_reglin``, the body of each class's
``_update_weights`` and the improvement / proxy formulas.  Expressions are translated by
``pyexpr.Tr``; whatever does not have exactly the expected shape becomes
``MlVerif.Gen.unknownInt/unknownBool`` (never a guess), which makes the dependent theorem fail.
"""
import ast
import re
import textwrap

from extract import pyexpr

CASTS = re.compile(r"<\s*(?:const\s+)?(?:int|intp_t|float64_t|double|size_t|float)\s*\**\s*>")
CDEF_ASSIGN = re.compile(r"^(\s*)cdef\s+(?:const\s+)?[A-Za-z_][\w\.]*(?:\[[^\]]*\])?\s*\**\s*"
                         r"([A-Za-z_]\w*)\s*=(?!=)\s*(.*)$")
CDEF_DECL = re.compile(r"^(\s*)cdef\s+[^=]*$")
ADDR = re.compile(r"(?<=[\(,\s])&(?=[A-Za-z_])")
METHOD = re.compile(r"^(\s+)(?:cdef|cpdef|def)\b[^\n]*?\b([A-Za-z_]\w*)\s*\(")
CLASS = re.compile(r"^cdef\s+class\s+([A-Za-z_]\w*)")


def split_methods(src):
    """{class name: {method name: python-ised body text}} for every ``cdef class`` of ``src``."""
    lines = src.split("\n")
    out = {}
    cls = None
    i = 0
    while i < len(lines):
        line = lines[i]
        m = CLASS.match(line)
        if m:
            cls = m.group(1)
            out[cls] = {}
            i += 1
            continue
        if line and not line[0].isspace() and not line.startswith("#"):
            if not CLASS.match(line):
                cls = None if not line.startswith(("@",)) else cls
        m = METHOD.match(line) if cls else None
        if m and len(m.group(1)) == 4 and not line.strip().startswith("cdef class"):
            name = m.group(2)
            # signature may span several lines: ends with ':' at paren depth 0
            depth = 0
            j = i
            while j < len(lines):
                code = lines[j].split("#", 1)[0]
                depth += code.count("(") - code.count(")")
                if depth <= 0 and code.rstrip().endswith(":"):
                    break
                j += 1
            body = []
            j += 1
            while j < len(lines):
                l = lines[j]
                if l.strip() and (len(l) - len(l.lstrip())) <= 4:
                    break
                body.append(l)
                j += 1
            if name not in out[cls]:
                out[cls][name] = pythonise("\n".join(body))
            i = j
            continue
        i += 1
    return out


def pythonise(body):
    res = []
    for line in body.split("\n"):
        code = line
        m = CDEF_ASSIGN.match(code)
        if m:
            code = "%s%s = %s" % (m.group(1), m.group(2), m.group(3))
        elif CDEF_DECL.match(code) and code.strip().startswith("cdef"):
            code = "%spass" % re.match(r"^(\s*)", code).group(1)
        code = CASTS.sub("", code)
        code = ADDR.sub("", code)
        res.append(code)
    return textwrap.dedent("\n".join(res))


def parse_body(text):
    """ast.Module of a method body, docstring and ``pass`` removed; None if not parseable."""
    try:
        tree = ast.parse(text)
    except SyntaxError:
        return None
    body = [s for s in tree.body
            if not isinstance(s, ast.Pass)
            and not (isinstance(s, ast.Expr) and isinstance(s.value, ast.Constant)
                     and isinstance(s.value.value, str))]
    tree.body = body
    return tree


def U(what):
    return '(MlVerif.Gen.unknownInt "%s")' % what.replace('"', "'").replace("\\", "/")[:120]


def UB(what):
    return '(MlVerif.Gen.unknownBool "%s")' % what.replace('"', "'").replace("\\", "/")[:120]


def URat(what):
    return "((%s : Int) : Rat)" % U(what)


def src_of(node):
    return ast.unparse(node)


def range_args(call):
    """(lo, hi) ast nodes of ``range(...)``, or None."""
    if not (isinstance(call, ast.Call) and src_of(call.func) == "range" and not call.keywords):
        return None
    if len(call.args) == 1:
        return ast.Constant(0), call.args[0]
    if len(call.args) == 2:
        return call.args[0], call.args[1]
    return None


def fors(node, top_only=False):
    it = node.body if top_only else list(ast.walk(node))
    res = [n for n in it if isinstance(n, ast.For)]
    res.sort(key=lambda n: (n.lineno, n.col_offset))
    return res


class Site:
    """helper translating expressions of one method with one name table"""

    def __init__(self, table):
        self.tr = pyexpr.Tr(table)

    def int(self, node, what):
        if node is None:
            return U(what)
        return self.tr.int_expr(node)

    def bool(self, node, what):
        if node is None:
            return UB(what)
        t, ty = self.tr.expr(node)
        return t if ty == "bool" else UB(what + ": " + src_of(node))

    def rat(self, node, what):
        if node is None:
            return URat(what)
        t, ty = self.tr.expr(node)
        if ty == "rat":
            return t
        if ty == "int" and "unknownInt" not in t:
            return "((%s : Int) : Rat)" % t
        return URat(what + ": " + src_of(node))

    def pair(self, rng, what):
        if rng is None:
            return "(%s, %s)" % (U(what + " lo"), U(what + " hi"))
        return "(%s, %s)" % (self.int(rng[0], what), self.int(rng[1], what))


IDX = {"start": ("start", "int"), "end": ("stop", "int"), "new_pos": ("newPos", "int"),
       "old_pos": ("oldPos", "int"), "self.nbvar": ("nbvar", "int"),
       "self.n_samples": ("nSamples", "int"), "self.start": ("start", "int"),
       "self.pos": ("pos", "int"), "self.end": ("stop", "int"), "ki": ("ki", "int"),
       "j": ("j", "int"), "i": ("i", "int")}


def for_range(loop):
    return range_args(loop.iter) if loop is not None else None


def nth(lst, k):
    return lst[k] if k < len(lst) else None


def sub_index(node, buf):
    """index node of ``self.<buf>[IDX]`` or None"""
    if isinstance(node, ast.Subscript) and src_of(node.value) == "self." + buf:
        return node.slice
    return None


# ------------------------------------------------------------------------------ _update_weights

def upd_spec(methods, cls_kinds, what):
    """Lean record text for one class's ``_update_weights``.  ``cls_kinds``: kinds allowed."""
    s = Site(IDX)
    na_i = U("n/a")
    na_b = UB("n/a")
    f = dict(kind="UpdKind.unknown", leftLo=na_i, leftHi=na_i, rightLo=na_i, rightHi=na_i, cond=na_b,
             thenRight=na_i, elseLeft=na_i, elseRightHi=na_i, elseRightLo=na_i)
    text = methods.get("_update_weights")
    if text is None:
        f["kind"] = "UpdKind.inherited"
        return f
    tree = parse_body(text)
    if tree is None:
        return f
    body = tree.body
    # --- loops: zero both, two accumulation loops over self.sample_w
    if "loops" in cls_kinds and len(body) == 4:
        zeros = [b for b in body if isinstance(b, ast.Assign) and len(b.targets) == 1
                 and src_of(b.targets[0]) in ("self.weighted_n_right", "self.weighted_n_left")
                 and isinstance(b.value, ast.Constant) and b.value.value == 0]
        loops = [b for b in body if isinstance(b, ast.For)]
        pos = [body.index(z) for z in zeros] + [body.index(l) for l in loops]
        if len(zeros) == 2 and len(loops) == 2 and {src_of(z.targets[0]) for z in zeros} == {
                "self.weighted_n_right", "self.weighted_n_left"} and max(pos[:2]) < min(pos[2:]):
            got = {}
            for l in loops:
                rng = for_range(l)
                if rng is None or len(l.body) != 1 or l.orelse or not isinstance(l.target, ast.Name):
                    continue
                a = l.body[0]
                if isinstance(a, ast.AugAssign) and isinstance(a.op, ast.Add) and \
                        src_of(a.target) in ("self.weighted_n_left", "self.weighted_n_right") and \
                        src_of(a.value) == "self.sample_w[%s]" % l.target.id:
                    got[src_of(a.target)] = rng
            if len(got) == 2:
                f["kind"] = "UpdKind.loops"
                lo, hi = got["self.weighted_n_left"]
                f["leftLo"], f["leftHi"] = s.int(lo, what), s.int(hi, what)
                lo, hi = got["self.weighted_n_right"]
                f["rightLo"], f["rightHi"] = s.int(lo, what), s.int(hi, what)
                return f
    # --- prefix: differences of self.sample_w_left
    if "prefix" in cls_kinds and len(body) == 1 and isinstance(body[0], ast.If):
        iff = body[0]

        def assigns(stmts):
            d = {}
            for st in stmts:
                if isinstance(st, ast.Assign) and len(st.targets) == 1:
                    d[src_of(st.targets[0])] = st.value
            return d if len(d) == len(stmts) == 2 else None
        th, el = assigns(iff.body), assigns(iff.orelse)
        keys = {"self.weighted_n_left", "self.weighted_n_right"}
        if th and el and set(th) == keys and set(el) == keys:
            tl, trr = th["self.weighted_n_left"], th["self.weighted_n_right"]
            el_l, el_r = el["self.weighted_n_left"], el["self.weighted_n_right"]
            ok = isinstance(tl, ast.Constant) and tl.value == 0
            i1 = sub_index(trr, "sample_w_left")
            i2 = sub_index(el_l, "sample_w_left")
            i3 = i4 = None
            if isinstance(el_r, ast.BinOp) and isinstance(el_r.op, ast.Sub):
                i3 = sub_index(el_r.left, "sample_w_left")
                i4 = sub_index(el_r.right, "sample_w_left")
            if ok and None not in (i1, i2, i3, i4):
                f["kind"] = "UpdKind.prefix"
                f["cond"] = s.bool(iff.test, what)
                f["thenRight"] = s.int(i1, what)
                f["elseLeft"] = s.int(i2, what)
                f["elseRightHi"] = s.int(i3, what)
                f["elseRightLo"] = s.int(i4, what)
                return f
    return f


def upd_lean(name, f):
    args = "fun start stop oldPos newPos => "
    rows = ["def %s : UpdSpec where" % name, "  kind := %s" % f["kind"]]
    for k in ("leftLo", "leftHi", "rightLo", "rightHi", "cond", "thenRight", "elseLeft", "elseRightHi",
              "elseRightLo"):
        rows.append("  %s := %s%s" % (k, args, f[k]))
    return "\n".join(rows)


# ------------------------------------------------------------------------------ prefix reads

def prefix_read(tree, var, buf, what):
    """``var = self.<buf>[HI] - (self.<buf>[LO] if GUARD else 0)`` -> (hi, guard, lo) lean texts"""
    s = Site(IDX)
    bad = (U(what), UB(what), U(what))
    if tree is None:
        return bad
    cands = [n for n in ast.walk(tree) if isinstance(n, ast.Assign) and len(n.targets) == 1
             and src_of(n.targets[0]) == var]
    if len(cands) != 1:
        return bad
    v = cands[0].value
    if not (isinstance(v, ast.BinOp) and isinstance(v.op, ast.Sub)):
        return bad
    hi = sub_index(v.left, buf)
    r = v.right
    if hi is None or not isinstance(r, ast.IfExp):
        return bad
    lo = sub_index(r.body, buf)
    if lo is None or not (isinstance(r.orelse, ast.Constant) and r.orelse.value == 0):
        return bad
    return s.int(hi, what), s.bool(r.test, what), s.int(lo, what)


def pread_lean(name, t):
    return ("def %s : PrefixRead where\n  hi := fun start stop => %s\n  guard := fun start stop => %s\n"
            "  lo := fun start stop => %s" % (name, t[0], t[1], t[2]))


# ------------------------------------------------------------------------------ the whole file

HEADER = pyexpr.HEADER + """import MlVerif.Gen.Base
set_option linter.unusedVariables false
namespace MlVerif.Gen.C09
open MlVerif.Gen

/-- shape of a criterion class's `_update_weights` -/
inductive UpdKind where
  | inherited   -- no override: the no-op of CommonRegressorCriterion
  | loops       -- zero both, then two accumulation loops over `sample_w`
  | «prefix»    -- differences of the cumulated buffer `sample_w_left`
  | unknown
deriving DecidableEq, Repr

/-- `_update_weights(start, end, old_pos, new_pos)`; every function takes (start, stop, oldPos, newPos) -/
structure UpdSpec where
  kind : UpdKind
  leftLo : Int → Int → Int → Int → Int
  leftHi : Int → Int → Int → Int → Int
  rightLo : Int → Int → Int → Int → Int
  rightHi : Int → Int → Int → Int → Int
  cond : Int → Int → Int → Int → Bool
  thenRight : Int → Int → Int → Int → Int
  elseLeft : Int → Int → Int → Int → Int
  elseRightHi : Int → Int → Int → Int → Int
  elseRightLo : Int → Int → Int → Int → Int

/-- `buf[hi] - (buf[lo] if guard else 0)`; functions of (start, stop) -/
structure PrefixRead where
  hi : Int → Int → Int
  guard : Int → Int → Bool
  lo : Int → Int → Int
"""


def call_args(stmt, callee, nargs):
    """args of ``Expr(Call callee(...))`` / ``Assign(..., Call)`` / ``Return(Call)`` or None"""
    v = getattr(stmt, "value", None)
    if isinstance(v, ast.Call) and src_of(v.func) == callee and len(v.args) == nargs and not v.keywords:
        return v.args
    return None


def common_part(methods):
    s = Site(IDX)
    out = ["", "-- CommonRegressorCriterion"]

    # reset / update: [self._update_weights(a, b, c, d); self.pos = e]
    for meth, lean, params in (("reset", "reset", "(start stop pos : Int)"),
                               ("update", "update", "(start stop pos newPos : Int)")):
        tree = parse_body(methods.get(meth, "")) if meth in methods else None
        args = e = None
        if tree is not None and len(tree.body) == 2 and isinstance(tree.body[0], ast.Expr):
            args = call_args(tree.body[0], "self._update_weights", 4)
            st = tree.body[1]
            if isinstance(st, ast.Assign) and len(st.targets) == 1 and src_of(st.targets[0]) == "self.pos":
                e = st.value
        if args is None or e is None:
            a = ", ".join([U("%s: unexpected shape" % meth)] * 4)
            ee = U("%s: unexpected shape" % meth)
        else:
            a = ", ".join(s.int(x, meth) for x in args)
            ee = s.int(e, meth)
        out.append("def %sArgs %s : Int × Int × Int × Int := (%s)" % (lean, params, a))
        out.append("def %sPos %s : Int := %s" % (lean, params, ee))

    # children_impurity_weights
    tree = parse_body(methods.get("children_impurity_weights", "")) \
        if "children_impurity_weights" in methods else None
    ch = {"chMeanL": None, "chMeanR": None, "chMseL": None, "chMseR": None}
    if tree is not None and len(tree.body) == 4:
        b = tree.body
        m1 = call_args(b[0], "self._mean", 4) if isinstance(b[0], ast.Expr) else None
        m2 = call_args(b[1], "self._mean", 4) if isinstance(b[1], ast.Expr) else None
        if m1 and m2 and [src_of(x) for x in m1[2:]] == ["mleft", "weight_left"] and \
                [src_of(x) for x in m2[2:]] == ["mright", "weight_right"]:
            ch["chMeanL"], ch["chMeanR"] = (m1[0], m1[1]), (m2[0], m2[1])
        for st, key, tgt, rest in ((b[2], "chMseL", "impurity_left[0]", ["mleft", "weight_left[0]"]),
                                   (b[3], "chMseR", "impurity_right[0]", ["mright", "weight_right[0]"])):
            if isinstance(st, ast.Assign) and len(st.targets) == 1 and src_of(st.targets[0]) == tgt:
                a = call_args(st, "self._mse", 4)
                if a and [src_of(x) for x in a[2:]] == rest:
                    ch[key] = (a[0], a[1])
    for k in ("chMeanL", "chMeanR", "chMseL", "chMseR"):
        out.append("def %s (start pos stop : Int) : Int × Int := %s" % (k, s.pair(ch[k], k)))

    # node_impurity / node_value
    tree = parse_body(methods.get("node_impurity", "")) if "node_impurity" in methods else None
    nm = ns = None
    if tree is not None and len(tree.body) == 2:
        a = call_args(tree.body[0], "self._mean", 4) if isinstance(tree.body[0], ast.Expr) else None
        if a and [src_of(x) for x in a[2:]] == ["mean", "weight"]:
            nm = (a[0], a[1])
        if isinstance(tree.body[1], ast.Return):
            a = call_args(tree.body[1], "self._mse", 4)
            if a and [src_of(x) for x in a[2:]] == ["mean", "weight"]:
                ns = (a[0], a[1])
    out.append("def nodeImpMean (start pos stop : Int) : Int × Int := %s" % s.pair(nm, "node_impurity _mean"))
    out.append("def nodeImpMse (start pos stop : Int) : Int × Int := %s" % s.pair(ns, "node_impurity _mse"))
    tree = parse_body(methods.get("node_value", "")) if "node_value" in methods else None
    nv = None
    if tree is not None and len(tree.body) == 1 and isinstance(tree.body[0], ast.Expr):
        a = call_args(tree.body[0], "self._mean", 4)
        if a and [src_of(x) for x in a[2:]] == ["dest", "weight"]:
            nv = (a[0], a[1])
    out.append("def nodeValMean (start pos stop : Int) : Int × Int := %s" % s.pair(nv, "node_value _mean"))

    # proxy_impurity_improvement
    tree = parse_body(methods.get("proxy_impurity_improvement", "")) \
        if "proxy_impurity_improvement" in methods else None
    cond = expr = None
    if tree is not None and len(tree.body) == 3:
        b = tree.body
        a = call_args(b[0], "self.children_impurity_weights", 4) if isinstance(b[0], ast.Expr) else None
        ok = a and [src_of(x) for x in a] == ["impurity_left", "impurity_right", "self.weighted_n_left",
                                              "self.weighted_n_right"]
        if ok and isinstance(b[1], ast.If) and not b[1].orelse and len(b[1].body) == 1 and \
                isinstance(b[1].body[0], ast.Return) and src_of(b[1].body[0].value) == "NAN" and \
                isinstance(b[2], ast.Return):
            cond, expr = b[1].test, b[2].value
    rt = Site({"self.weighted_n_right": ("wR", "rat"), "self.weighted_n_left": ("wL", "rat"),
               "impurity_right": ("ir", "rat"), "impurity_left": ("il", "rat")})
    out.append("def proxyNan (start pos stop : Int) : Bool := %s" % s.bool(cond, "proxy NAN guard"))
    out.append("def proxy (wL wR il ir : Rat) : Rat := %s" % rt.rat(expr, "proxy expression"))

    # impurity_improvement
    tree = parse_body(methods.get("impurity_improvement", "")) if "impurity_improvement" in methods else None
    wexpr = rexpr = None
    if tree is not None and len(tree.body) == 2:
        b = tree.body
        if isinstance(b[0], ast.Assign) and len(b[0].targets) == 1 and src_of(b[0].targets[0]) == "weight" \
                and isinstance(b[1], ast.Return):
            wexpr, rexpr = b[0].value, b[1].value
    base = {"self.weighted_n_samples": ("wN", "rat"), "self.weighted_n_node_samples": ("wNode", "rat"),
            "self.weighted_n_right": ("wR", "rat"), "self.weighted_n_left": ("wL", "rat"),
            "impurity_parent": ("ip", "rat"), "impurity_left": ("il", "rat"), "impurity_right": ("ir", "rat")}
    t1 = Site(base)
    t2 = Site(dict(base, weight=("weight", "rat")))
    out.append("def improvement (wN wNode wL wR ip il ir : Rat) : Rat :=\n  let weight : Rat := %s\n  %s"
               % (t1.rat(wexpr, "impurity_improvement weight"), t2.rat(rexpr, "impurity_improvement formula")))
    return out


def top_assign(tree, name):
    """value of the single top-level ``name = expr`` of a body (None if absent / ambiguous)"""
    if tree is None:
        return None
    c = [s for s in tree.body if isinstance(s, ast.Assign) and len(s.targets) == 1
         and src_of(s.targets[0]) == name]
    return c[0].value if len(c) == 1 else None


def aug_steps(node, name):
    """values of all ``name += v`` below node"""
    return [n.value for n in ast.walk(node) if isinstance(n, ast.AugAssign)
            and isinstance(n.op, ast.Add) and src_of(n.target) == name]


def simple_part(methods):
    s = Site(IDX)
    out = ["", "-- SimpleRegressorCriterion"]
    for meth, lean in (("init_with_X", "simpleInitRange"), ("_mean", "simpleMeanRange"),
                       ("_mse", "simpleMseRange")):
        tree = parse_body(methods[meth]) if meth in methods else None
        loops = fors(tree) if tree is not None else []
        rng = for_range(loops[0]) if len(loops) == 1 else None
        out.append("def %s (start stop : Int) : Int × Int := %s" % (lean, s.pair(rng, meth + " loop")))
    out.append(upd_lean("simpleUpd", upd_spec(methods, {"loops"}, "simple _update_weights")))
    return out


def fast_part(methods):
    s = Site(IDX)
    out = ["", "-- SimpleRegressorCriterionFast"]
    tree = parse_body(methods["init_with_X"]) if "init_with_X" in methods else None
    loops = fors(tree, top_only=True) if tree is not None else []
    ok = len(loops) == 3
    # zero fill: the three buffers set to 0 at the loop variable
    z = loops[0] if ok else None
    zr = None
    if z is not None and isinstance(z.target, ast.Name):
        want = {"self.sample_w_left[%s]" % z.target.id, "self.sample_wy_left[%s]" % z.target.id,
                "self.sample_wy2_left[%s]" % z.target.id}
        got = {src_of(st.targets[0]) for st in z.body if isinstance(st, ast.Assign) and len(st.targets) == 1
               and isinstance(st.value, ast.Constant) and st.value.value == 0}
        if got == want and len(z.body) == 3:
            zr = for_range(z)
    out.append("def fastZeroRange (nSamples : Int) : Int × Int := %s" % s.pair(zr, "fast zero fill"))
    out.append("def fastFirstRange (start stop : Int) : Int × Int := %s"
               % s.pair(for_range(loops[1]) if ok else None, "fast first loop"))
    out.append("def fastRestRange (start stop : Int) : Int × Int := %s"
               % s.pair(for_range(loops[2]) if ok else None, "fast rest loop"))
    for buf, lean in (("sample_w_left", "fastPrevW"), ("sample_wy_left", "fastPrevWY"),
                      ("sample_wy2_left", "fastPrevWY2")):
        idx = None
        if ok and isinstance(loops[2].target, ast.Name):
            kv = loops[2].target.id
            c = [st for st in loops[2].body if isinstance(st, ast.Assign) and len(st.targets) == 1
                 and src_of(st.targets[0]) == "self.%s[%s]" % (buf, kv)]
            if len(c) == 1 and isinstance(c[0].value, ast.BinOp) and isinstance(c[0].value.op, ast.Add):
                idx = sub_index(c[0].value.left, buf)
        tbl = dict(IDX)
        if ok and isinstance(loops[2].target, ast.Name):
            tbl[loops[2].target.id] = ("ki", "int")
        out.append("def %s (ki : Int) : Int := %s" % (lean, Site(tbl).int(idx, "fast prefix recurrence " + buf)))
    nv = top_assign(tree, "self.weighted_n_node_samples")
    out.append("def fastNodeIdx (start stop : Int) : Int := %s"
               % s.int(sub_index(nv, "sample_w_left") if nv is not None else None, "fast node weight index"))
    tm = parse_body(methods["_mean"]) if "_mean" in methods else None
    out.append(pread_lean("fastMeanM", prefix_read(tm, "m", "sample_wy_left", "fast _mean m")))
    out.append(pread_lean("fastMeanW", prefix_read(tm, "w", "sample_w_left", "fast _mean w")))
    ts = parse_body(methods["_mse"]) if "_mse" in methods else None
    out.append(pread_lean("fastMseS", prefix_read(ts, "squ", "sample_wy2_left", "fast _mse squ")))
    out.append(upd_lean("fastUpd", upd_spec(methods, {"prefix"}, "fast _update_weights")))
    return out


def same(nodes):
    """the common node if all sources agree, else None"""
    if not nodes:
        return None
    return nodes[0] if len({src_of(n) for n in nodes}) == 1 else None


def linear_part(methods):
    s = Site(IDX)
    out = ["", "-- LinearRegressorCriterion"]
    # init_with_X
    tree = parse_body(methods["init_with_X"]) if "init_with_X" in methods else None
    loops = fors(tree, top_only=True) if tree is not None else []
    outer = loops[0] if len(loops) == 1 else None
    inner = [n for n in (outer.body if outer is not None else []) if isinstance(n, ast.For)]
    inner = inner[0] if len(inner) == 1 else None
    out.append("def linInitRange (start stop : Int) : Int × Int := %s" % s.pair(for_range(outer), "lin init loop"))
    out.append("def linInitIdx0 (start nbvar : Int) : Int := %s" % s.int(top_assign(tree, "idx"), "lin init idx0"))
    out.append("def linInitCols (nbvar : Int) : Int × Int := %s" % s.pair(for_range(inner), "lin init columns"))
    steps = aug_steps(outer, "idx") if outer is not None else []
    out.append("def linInitIdxStep : Int := %s"
               % s.int(same(steps) if len(steps) == 2 else None, "lin init idx step"))
    # _mean
    tm = parse_body(methods["_mean"]) if "_mean" in methods else None
    ml = fors(tm) if tm is not None else []
    out.append("def linMeanRange (start stop : Int) : Int × Int := %s"
               % s.pair(for_range(ml[0]) if len(ml) == 1 else None, "lin _mean loop"))
    # _reglin
    tr = parse_body(methods["_reglin"]) if "_reglin" in methods else None
    tl = fors(tr, top_only=True) if tr is not None else []
    pk = tl[0] if len(tl) == 2 else None
    rh = tl[1] if len(tl) == 2 else None
    pin = [n for n in (pk.body if pk is not None else []) if isinstance(n, ast.For)]
    pin = pin[0] if len(pin) == 1 else None
    tblj = dict(IDX)
    if pk is not None and isinstance(pk.target, ast.Name):
        tblj[pk.target.id] = ("j", "int")
    idx0 = None
    if pk is not None:
        c = [st for st in pk.body if isinstance(st, ast.Assign) and len(st.targets) == 1
             and src_of(st.targets[0]) == "idx"]
        idx0 = c[0].value if len(c) == 1 else None
    out.append("def linPackCols (nbvar : Int) : Int × Int := %s" % s.pair(for_range(pk), "lin pack columns"))
    out.append("def linPackIdx0 (start nbvar j : Int) : Int := %s" % Site(tblj).int(idx0, "lin pack idx0"))
    out.append("def linPackRows (start stop : Int) : Int × Int := %s" % s.pair(for_range(pin), "lin pack rows"))
    st_idx = aug_steps(pin, "idx") if pin is not None else []
    st_pos = aug_steps(pin, "pos") if pin is not None else []
    # the packed cell must be  buffer[pos] = self.sample_f[idx] * w  with  w = self.sample_w[<row var>]
    shape_ok = False
    if pin is not None and isinstance(pin.target, ast.Name) and len(pin.body) == 4:
        srcs = [src_of(x) for x in pin.body]
        shape_ok = srcs == ["w = self.sample_w[%s]" % pin.target.id,
                            "sample_f_buffer[pos] = self.sample_f[idx] * w",
                            srcs[2], srcs[3]] and len(st_idx) == 1 and len(st_pos) == 1
    out.append("def linPackIdxStep (nbvar : Int) : Int := %s"
               % s.int(st_idx[0] if shape_ok else None, "lin pack idx step"))
    out.append("def linPackPosStep : Int := %s" % s.int(st_pos[0] if shape_ok else None, "lin pack pos step"))
    out.append("def linRhsRange (start stop : Int) : Int × Int := %s" % s.pair(for_range(rh), "lin rhs loop"))
    ridx = None
    tbli = dict(IDX)
    if rh is not None and isinstance(rh.target, ast.Name) and len(rh.body) == 1:
        tbli[rh.target.id] = ("i", "int")
        a = rh.body[0]
        if isinstance(a, ast.Assign) and len(a.targets) == 1 and isinstance(a.targets[0], ast.Subscript) \
                and src_of(a.targets[0].value) == "pC" and src_of(a.value) == "self.sample_wy[%s]" % rh.target.id:
            ridx = a.targets[0].slice
    out.append("def linRhsIdx (i start : Int) : Int := %s" % Site(tbli).int(ridx, "lin rhs index"))
    # _mse
    ts = parse_body(methods["_mse"]) if "_mse" in methods else None
    skip = None
    if ts is not None and ts.body and isinstance(ts.body[0], ast.If) and not ts.body[0].orelse and \
            len(ts.body[0].body) == 1 and isinstance(ts.body[0].body[0], ast.Return):
        rv = ts.body[0].body[0].value
        if isinstance(rv, ast.Constant) and rv.value == 0:
            skip = ts.body[0].test
    out.append("def linMseSkip (start stop nbvar : Int) : Bool := %s" % s.bool(skip, "lin _mse skip guard"))
    out.append("def linMseIdx0 (start nbvar : Int) : Int := %s" % s.int(top_assign(ts, "idx"), "lin _mse idx0"))
    sl = fors(ts, top_only=True) if ts is not None else []
    so = sl[0] if len(sl) == 1 else None
    si = [n for n in (so.body if so is not None else []) if isinstance(n, ast.For)]
    si = si[0] if len(si) == 1 else None
    out.append("def linMseRows (start stop : Int) : Int × Int := %s" % s.pair(for_range(so), "lin _mse rows"))
    out.append("def linMseCols (nbvar : Int) : Int × Int := %s" % s.pair(for_range(si), "lin _mse columns"))
    st = aug_steps(so, "idx") if so is not None else []
    out.append("def linMseIdxStep : Int := %s" % s.int(st[0] if len(st) == 1 else None, "lin _mse idx step"))
    out.append(upd_lean("linearUpd", upd_spec(methods, {"loops"}, "linear _update_weights")))
    return out


def py_part(py_src):
    """leaf dispatch of piecewise_tree_regression.py (plain Python: parsed with ast directly)"""
    out = ["", "-- PiecewiseTreeRegressor._predict_reglin / _fit_reglin"]
    idx1 = idx2 = idx3 = leaf = None
    tbl = {}
    try:
        tree = ast.parse(py_src)
        fn = pyexpr.find_function(tree, "PiecewiseTreeRegressor._predict_reglin")
        loops = [n for n in fn.body if isinstance(n, ast.For)]
        if len(loops) == 1 and isinstance(loops[0].target, ast.Name) and len(loops[0].body) == 2:
            lp = loops[0]
            v = lp.target.id
            a, b = lp.body
            if isinstance(a, ast.Assign) and len(a.targets) == 1 and isinstance(a.targets[0], ast.Name) and \
                    isinstance(a.value, ast.Subscript) and src_of(a.value.value) == "leaves" and \
                    isinstance(b, ast.Assign) and len(b.targets) == 1 and src_of(b.targets[0]) == "pred[%s]" % v and \
                    src_of(lp.iter) == "range(0, X.shape[0])":
                lv = a.targets[0].id
                c = b.value
                if isinstance(c, ast.Call) and src_of(c.func) == "numpy.dot" and len(c.args) == 2:
                    x, bt = c.args
                    if isinstance(x, ast.Subscript) and src_of(x.value) == "Xone" and \
                            isinstance(x.slice, ast.Tuple) and len(x.slice.elts) == 2 and \
                            src_of(x.slice.elts[1]) == ":" and isinstance(bt, ast.Subscript) and \
                            src_of(bt.value) == "self.betas_" and isinstance(bt.slice, ast.Tuple) and \
                            len(bt.slice.elts) == 2 and src_of(bt.slice.elts[1]) == ":":
                        idx1, idx2, idx3 = a.value.slice, x.slice.elts[0], bt.slice.elts[0]
                        tbl = {v: ("i", "int"), lv: ("leaf", "int")}
    except (SyntaxError, pyexpr.Unknown):
        pass
    s = Site(tbl)
    out.append("def predLeafIdx (i : Int) : Int := %s" % s.int(idx1, "_predict_reglin leaves index"))
    out.append("def predXRow (i : Int) : Int := %s" % s.int(idx2, "_predict_reglin Xone row"))
    out.append("def predBetaRow (i leaf : Int) : Int := %s" % s.int(idx3, "_predict_reglin betas_ row"))
    tbl2 = {}
    try:
        tree = ast.parse(py_src)
        fn = pyexpr.find_function(tree, "PiecewiseTreeRegressor._fit_reglin")
        loops = [n for n in fn.body if isinstance(n, ast.For)]
        if len(loops) == 1 and src_of(loops[0].iter) == "enumerate(self.leaves_index_)" and \
                isinstance(loops[0].target, ast.Tuple) and isinstance(loops[0].target.elts[0], ast.Name):
            lp = loops[0]
            v = lp.target.elts[0].id
            srcs = [src_of(st) for st in lp.body]
            need = ["xs = X[ind, :].copy()", "ys = y[ind].astype(numpy.float64)",
                    "dec = LinearRegressorCriterion.create(xs, ys, ws)", "dec.node_beta(self.betas_[%s, :])" % v]
            inds = [st for st in lp.body if isinstance(st, ast.Assign) and src_of(st.targets[0]) == "ind"]
            if all(n in srcs for n in need) and len(inds) == 1 and isinstance(inds[0].value, ast.Compare) and \
                    len(inds[0].value.ops) == 1 and isinstance(inds[0].value.ops[0], ast.Eq) and \
                    src_of(inds[0].value.left) == "pred_leaves":
                leaf = inds[0].value.comparators[0]
                tbl2 = {v: ("i", "int")}
    except (SyntaxError, pyexpr.Unknown):
        pass
    out.append("def fitLeaf (i : Int) : Int := %s" % Site(tbl2).int(leaf, "_fit_reglin leaf mask"))
    # the per-row dot products are stored in a float64 column: `pred = numpy.ones((X.shape[0], 1))` (numpy's default
    # dtype), whatever the dtype of the rows to predict; `Xone = numpy.hstack([X, pred])`
    f64 = UB("_predict_reglin: allocation of pred / Xone not recognised")
    try:
        fn = pyexpr.find_function(ast.parse(py_src), "PiecewiseTreeRegressor._predict_reglin")
        pa = [src_of(a.value) for a in pyexpr.assignments(fn, "pred")]
        xa = [src_of(a.value) for a in pyexpr.assignments(fn, "Xone")]
        if pa == ["numpy.ones((X.shape[0], 1))"] and xa == ["numpy.hstack([X, pred])"]:
            f64 = "true"
        else:
            f64 = UB("_predict_reglin: pred = %s ; Xone = %s" % ("|".join(pa), "|".join(xa)))
    except (SyntaxError, pyexpr.Unknown):
        pass
    out.append("/-- the leaf predictions are accumulated in a float64 buffer -/")
    out.append("def predBufferIsFloat64 : Bool := %s" % f64)
    return out


def rcond_part(linear_src):
    """`_reglin` hands `rcond` to LAPACK dgelss: a negative value means machine precision, i.e. no singular value of a
    full-rank design is discarded and the result is THE least-squares solution (the trusted-base assumption on dgelss)."""
    m = re.findall(r"cdef\s+float64_t\s+rcond\s*=\s*([-+0-9.eE]+)", linear_src)
    ok = len(m) == 1 and float(m[0]) < 0
    return ["", "/-- `rcond` given to dgelss is negative (machine precision): found %s -/" % (m or "nothing"),
            "def reglinRcondIsMachinePrecision : Bool := %s" % ("true" if ok else UB("rcond = %s" % m))]


def generate(common_src, simple_src, fast_src, linear_src, py_src):
    """Text of MlVerif/Gen/C09.lean (a pure function of the five sources)."""
    cm = split_methods(common_src).get("CommonRegressorCriterion", {})
    sm = split_methods(simple_src).get("SimpleRegressorCriterion", {})
    fm = split_methods(fast_src).get("SimpleRegressorCriterionFast", {})
    lm = split_methods(linear_src).get("LinearRegressorCriterion", {})
    rows = [HEADER]
    rows += common_part(cm)
    rows += simple_part(sm)
    rows += fast_part(fm)
    rows += linear_part(lm)
    rows += py_part(py_src)
    rows += rcond_part(linear_src)
    rows += ["", "end MlVerif.Gen.C09", ""]
    return "\n".join(rows)
