"""C16 — oracles written from the property statement, run on the REAL code (independent of the Lean model).

Every function returns a list of (key, what, observed, required).
"""
import warnings

from . import c16_gen as G
from . import c16_dot as D


def _children(obj):
    """nested estimators of a container, by position: list of acceptable-object tuples.
    For a fitted ColumnTransformer the estimator at position i is either the one given by the user or its
    fitted clone (both are 'the estimator nested at that position')."""
    from sklearn.pipeline import Pipeline, FeatureUnion
    from sklearn.compose import ColumnTransformer
    if isinstance(obj, Pipeline):
        return [((m,), None) for _, m in obj.steps]
    if isinstance(obj, FeatureUnion):
        return [((m,), None) for _, m in obj.transformer_list]
    if isinstance(obj, ColumnTransformer):
        fitted = {n: t for n, t, _ in getattr(obj, "transformers_", [])}
        return [((m, fitted.get(n, m)), c) for n, m, c in obj.transformers]
    return []


def _walk(root):
    """independent reference walk: {path: (acceptable objects, depth, columns)}; path () is the root"""
    res = {(): ([root], 1, None)}
    todo = [()]
    while todo:
        p = todo.pop()
        objs, d, _ = res[p]
        kids = {}
        for o in objs:
            if isinstance(o, str) or o is None:
                continue
            for i, (cands, cols) in enumerate(_children(o)):
                ent = kids.setdefault(i, ([], cols))
                for c in cands:
                    if not any(c is e for e in ent[0]):
                        ent[0].append(c)
        for i, (cands, cols) in kids.items():
            res[p + (i,)] = (cands, d + 1, cols)
            todo.append(p + (i,))
    return res


def check_enum(spec):
    """enumerate_pipeline_models / pipeline2str against the statement."""
    from mlinsights.helpers.pipeline import enumerate_pipeline_models
    from mlinsights.plotting.visualize import pipeline2str
    bad = []
    pipe = G.build(spec)
    try:
        got = list(enumerate_pipeline_models(pipe))
    except Exception as e:
        return [("enumerate:raises:%s" % type(e).__name__, "enumerate_pipeline_models raises on a pipeline",
                 "%s: %s" % (type(e).__name__, str(e)[:80]), "one entry per nested estimator")]
    ref = _walk(pipe)                      # path () is the root
    coords = [g[0] for g in got]
    if len(set(coords)) != len(coords):
        bad.append(("enumerate:coords-not-distinct", "two yielded models share a coordinate", coords, "distinct"))
    # coordinate (0, i, j) <-> path (i, j)
    seen_paths = []
    for k, (coor, model, vs) in enumerate(got):
        if not (isinstance(coor, tuple) and len(coor) >= 1):
            bad.append(("enumerate:coord-shape", "coordinate is not a non-empty tuple", repr(coor), "tuple"))
            continue
        path = tuple(coor[1:])
        if path not in ref:
            bad.append(("enumerate:not-nested", "yielded coordinate does not address a nested estimator",
                        repr(coor), "a position in the pipeline"))
            continue
        objs, d, cols = ref[path]
        if len(coor) != d:
            bad.append(("enumerate:coord-length", "coordinate length is not the nesting depth",
                        {"coor": coor, "depth": d}, "len(coor) == depth"))
        ok_obj = any(model is o for o in objs) or (any(isinstance(o, str) and o == "passthrough" for o in objs)
                                                   and type(model).__name__ == "PassThrough")
        if not ok_obj:
            bad.append(("enumerate:wrong-model", "yielded model is not the estimator at that position",
                        {"coor": coor, "model": type(model).__name__}, type(objs[0]).__name__))
        if len(coor) > 1 and tuple(coor[1:-1]) not in seen_paths:
            bad.append(("enumerate:parent-after-child", "a model is yielded before its parent", repr(coor),
                        "parents first"))
        if path in seen_paths:
            bad.append(("enumerate:twice", "an estimator is yielded twice", repr(coor), "exactly once"))
        seen_paths.append(path)
    missing = sorted(set(ref) - set(seen_paths))
    if missing:
        bad.append(("enumerate:missing", "nested estimators never yielded", [(0,) + p for p in missing],
                    "every nested estimator"))
    # pipeline2str: one indented line per yielded model (default indent, then other values of the `indent` argument)
    for k in (None, 1, 2, 5):
        try:
            text = pipeline2str(pipe) if k is None else pipeline2str(pipe, indent=k)
        except Exception as e:
            return bad + [("pipeline2str:raises:%s" % type(e).__name__, "pipeline2str raises", str(e)[:80], "text")]
        width = 3 if k is None else k
        lines = text.split("\n")
        if len(lines) != len(got):
            bad.append(("pipeline2str:line-count", "number of lines differs from the number of yielded models",
                        len(lines), len(got)))
            break
        stop = False
        for line, (coor, model, vs) in zip(lines, got):
            ind = len(line) - len(line.lstrip(" "))
            name = type(model).__name__
            body = line[ind:]
            exp_body = name if vs is None else "%s(%s)" % (name, ",".join(map(str, vs)))
            if ind != width * (len(coor) - 1):
                bad.append(("pipeline2str:indent" if k is None else "pipeline2str:indent:non-default-indent",
                            "indentation is not indent*(depth-1) (indent=%d)" % width, {"line": line, "coor": coor},
                            width * (len(coor) - 1)))
                stop = True
                break
            if body != exp_body:
                bad.append(("pipeline2str:line-text", "line does not name the yielded model", line, exp_body))
                stop = True
                break
        if stop:
            break
    return bad


def leaf_labels(spec):
    """class names of the non-container steps, in order ('Identity' for passthrough)"""
    t = spec["t"]
    if t == "est":
        return [spec["cls"]]
    if t == "pass":
        return ["Identity"]
    if t == "drop":
        return []
    if t in ("pipe", "union"):
        return [x for c in spec["items"] for x in leaf_labels(c)]
    return [x for c, _ in spec["items"] for x in leaf_labels(c)]


def check_dot(spec, data, schema_names, kind):
    """pipeline2dot(pipe, data) against the statement.  kind in df|nd|list."""
    from mlinsights.plotting.visualize import pipeline2dot
    pipe = G.build(spec)
    tag = "schema=%s" % kind
    try:
        text = pipeline2dot(pipe, data)
    except Exception as e:
        return [("pipeline2dot:raises:%s" % type(e).__name__,
                 "pipeline2dot raises instead of returning a graph (%s)" % tag,
                 "%s: %s" % (type(e).__name__, str(e)[:100]), "a DOT graph")], None
    bad = []
    try:
        g = D.parse(text)
    except D.ParseError as e:
        return [("pipeline2dot:not-well-formed", "output is not well-formed DOT (%s)" % tag, str(e), "DOT")], text
    und = D.undeclared_endpoints(g)
    if und:
        bad.append(("pipeline2dot:undeclared-endpoint:%s" % kind, "an edge endpoint is not declared (%s)" % tag,
                    und[:4], "every endpoint declared"))
    if D.has_cycle(g):
        bad.append(("pipeline2dot:cycle", "the graph has a cycle (%s)" % tag, None, "acyclic"))
    # every input column appears (as a port of the first record)
    first = g["nodes"].get(g["order"][0]) if g["order"] else None
    labels0 = [t for _, t in first["ports"]] if first and first["shape"] == "record" else []
    want = list(schema_names) if kind in ("df", "list") else None
    if want is not None:
        miss = [c for c in want if c not in labels0]
    else:
        miss = ["column %d" % i for i in range(len(labels0), len(schema_names))]
    if miss:
        bad.append(("pipeline2dot:input-column-missing:%s" % kind,
                    "input columns do not appear in the graph (%s)" % tag, miss, "every input column appears"))
    # every step appears
    from collections import Counter
    boxes = Counter(n["label"] for n in g["nodes"].values() if n["shape"] == "box")
    need = Counter(leaf_labels(spec))
    lack = sorted((need - boxes).elements())
    if lack:
        bad.append(("pipeline2dot:step-missing", "steps of the pipeline do not appear (%s)" % tag, lack,
                    "every step appears"))
    # final outputs reachable from the inputs
    box_ids = [n for n in g["order"] if g["nodes"][n]["shape"] == "box"]
    if box_ids and first is not None:
        last = box_ids[-1]
        finals = [b for a, b, _ in g["edges"] if a == (last, None)]
        final_recs = sorted(set(b[0] for b in finals))
        ports = [(r, p) for r in final_recs if r in g["nodes"] for p, _ in g["nodes"][r]["ports"]]
        src = [(g["order"][0], p) for p, _ in first["ports"]]
        reach = D.reachable_from(g, src)
        unreachable = ["%s:%s" % v for v in ports if v not in reach]
        if not ports:
            bad.append(("pipeline2dot:no-final-output", "the last step has no output (%s)" % tag, None,
                        "final outputs"))
        elif unreachable:
            has_edge = set(b for a, b, _ in g["edges"])
            sub = "no-inputs" if not src else (
                "port-without-edge" if any(v not in has_edge for v in ports if v not in reach) else "step-without-input")
            bad.append(("pipeline2dot:output-unreachable:%s" % sub,
                        "final outputs not reachable from the inputs (%s)" % tag, unreachable[:4],
                        "reachable from the inputs"))
    # "describe the pipeline they are given": the passthrough remainder of a top-level ColumnTransformer is
    # drawn as an Identity step fed by exactly the input columns selected by none of its transformers
    if spec["t"] == "cols" and spec["rem"] == "passthrough" and len(box_ids) >= 2:
        n = len(schema_names)
        sel = set()
        for _, cols in spec["items"]:
            for v in cols:
                sel.add(v if isinstance(v, int) else list(schema_names).index(v))
        want_src = sorted((g["order"][0], "f%d" % i) for i in range(n) if i not in sel)
        ident = box_ids[-2]
        got_src = sorted(a for a, b, _ in g["edges"] if b == (ident, None))
        if g["nodes"][ident]["label"] != "Identity" or g["nodes"][box_ids[-1]]["label"] != "union":
            bad.append(("pipeline2dot:remainder-not-drawn", "no Identity step for the passthrough remainder (%s)" % tag,
                        [g["nodes"][b]["label"] for b in box_ids[-2:]], "Identity then union"))
        elif got_src != want_src:
            bad.append(("pipeline2dot:remainder-columns",
                        "the passthrough remainder is not fed by the unselected input columns (%s)" % tag,
                        ["%s:%s" % a for a in got_src], ["%s:%s" % a for a in want_src]))
    # same reading for the transformers of a top-level ColumnTransformer given NAMED columns: a leaf transformer whose
    # class appears once in the graph is fed by exactly the input ports of the columns it is given
    if spec["t"] == "cols" and kind in ("df", "list") and first is not None:
        port_of = {lab: prt for prt, lab in first["ports"]}
        for sub, cols in spec["items"]:
            if sub.get("t") != "est" or not cols or not all(isinstance(c, str) for c in cols):
                continue
            ids = [b for b in box_ids if g["nodes"][b]["label"] == sub["cls"]]
            if len(ids) != 1 or any(c not in port_of for c in cols):
                continue
            # the input ports from which the step can be reached (columns may pass through an intermediate record)
            got_src = sorted((g["order"][0], prt) for prt, _ in first["ports"]
                             if (ids[0], None) in D.reachable_from(g, [(g["order"][0], prt)]))
            want_src = sorted((g["order"][0], port_of[c]) for c in cols)
            if got_src != want_src:
                bad.append(("pipeline2dot:transformer-not-fed-by-its-columns",
                            "a transformer of the ColumnTransformer is not reached from exactly the input columns it is given (%s)" % tag,
                            ["%s:%s" % a for a in got_src], ["%s:%s" % a for a in want_src]))
                break
    return bad, text


def _eq(a, b):
    import numpy
    a, b = numpy.asarray(a), numpy.asarray(b)
    return a.shape == b.shape and a.dtype == b.dtype and bool(numpy.array_equal(a, b, equal_nan=True))


def check_debug(spec, data, y):
    """fit, compare every output before/after alter_pipeline_for_debugging, then the recorded chain."""
    import copy
    import numpy
    from sklearn.pipeline import Pipeline, FeatureUnion
    from sklearn.compose import ColumnTransformer
    from mlinsights.helpers.pipeline import alter_pipeline_for_debugging, enumerate_pipeline_models
    pipe = G.build(spec)
    with warnings.catch_warnings():
        warnings.simplefilter("ignore")
        pipe.fit(data, y)
        methods = [m for m in ("transform", "predict", "predict_proba", "decision_function") if hasattr(pipe, m)]
        before = {}
        for m in methods:
            before[m] = getattr(pipe, m)(data)
        plain = copy.deepcopy(pipe)          # an uninstrumented copy of the fitted pipeline (reference for the copies below)
        try:
            alter_pipeline_for_debugging(pipe)
        except Exception as e:
            return [("debug:alter-raises:%s" % type(e).__name__, "alter_pipeline_for_debugging raises",
                     "%s: %s" % (type(e).__name__, str(e)[:100]), "instrumented pipeline")], {}
        bad = []
        records = {}
        for m in methods:
            try:
                after = getattr(pipe, m)(data)
            except Exception as e:
                bad.append(("debug:call-raises:%s" % type(e).__name__, "%s raises after instrumentation" % m,
                            "%s: %s" % (type(e).__name__, str(e)[:100]), "same output as before"))
                continue
            if not _eq(before[m], after):
                bad.append(("debug:output-changed", "output of %s differs after alter_pipeline_for_debugging" % m,
                            None, "identical output"))
            # what each nested model recorded during THIS call
            models = list(enumerate_pipeline_models(pipe))
            rec = {}
            for coor, model, _ in models:
                dbg = getattr(model, "_debug", None)
                rec[coor] = (model, dbg)
            bad += _chain(pipe, (0,), rec, m, data, after)
            records[m] = rec
        # a deep copy of the instrumented pipeline is an instrumented pipeline of its own: used on OTHER rows it returns
        # what the uninstrumented pipeline returns for them and ITS steps record ITS inputs and outputs
        if not bad:
            try:
                pipe2 = copy.deepcopy(pipe)
                data2 = data.iloc[::-1].reset_index(drop=True) if hasattr(data, "iloc") else \
                    data[::-1].copy() if hasattr(data, "shape") else [list(r) for r in data[::-1]]
            except Exception:  # noqa: BLE001
                pipe2 = None
            if pipe2 is not None:
                for m in methods:
                    try:
                        want = getattr(plain, m)(data2)
                        got = getattr(pipe2, m)(data2)
                    except Exception as e:  # noqa: BLE001
                        bad.append(("debug:call-raises:%s:deep-copy" % type(e).__name__, "%s raises on a deep copy of the "
                                    "instrumented pipeline" % m, "%s: %s" % (type(e).__name__, str(e)[:100]),
                                    "same output as the uninstrumented pipeline"))
                        continue
                    if not _eq(want, got):
                        bad.append(("debug:output-changed:deep-copy", "output of %s on a deep copy of the instrumented pipeline "
                                    "differs from the uninstrumented pipeline's" % m, None, "identical output"))
                    rec2 = {coor: (model, getattr(model, "_debug", None))
                            for coor, model, _ in enumerate_pipeline_models(pipe2)}
                    bad += [(k + ":deep-copy", w + " (deep copy of the instrumented pipeline, other rows)", o, r)
                            for k, w, o, r in _chain(pipe2, (0,), rec2, m, data2, got)]
    return bad, records


def _last_io(dbg, preferred):
    """(input, output) recorded for the method actually used on an inner step"""
    if dbg is None:
        return None
    for k in preferred:
        if k in dbg.inputs and k in dbg.outputs:
            return dbg.inputs[k], dbg.outputs[k]
    return None


def _chain(obj, coor, rec, method, x_in, y_out):
    """`obj` (at coordinate coor) was called with `method` on x_in and returned y_out.  Check that it
    recorded exactly that, and recurse into the steps that scikit-learn runs."""
    from sklearn.pipeline import Pipeline, FeatureUnion
    from sklearn.compose import ColumnTransformer
    bad = []
    model, dbg = rec.get(coor, (None, None))
    io = _last_io(dbg, [method])
    name = type(obj).__name__
    if io is None:
        return [("debug:not-recorded:%s" % ("ColumnTransformer-child" if _in_ct(coor, rec) else "step"),
                 "a step that ran recorded no input/output", {"coor": coor, "model": name, "method": method},
                 "last input and output of every step")]
    if io[0] is not x_in and not _eq(io[0], x_in):
        bad.append(("debug:wrong-input", "recorded input is not the actual input", {"coor": coor, "model": name},
                    "actual last input"))
    if io[1] is not y_out and not _eq(io[1], y_out):
        bad.append(("debug:wrong-output", "recorded output is not the actual output", {"coor": coor, "model": name},
                    "actual last output"))
    if isinstance(obj, Pipeline):
        cur = x_in
        steps = [(i, m) for i, (_, m) in enumerate(obj.steps)]
        active = [(i, m) for i, m in steps if not (isinstance(m, str) or m is None)]
        for k, (i, m) in enumerate(active):
            lastone = (k == len(active) - 1) and (i == len(steps) - 1)
            meth = method if lastone else "transform"
            sub_model, sub_dbg = rec.get(coor + (i,), (None, None))
            sio = _last_io(sub_dbg, [meth])
            if sio is None:
                bad.append(("debug:not-recorded:step", "a pipeline step that ran recorded no input/output",
                            {"coor": coor + (i,), "model": type(m).__name__, "method": meth}, "recorded"))
                return bad
            # consecutive steps chain: the input of this step IS the output of the previous one
            if sio[0] is not cur:
                if not _eq(sio[0], cur):
                    bad.append(("debug:chain-broken", "input of a step is not the output of the previous step",
                                {"coor": coor + (i,)}, "consecutive steps chain"))
                else:
                    bad.append(("debug:chain-copy", "input of a step equals but is not the previous output object",
                                {"coor": coor + (i,)}, "consecutive steps chain (identity)"))
            bad += _chain(m, coor + (i,), rec, meth, sio[0], sio[1])
            cur = sio[1]
        if active and active[-1][0] == len(steps) - 1 and cur is not y_out and not _eq(cur, y_out):
            bad.append(("debug:chain-end", "output of the last step is not the output of the pipeline",
                        {"coor": coor}, "chain ends at the pipeline output"))
    elif isinstance(obj, FeatureUnion):
        for i, (_, m) in enumerate(obj.transformer_list):
            if isinstance(m, str):
                continue
            sub_model, sub_dbg = rec.get(coor + (i,), (None, None))
            sio = _last_io(sub_dbg, ["transform"])
            if sio is None:
                bad.append(("debug:not-recorded:step", "a union member that ran recorded no input/output",
                            {"coor": coor + (i,), "model": type(m).__name__}, "recorded"))
                continue
            if sio[0] is not x_in and not _eq(sio[0], x_in):
                bad.append(("debug:union-input", "input of a union member is not the input of the union",
                            {"coor": coor + (i,)}, "same input"))
            bad += _chain(m, coor + (i,), rec, "transform", sio[0], sio[1])
    elif isinstance(obj, ColumnTransformer):
        fitted = {n: t for n, t, _ in getattr(obj, "transformers_", [])}
        for i, (n, m, cols) in enumerate(obj.transformers):
            if isinstance(m, str):
                continue
            run = fitted.get(n, m)
            sub_model, sub_dbg = rec.get(coor + (i,), (None, None))
            sio = _last_io(sub_dbg, ["transform"])
            if sio is None:
                bad.append(("debug:not-recorded:ColumnTransformer-child",
                            "a transformer of a ColumnTransformer that ran recorded no input/output",
                            {"coor": coor + (i,), "model": type(m).__name__}, "recorded"))
                continue
            sel = _select(x_in, cols)
            if not _eq(sio[0], sel):
                bad.append(("debug:columns-input", "recorded input is not the selected columns",
                            {"coor": coor + (i,)}, "the columns %r of the input" % (cols,)))
            bad += _chain(run, coor + (i,), rec, "transform", sio[0], sio[1])
    return bad


def _in_ct(coor, rec):
    from sklearn.compose import ColumnTransformer
    parent = rec.get(coor[:-1], (None, None))[0]
    return isinstance(parent, ColumnTransformer)


def _select(x, cols):
    import numpy
    if hasattr(x, "iloc"):
        if cols and isinstance(cols[0], str):
            return x[list(cols)]
        return x.iloc[:, list(cols)]
    return numpy.asarray(x)[:, list(cols)]
