"""Extractor for C06 (mlinsights/mlmodel/kmeans_l1.py) -> MlVerif/Gen/C06.lean.

Pure function of the source text.  Emits, as Lean data / Lean expressions:

* the loop skeleton of ``_kmeans_single_lloyd``: ``range(...)`` bound, the ``break`` test, the
  best-tracking test, the test guarding the final E-step and what that E-step recomputes, the
  returned iteration count;
* the best-tracking test of the ``n_init`` loop of ``KMeansL1L2._fit_l1``;
* whether the median loop of ``_centers_dense`` skips clusters without members (so that the centre
  written by the empty-cluster relocation survives) -- recognised syntactically, anything else is
  emitted as an opaque ``unknownBool``;
* the L2 delegation table of class ``KMeansL1L2`` (every method with a ``self.norm == 'L2'`` branch:
  callee, positional and keyword arguments, how the result is returned) and the constructor's
  forwarding of its parameters to ``KMeans.__init__``.

Whatever is not in the expected shape is emitted as ``unknown...`` / a ``?``-string, never guessed.
"""
import ast

from extract import pyexpr

SRC = "mlinsights/mlmodel/kmeans_l1.py"


def lstr(s):
    return '"' + s.replace("\\", "\\\\").replace('"', '\\"').replace("\n", " ") + '"'


def llist(xs):
    return "[" + ", ".join(xs) + "]"


def rat_term(tr, node):
    a, t = tr.expr(node)
    if t == "int":
        return "((%s : Int) : Rat)" % a
    if t == "rat":
        return a
    return None


def cmp_term(tr, node):
    """`a <op> b` over rationals -> Lean Bool term, or None."""
    if not (isinstance(node, ast.Compare) and len(node.ops) == 1):
        return None
    a = rat_term(tr, node.left)
    b = rat_term(tr, node.comparators[0])
    if a is None or b is None or "unknownInt" in a or "unknownInt" in b:
        return None
    ops = {ast.Lt: "<", ast.LtE: "≤", ast.Gt: ">", ast.GtE: "≥", ast.Eq: "=", ast.NotEq: "≠"}
    for k, s in ops.items():
        if isinstance(node.ops[0], k):
            return "(decide (%s %s %s))" % (a, s, b)
    return None


def unknown_bool(node_or_text):
    src = node_or_text if isinstance(node_or_text, str) else ast.unparse(node_or_text)
    return "(MlVerif.Gen.unknownBool %s)" % lstr(src)


def best_update(test, tr):
    """`best_inertia is None or inertia < best_inertia` -> (lean term for 2nd disjunct, none_first)."""
    if isinstance(test, ast.BoolOp) and isinstance(test.op, ast.Or) and len(test.values) == 2:
        first, second = test.values
        if ast.unparse(first) == "best_inertia is None":
            c = cmp_term(tr, second)
            if c is not None:
                return c, "true"
    return unknown_bool(test), "false"


def contains(node, cls):
    return any(isinstance(n, cls) for n in ast.walk(node))


def lloyd_skeleton(tree):
    fn = pyexpr.find_function(tree, "_kmeans_single_lloyd")
    out = {}
    loops = [s for s in fn.body if isinstance(s, ast.For)]
    tr_i = pyexpr.Tr({"max_iter": ("max_iter", "int"), "i": ("i", "int")})
    tr = pyexpr.Tr({"center_shift_total": ("center_shift_total", "rat"), "tol": ("tol", "rat"),
                    "inertia": ("inertia", "rat"), "best_inertia": ("best_inertia", "rat")})
    unk_i = lambda what: '(MlVerif.Gen.unknownInt %s)' % lstr(what)  # noqa: E731
    out["loop_src"] = "?"
    out["loopCount"] = unk_i("for loop of _kmeans_single_lloyd not found")
    out["breakCond"] = unknown_bool("break test not found")
    out["break_src"] = "?"
    out["bestUpdate"], out["bestNoneFirst"], out["best_src"] = unknown_bool("best test not found"), "false", "?"
    out["bestAssigns"] = []
    out["loopOrder"] = []
    if len(loops) == 1:
        loop = loops[0]
        it = loop.iter
        out["loop_src"] = "for %s in %s" % (ast.unparse(loop.target), ast.unparse(it))
        if (isinstance(loop.target, ast.Name) and loop.target.id == "i" and isinstance(it, ast.Call)
                and ast.unparse(it.func) == "range" and len(it.args) == 1 and not it.keywords
                and not loop.orelse):
            out["loopCount"] = tr_i.int_expr(it.args[0])
        # statements of the body, classified, in order
        order = []
        for s in loop.body:
            if isinstance(s, ast.Assign):
                tgt = ast.unparse(s.targets[0]) if len(s.targets) == 1 else "?"
                val = s.value
                if isinstance(val, ast.Call):
                    callee = ast.unparse(val.func)
                    args = [ast.unparse(a) for a in val.args] + \
                           ["%s=%s" % (k.arg, ast.unparse(k.value)) for k in val.keywords]
                    order.append("%s = %s(%s)" % (tgt, callee, ", ".join(args)))
                else:
                    order.append("%s = %s" % (tgt, ast.unparse(val)))
            elif isinstance(s, ast.If):
                if contains(s, ast.Break):
                    # the break statement must be the last statement of the `if` body, no else
                    if isinstance(s.body[-1], ast.Break) and not s.orelse and \
                            all(not contains(b, ast.Break) for b in s.body[:-1]):
                        c = cmp_term(tr, s.test)
                        out["breakCond"] = c if c is not None else unknown_bool(s.test)
                    else:
                        out["breakCond"] = unknown_bool("break not in the expected position")
                    out["break_src"] = ast.unparse(s.test)
                    order.append("if %s: break" % ast.unparse(s.test))
                elif ast.unparse(s.test) == "verbose":
                    continue
                elif "best_inertia" in ast.unparse(s.test):
                    out["bestUpdate"], out["bestNoneFirst"] = best_update(s.test, tr)
                    out["best_src"] = ast.unparse(s.test)
                    assigns = []
                    for b in s.body:
                        if isinstance(b, ast.Assign) and len(b.targets) == 1:
                            assigns.append("%s = %s" % (ast.unparse(b.targets[0]), ast.unparse(b.value)))
                        else:
                            assigns.append("?" + ast.unparse(b))
                    if s.orelse:
                        assigns.append("?else")
                    out["bestAssigns"] = assigns
                    order.append("if %s: <best>" % ast.unparse(s.test))
                else:
                    order.append("?if " + ast.unparse(s.test))
            else:
                order.append("?" + type(s).__name__)
        out["loopOrder"] = order
    # after the loop: the conditional final E-step and the return
    out["rerunCond"] = unknown_bool("final E-step test not found")
    out["rerun_src"] = "?"
    out["rerunCall"] = "?"
    out["returnedIter"] = unk_i("return statement not found")
    out["returned"] = []
    if len(loops) == 1:
        idx = fn.body.index(loops[0])
        tail = fn.body[idx + 1:]
        ifs = [s for s in tail if isinstance(s, ast.If)]
        if len(ifs) == 1 and not ifs[0].orelse and len(ifs[0].body) == 1 and isinstance(ifs[0].body[0], ast.Assign):
            s = ifs[0]
            c = cmp_term(tr, s.test)
            out["rerunCond"] = c if c is not None else unknown_bool(s.test)
            out["rerun_src"] = ast.unparse(s.test)
            a = s.body[0]
            val = a.value
            if isinstance(val, ast.Call):
                args = [ast.unparse(x) for x in val.args] + \
                       ["%s=%s" % (k.arg, ast.unparse(k.value)) for k in val.keywords]
                out["rerunCall"] = "%s = %s(%s)" % (ast.unparse(a.targets[0]), ast.unparse(val.func), ", ".join(args))
        rets = [s for s in tail if isinstance(s, ast.Return)]
        if len(rets) == 1 and isinstance(rets[0].value, ast.Tuple) and len(rets[0].value.elts) == 4:
            elts = rets[0].value.elts
            out["returned"] = [ast.unparse(e) for e in elts[:3]]
            out["returnedIter"] = tr_i.int_expr(elts[3])
    return out


EMPTY_TESTS = {"len(sub) == 0", "sub.shape[0] == 0", "not len(sub)", "not sub.shape[0]", "sub.size == 0",
               "len(sub) < 1", "sub.shape[0] < 1", "0 == len(sub)", "0 == sub.shape[0]"}
NONEMPTY_TESTS = {"len(sub) > 0", "sub.shape[0] > 0", "len(sub)", "sub.shape[0]", "len(sub) != 0",
                  "sub.shape[0] != 0", "sub.size > 0", "len(sub) >= 1", "sub.shape[0] >= 1"}


def median_loop(tree):
    """(lean Bool term, description) : does the median loop leave the centre of a memberless cluster alone?"""
    fn = pyexpr.find_function(tree, "_centers_dense")
    loops = [n for n in ast.walk(fn) if isinstance(n, ast.For) and any(
        isinstance(c, ast.Call) and ast.unparse(c.func) == "numpy.median" for c in ast.walk(n))]
    if len(loops) != 1:
        return unknown_bool("median loop not found"), "?"
    loop = loops[0]
    if not (ast.unparse(loop.iter) == "range(n_clusters)" and ast.unparse(loop.target) == "i"):
        return unknown_bool("median loop header: for %s in %s" % (ast.unparse(loop.target), ast.unparse(loop.iter))), "?"
    body = loop.body
    desc = "; ".join(ast.unparse(s).replace("\n", " ") for s in body)
    if not body or ast.unparse(body[0]) != "sub = X[labels == i]":
        return unknown_bool("median loop body: " + desc), desc

    def is_median_tail(stmts):
        return [ast.unparse(s) for s in stmts] == ["med = numpy.median(sub, axis=0)", "centers[i, :] = med"]
    rest = body[1:]
    if is_median_tail(rest):
        return "false", desc                                   # every cluster is overwritten by its median
    if len(rest) == 3 and isinstance(rest[0], ast.If) and is_median_tail(rest[1:]):
        g = rest[0]
        if ast.unparse(g.test) in EMPTY_TESTS and not g.orelse and len(g.body) == 1 and isinstance(g.body[0], ast.Continue):
            return "true", desc
    if len(rest) == 1 and isinstance(rest[0], ast.If):
        g = rest[0]
        if ast.unparse(g.test) in NONEMPTY_TESTS and not g.orelse and is_median_tail(g.body):
            return "true", desc
    return unknown_bool("median loop body: " + desc), desc


def method_params(fn):
    a = fn.args
    names = [x.arg for x in a.posonlyargs + a.args]
    return names, [x.arg for x in a.kwonlyargs], (a.vararg.arg if a.vararg else None), (a.kwarg.arg if a.kwarg else None)


def delegation_table(tree):
    cls = pyexpr.find_function(tree, "KMeansL1L2")
    bases = [ast.unparse(b) for b in cls.bases]
    rows = []
    public = []
    for fn in cls.body:
        if not isinstance(fn, ast.FunctionDef):
            continue
        if not fn.name.startswith("_"):
            public.append(fn.name)
        # the first `if` statement of the method (after the docstring) testing self.norm
        stmts = [s for s in fn.body if not (isinstance(s, ast.Expr) and isinstance(s.value, ast.Constant))]
        if not stmts or not isinstance(stmts[0], ast.If) or "self.norm" not in ast.unparse(stmts[0].test):
            continue
        if fn.name == "__init__":
            continue
        top = stmts[0]
        names, kwonly, va, kw = method_params(fn)
        row = {"method": fn.name, "params": names[1:] + kwonly + ([("*" + va)] if va else []) + ([("**" + kw)] if kw else []),
               "test": ast.unparse(top.test), "callee": "?", "args": [], "kwargs": [], "result": "?"}
        if len(top.body) == 1:
            s = top.body[0]
            call = None
            if isinstance(s, ast.Return) and isinstance(s.value, ast.Call):
                call, row["result"] = s.value, "return-call"
            elif isinstance(s, ast.Expr) and isinstance(s.value, ast.Call):
                call = s.value
                # result: the method must end with `return self`
                last = fn.body[-1]
                row["result"] = "return-self" if (isinstance(last, ast.Return) and ast.unparse(last.value) == "self"
                                                 and len(stmts) == 2) else "?discarded"
            if call is not None:
                row["callee"] = ast.unparse(call.func)
                row["args"] = [ast.unparse(a) for a in call.args]
                row["kwargs"] = [(k.arg if k.arg else "**", ast.unparse(k.value)) for k in call.keywords]
        rows.append(row)
    # constructor
    ctor = {"params": [], "callee": "?", "args": [], "forward": [], "stores": [], "first": "false"}
    for fn in cls.body:
        if isinstance(fn, ast.FunctionDef) and fn.name == "__init__":
            names, kwonly, va, kw = method_params(fn)
            ctor["params"] = names[1:] + kwonly + ([("*" + va)] if va else []) + ([("**" + kw)] if kw else [])
            stmts = [s for s in fn.body if not (isinstance(s, ast.Expr) and isinstance(s.value, ast.Constant))]
            if stmts and isinstance(stmts[0], ast.Expr) and isinstance(stmts[0].value, ast.Call):
                call = stmts[0].value
                ctor["first"] = "true"
                ctor["callee"] = ast.unparse(call.func)
                ctor["args"] = [ast.unparse(a) for a in call.args]
                ctor["forward"] = [(k.arg if k.arg else "**", ast.unparse(k.value)) for k in call.keywords]
            for n in ast.walk(fn):
                if isinstance(n, (ast.Assign, ast.AugAssign, ast.AnnAssign)):
                    tgts = n.targets if isinstance(n, ast.Assign) else [n.target]
                    for t in tgts:
                        for e in (t.elts if isinstance(t, ast.Tuple) else [t]):
                            if isinstance(e, ast.Attribute) and ast.unparse(e.value) == "self":
                                val = ast.unparse(n.value) if n.value is not None else "?"
                                if isinstance(n, ast.AugAssign) or isinstance(t, ast.Tuple):
                                    val = "?" + val
                                ctor["stores"].append((e.attr, val))
    return bases, public, rows, ctor


def pairs(ps):
    return llist("(%s, %s)" % (lstr(a), lstr(b)) for a, b in ps)


def strs(xs):
    return llist(lstr(x) for x in xs)


def generate(source):
    tree = ast.parse(source)
    sk = lloyd_skeleton(tree)
    skip, skip_desc = median_loop(tree)
    # n_init loop of _fit_l1
    fit = pyexpr.find_function(tree, "KMeansL1L2._fit_l1")
    tr = pyexpr.Tr({"inertia": ("inertia", "rat"), "best_inertia": ("best_inertia", "rat")})
    fit_best, fit_none_first, fit_best_src = unknown_bool("n_init best test not found"), "false", "?"
    floops = [n for n in ast.walk(fit) if isinstance(n, ast.For) and ast.unparse(n.iter) == "seeds"]
    if len(floops) == 1:
        ifs = [s for s in floops[0].body if isinstance(s, ast.If) and "best_inertia" in ast.unparse(s.test)]
        if len(ifs) == 1 and not ifs[0].orelse:
            fit_best, fit_none_first = best_update(ifs[0].test, tr)
            fit_best_src = ast.unparse(ifs[0].test)
    bases, public, rows, ctor = delegation_table(tree)
    deleg = ",\n  ".join(
        "{ method := %s, params := %s, test := %s, callee := %s, args := %s, kwargs := %s, result := %s }"
        % (lstr(r["method"]), strs(r["params"]), lstr(r["test"]), lstr(r["callee"]), strs(r["args"]),
           pairs(r["kwargs"]), lstr(r["result"])) for r in rows)
    body = pyexpr.HEADER + """import MlVerif.Gen.Base
namespace MlVerif.Gen.C06
open MlVerif.Gen

/-! ### `_kmeans_single_lloyd`: loop skeleton -/

/-- `%(loop_src)s` : number of iterations the loop may run -/
def loopCount (max_iter : Int) : Int := %(loopCount)s
/-- statements of the loop body in order (calls with their argument lists) -/
def loopOrder : List String := %(loopOrder)s
/-- best-tracking test `%(best_src)s`; `bestNoneFirst`: the test starts with `best_inertia is None or` -/
def bestUpdate (inertia best_inertia : Rat) : Bool := %(bestUpdate)s
def bestNoneFirst : Bool := %(bestNoneFirst)s
def bestAssigns : List String := %(bestAssigns)s
/-- the `break` test `%(break_src)s` -/
def breakCond (center_shift_total tol : Rat) : Bool := %(breakCond)s
/-- the test guarding the final E-step: `%(rerun_src)s` -/
def rerunCond (center_shift_total tol : Rat) : Bool := %(rerunCond)s
def rerunCall : String := %(rerunCall)s
/-- `return %(returned_src)s, <n_iter>` -/
def returned : List String := %(returned)s
def returnedIter (i : Int) : Int := %(returnedIter)s

/-! ### `_fit_l1`: best of the `n_init` runs, test `%(fit_best_src)s` -/
def fitBestUpdate (inertia best_inertia : Rat) : Bool := %(fit_best)s
def fitBestNoneFirst : Bool := %(fit_none_first)s

/-! ### `_centers_dense`: median loop `%(skip_desc)s` -/
/-- does the median loop leave the centre of a cluster without members untouched? -/
def medianLoopSkipsEmpty : Bool := %(skip)s

/-! ### class `KMeansL1L2(%(bases)s)`: delegation under `norm == 'L2'` -/
structure Deleg where
  method : String
  params : List String
  test : String
  callee : String
  args : List String
  kwargs : List (String × String)
  result : String
deriving DecidableEq, Repr

def classBases : List String := %(bases_l)s
/-- public methods defined by the class itself (everything else is inherited from the bases) -/
def publicMethods : List String := %(public)s
def delegations : List Deleg := [
  %(deleg)s]

/-- constructor: parameters, the first statement's call, its keyword arguments, `self.<attr> = <value>` stores -/
def ctorParams : List String := %(ctor_params)s
def ctorCallsFirst : Bool := %(ctor_first)s
def ctorCallee : String := %(ctor_callee)s
def ctorArgs : List String := %(ctor_args)s
def ctorForward : List (String × String) := %(ctor_forward)s
def ctorStores : List (String × String) := %(ctor_stores)s

end MlVerif.Gen.C06
""" % {
        "loop_src": sk["loop_src"], "loopCount": sk["loopCount"], "loopOrder": strs(sk["loopOrder"]),
        "best_src": sk["best_src"], "bestUpdate": sk["bestUpdate"], "bestNoneFirst": sk["bestNoneFirst"],
        "bestAssigns": strs(sk["bestAssigns"]), "break_src": sk["break_src"], "breakCond": sk["breakCond"],
        "rerun_src": sk["rerun_src"], "rerunCond": sk["rerunCond"], "rerunCall": lstr(sk["rerunCall"]),
        "returned_src": ", ".join(sk["returned"]), "returned": strs(sk["returned"]),
        "returnedIter": sk["returnedIter"], "fit_best_src": fit_best_src, "fit_best": fit_best,
        "fit_none_first": fit_none_first, "skip_desc": skip_desc.replace("-/", "- /"), "skip": skip,
        "bases": ", ".join(bases), "bases_l": strs(bases), "public": strs(public), "deleg": deleg,
        "ctor_params": strs(ctor["params"]), "ctor_first": ctor["first"], "ctor_callee": lstr(ctor["callee"]),
        "ctor_args": strs(ctor["args"]), "ctor_forward": pairs(ctor["forward"]), "ctor_stores": pairs(ctor["stores"]),
    }
    return body
