"""Generate lean/MlVerif/Gen/C02.lean and Gen/C03.lean from the working tree (see skeleton.py)."""
import ast
import os

from extract import skeleton as sk
from extract.pyexpr import HEADER

EST_BASES = {"BaseEstimator", "KMeans", "DecisionTreeRegressor", "LinearRegression", "BaseMultilayerPerceptron",
             "CountVectorizer", "TfidfVectorizer"}
NOT_ESTIMATORS = {"SkLearnParameters", "SkException", "FeaturizerTypeError", "NGramsMixin",
                  "TimeSeriesRegressorMixin"}
SCOPE_PREFIXES = ("mlinsights.mlmodel", "mlinsights.sklapi", "mlinsights.timeseries")
PARAM_ATOMS = {"snap", "kill", "restore", "write"}
OWN_ATOMS = {"bindAlias", "bindFresh", "mutate"}
ATTR_ATOMS = {"wattr", "rattr", "dattr"}
FIT_METHODS = ("fit",)


def in_scope(uni, c):
    mod, _ = uni.classes[c]
    if not mod.startswith(SCOPE_PREFIXES) or c in NOT_ESTIMATORS or c.startswith("_"):
        return False
    return bool(set(uni.external_bases(c)) & EST_BASES) or "SkBase" in [c] + uni.class_bases(c)


def public_methods(uni, c):
    return [m for m in uni.methods(c)
            if not m.startswith("_") and m not in sk.SKIP_METHODS and not uni.is_property(c, m)]


def drop_useless_kills(prog):
    """kill v matters only if v is ever a snapshot variable"""
    snaps = {a[1] for a in sk.atoms(prog) if a[0] == "snap"} | {a[2] for a in sk.atoms(prog) if a[0] == "restore"}

    def f(p):
        t = p[0]
        if t == "atom":
            return ("skip",) if p[1][0] == "kill" and p[1][1] not in snaps else p
        if t in ("seq", "tryFinally", "tryExcept"):
            return (t, f(p[1]), f(p[2]))
        if t == "ite":
            return ("ite", p[1], f(p[2]), f(p[3]))
        if t in ("loop", "scope"):
            return (t, f(p[1]))
        return p
    return sk.simplify(f(prog), PARAM_ATOMS)


def slice_ownership(prog):
    """Keep only what can influence a check of the ownership analysis.
    (1) names: R = names written in place, closed backwards under `bindAlias v us` (v in R => us in R);
        a binding of a name outside R is never consulted by any check and is dropped.
    (2) may-raise points outside any try block are dropped: the property is an invariant checked at every
        in-place write, an exception only cuts an execution short, and abstract exception states are consulted
        only by `except`/`finally` blocks (inside which calls are kept)."""
    R = {a[1] for a in sk.atoms(prog) if a[0] == "mutate"}
    edges = [(a[1], a[2]) for a in sk.atoms(prog) if a[0] == "bindAlias"]
    changed = True
    while changed:
        changed = False
        for v, us in edges:
            if v in R:
                for u in us:
                    if u not in R:
                        R.add(u)
                        changed = True

    def f(p, in_try):
        t = p[0]
        if t == "atom":
            a = p[1]
            if a[0] in ("bindAlias", "bindFresh") and a[1] not in R:
                return ("skip",)
            if a[0] == "bindAlias":
                return ("atom", ("bindAlias", a[1], [u for u in a[2] if u in R]))
            return p
        if t in ("call", "raise_"):
            return p if in_try else (("skip",) if t == "call" else p)
        if t == "seq":
            return ("seq", f(p[1], in_try), f(p[2], in_try))
        if t == "ite":
            return ("ite", p[1], f(p[2], in_try), f(p[3], in_try))
        if t in ("loop", "scope"):
            return (t, f(p[1], in_try))
        if t in ("tryFinally", "tryExcept"):
            return (t, f(p[1], True), f(p[2], in_try))
        return p
    return sk.simplify(f(prog, False), OWN_ATOMS), R


def returns_self(uni, cname, mname, seen=()):
    """every `return` of the method is `return self`, or returns the result of a method of the same
    hierarchy that itself returns self, or of the external parent's method of the same name (trusted)."""
    r = uni.find_method(cname, mname)
    if r is None:
        return False, ["<no method>"]
    fn = r[2]
    rets = []
    ok = True

    class V(ast.NodeVisitor):
        def visit_FunctionDef(self, node):
            if node is fn:
                self.generic_visit(node)

        def visit_Lambda(self, node):
            pass

        def visit_Return(self, node):
            rets.append(ast.unparse(node.value) if node.value is not None else "None")
    V().visit(fn)
    falls_through = not isinstance(fn.body[-1], (ast.Return, ast.Raise)) if fn.body else True
    if falls_through:
        rets.append("<falls off the end: None>")
        ok = False
    for n in ast.walk(fn):
        if isinstance(n, ast.Return) and _owner_fn(fn, n) is fn:
            v = n.value
            if isinstance(v, ast.Name) and v.id == "self":
                continue
            if isinstance(v, ast.Call) and isinstance(v.func, ast.Attribute):
                f = v.func
                if isinstance(f.value, ast.Name) and f.value.id == "self" and (cname, f.attr) not in seen:
                    sub, _ = returns_self(uni, cname, f.attr, seen + ((cname, mname),))
                    if sub:
                        continue
                if isinstance(f.value, ast.Name) and f.value.id not in uni.classes and f.attr == mname \
                        and v.args and isinstance(v.args[0], ast.Name) and v.args[0].id == "self":
                    continue        # return Parent.fit(self, ...) of an external (scikit-learn) parent
                if isinstance(f.value, ast.Call) and isinstance(f.value.func, ast.Name) \
                        and f.value.func.id == "super" and f.attr == mname:
                    nxt = uni.find_method(cname, mname, start_after=r[0])
                    if nxt is None:
                        continue    # external parent
                    sub, _ = returns_self(uni, nxt[0], mname, seen + ((cname, mname),))
                    if sub:
                        continue
            ok = False
    return ok, rets


def _owner_fn(root, target):
    """innermost FunctionDef/Lambda of `root` containing `target`"""
    best = [root]

    def visit(n, cur):
        for ch in ast.iter_child_nodes(n):
            c2 = ch if isinstance(ch, (ast.FunctionDef, ast.Lambda)) else cur
            if ch is target:
                best[0] = cur
                return True
            if visit(ch, c2):
                return True
        return False
    visit(root, root)
    return best[0]


def class_alias_closure(progs, arg_names, params):
    """flow-insensitive may-alias closure over all methods of a class: names that may point into
    memory the caller owns (array arguments of public methods, hyper-parameter objects)."""
    edges = []
    for p in progs:
        for a in sk.atoms(p):
            if a[0] == "bindAlias":
                for u in a[2]:
                    edges.append((u, a[1]))
    tainted = set(arg_names) | {"self." + k for k in params}
    changed = True
    while changed:
        changed = False
        for u, v in edges:
            if u in tainted and v not in tainted:
                tainted.add(v)
                changed = True
    return tainted


def build(repo):
    uni = sk.Universe(repo)
    out = []
    for c in sorted(uni.classes):
        if not in_scope(uni, c):
            continue
        tr = sk.Translator(uni, c)
        ms = []
        for m in public_methods(uni, c):
            r = tr.method(m)
            if r is not None:
                ms.append(r)
        args = set()
        for r in ms:
            args |= set(r["args"])
        tainted = class_alias_closure([r["prog"] for r in ms], args, tr.params)
        tainted_attrs = sorted(t for t in tainted if t.startswith("self."))
        for r in ms:
            r["borrowed"] = sorted(set(r["args"]) | set(tainted_attrs) | {sk.COPY_OPT_OUT})
            if r["method"] in FIT_METHODS:
                r["returns_self"], r["returns"] = returns_self(uni, c, r["method"])
        out.append({"class": c, "module": uni.classes[c][0], "params": tr.params, "methods": ms,
                    "unknown_calls": sorted(tr.unknown_calls),
                    "external_parent_calls": sorted(tr.external_parent_calls),
                    "method_names": sorted(tr.method_names)})
    return uni, out


def lean_str(s):
    return '"' + s.replace("\\", "\\\\").replace('"', '\\"') + '"'


def gen_c02(repo):
    uni, classes = build(repo)
    L = [HEADER, "import MlVerif.Model.Lifecycle", "namespace MlVerif.Gen.C02", "open MlVerif.Flow MlVerif.Lifecycle", "",
         "structure Method where", "  cls : String", "  name : String", "  isFit : Bool",
         "  returnsSelf : Bool", "  paramProg : Prog Act", "  ownProg : Prog Act", "  borrowed : List Nat",
         "  traceProg : Prog Act   -- hyper-parameter / attribute assignments only (trace correspondence)", ""]
    names = []
    tables = {}
    for c in classes:
        for r in c["methods"]:
            loc, par, att = sk.Numbering(), sk.Numbering(), sk.Numbering()
            tp = sk.simplify(sk.trace_program(r["prog"]), sk.TRACE_ATOMS)
            ttxt = sk.render(tp, loc, par, att)      # rendered FIRST: fixes the numbering of parameters / attributes
            tables[(c["class"], r["method"])] = {"index": len(names), "params": dict(par.tab), "attrs": dict(att.tab)}
            pp = drop_useless_kills(sk.simplify(r["prog"], PARAM_ATOMS))
            op, relevant = slice_ownership(sk.simplify(r["prog"], OWN_ATOMS))
            ptxt = sk.render(pp, loc, par, att)
            otxt = sk.render(op, loc, par, att)
            borrowed = [loc(b) for b in r["borrowed"] if b in relevant]
            ident = "m_%s_%s" % (c["class"], r["method"])
            names.append(ident)
            L.append("-- %s.%s (defined in %s); hyper-parameters %s; names %s" % (
                c["class"], r["method"], r["owner"],
                {k: v for k, v in par.tab.items()}, {k: v for k, v in list(loc.tab.items())[:40]}))
            if "returns" in r:
                L.append("-- returns: %s" % "; ".join(r["returns"]))
            L.append("def %s : Method := {" % ident)
            L.append("  cls := %s, name := %s, isFit := %s, returnsSelf := %s," % (
                lean_str(c["class"]), lean_str(r["method"]),
                "true" if r["method"] in FIT_METHODS else "false",
                "true" if r.get("returns_self", True) else "false"))
            L.append("  paramProg := %s," % ptxt)
            L.append("  ownProg := %s," % otxt)
            L.append("  borrowed := [%s]," % ", ".join(map(str, borrowed)))
            L.append("  traceProg := %s }" % ttxt)
            L.append("")
    L.append("def methods : List Method := [")
    L.append("  " + ",\n  ".join(names))
    L.append("]")
    L.append("")
    L.append("end MlVerif.Gen.C02")
    gen_c02.tables = tables
    return "\n".join(L) + "\n", classes


def relevant_pconds(progs, cap=4):
    """hyper-parameter conditions guarding (directly or not) an attribute read/write"""
    out = []
    for p in progs:
        for n in sk.walk(p):
            if n[0] == "ite" and n[1][0] == "pcond" and n[1][1] not in out:
                if any(a[0] in ATTR_ATOMS for a in sk.atoms(n[2])) or any(a[0] in ATTR_ATOMS for a in sk.atoms(n[3])):
                    out.append(n[1][1])
    return out[:cap]


def observers_required(fit_prog, observer_progs, all_progs=None):
    """attributes an observer (any public non-fit method) reads, or lazily writes: `fit` must have
    rewritten (or deleted) each of them.  Attributes that NO method writes cannot hold anything stale and
    are excluded: they belong to the external parent class (trusted: the parent's fit rewrites its own) or
    are never set.  "No method writes" is decided on `all_progs`, the UNSPECIALISED programs: hyper-parameters
    may be changed between two fits (set_params), so an attribute that `fit` writes only under another
    valuation of the hyper-parameter conditions can be left over from an earlier fit; an observer that reads
    it under the current valuation must find it rewritten or deleted by the current fit."""
    written = set()
    for p in (all_progs if all_progs is not None else [fit_prog] + observer_progs):
        for a in sk.atoms(p):
            if a[0] in ("wattr", "dattr"):
                written.add(a[1])
            elif a[0] == "mutate" and a[1].startswith("self."):
                # `self.a[k] = v`, `self.a.append(v)`: the attribute holds state that is modified in place;
                # unless fit rebinds it first, what an earlier fit stored there survives
                written.add(a[1][5:])
    req = []
    for p in observer_progs:
        for a in sk.atoms(p):
            if a[0] == "rattr":
                for x in a[1]:
                    if x in written and x not in req:
                        req.append(x)
            elif a[0] == "wattr":
                if a[1] not in req:
                    req.append(a[1])
                for x in a[2]:
                    if x in written and x not in req:
                        req.append(x)
    return req, written


DOCUMENTED_SEED = ("KMeansL1L2", "PermutationReciprocalTransformer", "PiecewiseClassifier")


def c03_cases(repo):
    import itertools
    uni, classes = build(repo)
    cases = []
    for c in classes:
        fits = [r for r in c["methods"] if r["method"] in FIT_METHODS]
        if not fits:
            continue
        fit = fits[0]
        observers = [r for r in c["methods"] if not r["method"].startswith("fit")]
        conds = relevant_pconds([fit["prog"]] + [o["prog"] for o in observers])
        rng = global_rng_calls(uni, c["class"], fit["method"])
        for vals in itertools.product([True, False], repeat=len(conds)):
            rho = dict(zip(conds, vals))
            sfit = sk.specialize(fit["prog"], rho)
            sobs = [sk.specialize(o["prog"], rho) for o in observers]
            req, written = observers_required(sfit, sobs, [fit["prog"]] + [o["prog"] for o in observers])
            prog = sk.simplify(_drop_foreign_reads(sfit, written), ATTR_ATOMS)
            cases.append({"class": c["class"], "method": fit["method"], "rho": rho, "prog": prog,
                          "required": req, "rng": rng, "documents_seed": c["class"] in DOCUMENTED_SEED})
    return uni, classes, cases


def fit_steps(uni, cname):
    """public methods `fit` calls on self, transitively: steps of the fit (they build the state), not observers"""
    out, todo = set(), list(FIT_METHODS)
    seen = set()
    while todo:
        m = todo.pop()
        if m in seen:
            continue
        seen.add(m)
        r = uni.find_method(cname, m)
        if r is None:
            continue
        for n in ast.walk(r[2]):
            if isinstance(n, ast.Call) and isinstance(n.func, ast.Attribute) and isinstance(n.func.value, ast.Name) \
                    and n.func.value.id == "self":
                out.add(n.func.attr)
                todo.append(n.func.attr)
    return out


def c03_observers(uni, classes):
    """(class, method, ownership skeleton, names holding the fitted state) for every public method that is not `fit`
    nor a step of it: using a fitted model must not write into its fitted attributes in place."""
    out = []
    for c in classes:
        state = set()
        for r in c["methods"]:
            for a in sk.atoms(r["prog"]):
                if a[0] in ("bindAlias", "bindFresh") and a[1].startswith("self.") and a[1][5:] not in c["params"]:
                    state.add(a[1])
                elif a[0] == "wattr":
                    state.add("self." + a[1])
                elif a[0] == "rattr":
                    state |= {"self." + x for x in a[1]}
        steps = fit_steps(uni, c["class"])
        for r in c["methods"]:
            m = r["method"]
            if m.startswith(("fit", "partial_fit")) or m in steps:
                continue
            out.append({"class": c["class"], "method": m, "prog": sk.simplify(r["prog"], OWN_ATOMS),
                        "state": sorted(state)})
    return out


def c03_fit_writers(uni, classes):
    """(class, method, ownership skeleton, names holding the fitted state) for every `fit*` method: a fit builds
    NEW state (rebinds the fitted attributes); it never writes in place into what an earlier fit stored, so objects that
    still hold the earlier arrays (a shallow copy, a reference kept by the caller) are not changed by a refit."""
    out = []
    for c in classes:
        state = set()
        for r in c["methods"]:
            for a in sk.atoms(r["prog"]):
                if a[0] in ("bindAlias", "bindFresh") and a[1].startswith("self.") and a[1][5:] not in c["params"]:
                    state.add(a[1])
                elif a[0] == "wattr":
                    state.add("self." + a[1])
        for r in c["methods"]:
            m = r["method"]
            if m.startswith(("fit", "partial_fit")):     # its public steps are inlined in its skeleton
                out.append({"class": c["class"], "method": m, "prog": sk.simplify(r["prog"], OWN_ATOMS),
                            "state": sorted(state)})
    return out


SCOPE_DIRS = ("mlmodel", "sklapi", "timeseries", "mltree", "metrics", "helpers", "plotting")


def process_global_state(repo):
    """Census of what can carry state from one call to another OUTSIDE the estimator instance: mutable default arguments,
    memoising decorators, mutable class attributes, module-level mutable objects and `global` statements, in the
    packages the properties speak about.  Constant lookup tables appear in it too: the list is compared with the literal
    the models were written against, so a NEW entry (a cache, a registry, a default `known={}`) is noticed."""
    out = []

    def mutable(d):
        return isinstance(d, (ast.Dict, ast.List, ast.Set, ast.ListComp, ast.DictComp, ast.SetComp, ast.Call))
    for pkg in SCOPE_DIRS:
        d = os.path.join(repo, "mlinsights", pkg)
        if not os.path.isdir(d):
            continue
        for fn in sorted(os.listdir(d)):
            if not fn.endswith(".py"):
                continue
            rel = "%s/%s" % (pkg, fn)
            try:
                tree = ast.parse(open(os.path.join(d, fn), encoding="utf-8").read())
            except SyntaxError:
                out.append("%s: cannot be parsed" % rel)
                continue
            for n in ast.walk(tree):
                if isinstance(n, (ast.FunctionDef, ast.AsyncFunctionDef)):
                    a = n.args
                    pos = a.posonlyargs + a.args
                    for arg, dv in list(zip(pos[len(pos) - len(a.defaults):], a.defaults)) + list(zip(a.kwonlyargs, a.kw_defaults)):
                        if dv is not None and mutable(dv):
                            out.append("%s:%s: mutable default %s=%s" % (rel, n.name, arg.arg, ast.unparse(dv)[:40]))
                    for dec in n.decorator_list:
                        sdec = ast.unparse(dec)
                        if "cache" in sdec.lower() or "memo" in sdec.lower():
                            out.append("%s:%s: decorator %s" % (rel, n.name, sdec[:40]))
                elif isinstance(n, ast.ClassDef):
                    for st in n.body:
                        if isinstance(st, ast.Assign) and mutable(st.value):
                            out.append("%s:%s: class attribute %s" % (rel, n.name, ast.unparse(st.targets[0])))
                elif isinstance(n, (ast.Global, ast.Nonlocal)):
                    out.append("%s: %s %s" % (rel, type(n).__name__.lower(), ",".join(n.names)))
            for st in tree.body:
                if isinstance(st, ast.Assign) and mutable(st.value) and ast.unparse(st.targets[0]) != "__all__":
                    out.append("%s: module-level %s" % (rel, ast.unparse(st.targets[0])))
    return [x.replace('"', "'").replace("\\", "/") for x in out]


def gen_c03(repo):
    uni, classes, cases = c03_cases(repo)
    L = [HEADER, "import MlVerif.Model.Lifecycle", "namespace MlVerif.Gen.C03", "open MlVerif.Flow MlVerif.Lifecycle", "",
         "structure FitCase where", "  cls : String", "  name : String",
         "  rho : List (String × Bool)   -- truth values of the hyper-parameter conditions this case fixes",
         "  prog : Prog Act",
         "  required : List Nat          -- attributes observers read or lazily write",
         "  unguardedGlobalRng : List String   -- draws from the GLOBAL numpy generator not guarded by `random_state is None`",
         "  documentsSeed : Bool         -- an integer random_state is documented as making the class deterministic", ""]
    names = []
    for n, cs in enumerate(cases):
        loc, par, att = sk.Numbering(), sk.Numbering(), sk.Numbering()
        txt = sk.render(cs["prog"], loc, par, att)
        reqn = [att(a) for a in cs["required"]]
        ident = "f%d_%s_%s" % (n, cs["class"], cs["method"])
        names.append(ident)
        L.append("-- %s.%s under %s; attributes %s" % (cs["class"], cs["method"], cs["rho"], dict(att.tab)))
        L.append("def %s : FitCase := {" % ident)
        L.append("  cls := %s, name := %s," % (lean_str(cs["class"]), lean_str(cs["method"])))
        L.append("  rho := [%s]," % ", ".join("(%s, %s)" % (lean_str(k), "true" if v else "false")
                                             for k, v in cs["rho"].items()))
        L.append("  prog := %s," % txt)
        L.append("  required := [%s]," % ", ".join(map(str, reqn)))
        L.append("  unguardedGlobalRng := [%s]," % ", ".join(lean_str(x["site"]) for x in cs["rng"] if not x["guarded"]))
        L.append("  documentsSeed := %s }" % ("true" if cs["documents_seed"] else "false"))
        L.append("")
    L.append("def cases : List FitCase := [")
    L.append("  " + ",\n  ".join(names))
    L.append("]")
    L.append("")
    L.append("structure Observer where")
    L.append("  cls : String")
    L.append("  name : String")
    L.append("  ownProg : Prog Act       -- ownership skeleton (bind / in-place write atoms) of the method")
    L.append("  state : List Nat          -- names bound to the fitted attributes of the instance")
    L.append("")
    onames = []
    for n, ob in enumerate(c03_observers(uni, classes)):
        loc, par, att = sk.Numbering(), sk.Numbering(), sk.Numbering()
        op, relevant = slice_ownership(ob["prog"])
        txt = sk.render(op, loc, par, att)
        st = [loc(b) for b in ob["state"] if b in relevant]
        ident = "o%d_%s_%s" % (n, ob["class"], ob["method"])
        onames.append(ident)
        L.append("-- %s.%s; names %s" % (ob["class"], ob["method"], {k: v for k, v in list(loc.tab.items())[:30]}))
        L.append("def %s : Observer := { cls := %s, name := %s, ownProg := %s, state := [%s] }" % (
            ident, lean_str(ob["class"]), lean_str(ob["method"]), txt, ", ".join(map(str, st))))
    L.append("")
    L.append("def observers : List Observer := [")
    L.append("  " + ",\n  ".join(onames))
    L.append("]")
    L.append("")
    wnames = []
    for n, ob in enumerate(c03_fit_writers(uni, classes)):
        loc, par, att = sk.Numbering(), sk.Numbering(), sk.Numbering()
        op, relevant = slice_ownership(ob["prog"])
        txt = sk.render(op, loc, par, att)
        st = [loc(b) for b in ob["state"] if b in relevant]
        ident = "w%d_%s_%s" % (n, ob["class"], ob["method"])
        wnames.append(ident)
        L.append("-- %s.%s; names %s" % (ob["class"], ob["method"], {k: v for k, v in list(loc.tab.items())[:30]}))
        L.append("def %s : Observer := { cls := %s, name := %s, ownProg := %s, state := [%s] }" % (
            ident, lean_str(ob["class"]), lean_str(ob["method"]), txt, ", ".join(map(str, st))))
    L.append("")
    L.append("/-- `fit` and its public steps, with the names bound to the fitted attributes AT ENTRY (what an earlier fit stored) -/")
    L.append("def fitWriters : List Observer := [")
    L.append("  " + ",\n  ".join(wnames))
    L.append("]")
    L.append("")
    L.append("/-- what can carry state between calls outside the instance (see lifecycle_gen.process_global_state) -/")
    L.append("def processGlobalState : List String := [")
    L.append("  " + ",\n  ".join(lean_str(x) for x in process_global_state(repo)))
    L.append("]")
    L.append("")
    L.append("end MlVerif.Gen.C03")
    return "\n".join(L) + "\n", classes, cases


def _drop_foreign_reads(prog, written):
    t = prog[0]
    if t == "atom":
        a = prog[1]
        if a[0] == "rattr":
            keep = [x for x in a[1] if x in written]
            return ("atom", ("rattr", keep)) if keep else ("skip",)
        if a[0] == "wattr":
            return ("atom", ("wattr", a[1], [x for x in a[2] if x in written]))
        return prog
    if t in ("seq", "tryFinally", "tryExcept"):
        return (t, _drop_foreign_reads(prog[1], written), _drop_foreign_reads(prog[2], written))
    if t == "ite":
        c = prog[1]
        if c[0] == "rattr":
            keep = [x for x in c[1] if x in written]
            c = ("rattr", keep) if keep else ("nop",)
        return ("ite", c, _drop_foreign_reads(prog[2], written), _drop_foreign_reads(prog[3], written))
    if t in ("loop", "scope"):
        return (t, _drop_foreign_reads(prog[1], written))
    return prog


GLOBAL_RNG_FUNCS = {"rand", "randn", "randint", "random", "random_sample", "permutation", "shuffle", "choice",
                    "uniform", "normal", "seed", "sample", "ranf"}


def global_rng_calls(uni, cname, mname):
    """`numpy.random.<draw>(...)` / `numpy.random.RandomState()` with no seed, reachable from the method
    through the same inlining as the IR (methods of the hierarchy, module-level functions, nested ones)."""
    found = []
    seen = set()

    def visit_fn(fn, module, owner):
        key = (module, fn.name, fn.lineno)
        if key in seen:
            return
        seen.add(key)
        nested = {n.name: n for n in ast.walk(fn) if isinstance(n, ast.FunctionDef) and n is not fn}
        for n in ast.walk(fn):
            # a function of the package used as a VALUE (`kmeans_single = _kmeans_single_lloyd`, a callback argument)
            # may be called through the alias: it is reachable
            if isinstance(n, ast.Name) and isinstance(n.ctx, ast.Load) and n.id not in nested:
                rf = uni.resolve_function(module, n.id)
                if rf is not None:
                    visit_fn(rf[1], rf[0], None)
            if not isinstance(n, ast.Call):
                continue
            f = n.func
            s = ast.unparse(f)
            if s.startswith(("numpy.random.", "np.random.")):
                last = s.rsplit(".", 1)[1]
                if last in GLOBAL_RNG_FUNCS:
                    found.append({"site": "%s:%s %s" % (module.rsplit(".", 1)[1], fn.name, s),
                                  "guarded": _seed_guarded(fn, n)})
                elif last == "RandomState" and not n.args and not n.keywords:
                    found.append({"site": "%s:%s %s()" % (module.rsplit(".", 1)[1], fn.name, s),
                                  "guarded": _seed_guarded(fn, n)})
            if isinstance(f, ast.Attribute) and isinstance(f.value, ast.Name) and f.value.id == "self":
                r = uni.find_method(cname, f.attr)
                if r is not None:
                    visit_fn(r[2], r[1], r[0])
            elif isinstance(f, ast.Attribute) and isinstance(f.value, ast.Name) and f.value.id in uni.classes:
                r = uni.find_method(f.value.id, f.attr)
                if r is not None:
                    visit_fn(r[2], r[1], r[0])
            elif isinstance(f, ast.Name):
                if f.id in nested:
                    continue  # walked as part of fn
                rf = uni.resolve_function(module, f.id)
                if rf is not None:
                    visit_fn(rf[1], rf[0], None)
            elif isinstance(f, ast.Call) and isinstance(f.func, ast.Name) and f.func.id == "delayed" \
                    and f.args and isinstance(f.args[0], ast.Name):
                rf = uni.resolve_function(module, f.args[0].id)
                if rf is not None:
                    visit_fn(rf[1], rf[0], None)
    r = uni.find_method(cname, mname)
    if r is not None:
        visit_fn(r[2], r[1], r[0])
    uniq = {}
    for f in found:
        uniq.setdefault(f["site"], f)
        uniq[f["site"]]["guarded"] = uniq[f["site"]]["guarded"] and f["guarded"]
    return [uniq[k] for k in sorted(uniq)]


def _seed_guarded(fn, call):
    """the call sits in the body of `if <random_state-like> is None:` (the unseeded case)"""
    def find(node, guards):
        for ch in ast.iter_child_nodes(node):
            g = guards
            if isinstance(node, ast.If) and ch in node.body:
                t = node.test
                if isinstance(t, ast.Compare) and len(t.ops) == 1 and isinstance(t.ops[0], ast.Is) \
                        and isinstance(t.comparators[0], ast.Constant) and t.comparators[0].value is None \
                        and "random_state" in ast.unparse(t.left):
                    g = guards + [ast.unparse(t)]
            if ch is call:
                return g
            r = find(ch, g)
            if r is not None:
                return r
        return None
    g = find(fn, [])
    return bool(g)
