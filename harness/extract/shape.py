"""Control skeleton of a function: what the hand-written models are transcribed FROM.

Several extractors recognise the statements they need inside a function (`limit = ...`, the scatter statement, the
selection mask) and ignore the rest.  A change can then add a branch, a loop over row blocks or a rebinding of a
selection mask that no extracted definition mentions, and the model keeps describing the old function.  The control
skeleton closes that gap without pinning the text: it lists, in source order and with nesting,

  * every test (`if` / `while` / conditional expression in a statement position) and loop header, as source text,
  * for every other statement only its KIND and what it binds: `x=`, `x+=`, `self.a=`, `x[]=`, `call f`, `return`,
    `raise`, `del`, `assert`, nested `def`.

Right-hand sides, messages, comments, docstrings and formatting are not part of it, so cosmetic edits and changes of
arithmetic already covered by an extracted definition leave it unchanged; a new branch, loop, early return, or a
rebinding of a name does not.  The skeleton is emitted into Gen/*.lean and compared, by `decide`, with the literal the
model was written against (Properties/*.lean).
"""
import ast


def _target(t):
    if isinstance(t, ast.Name):
        return t.id
    if isinstance(t, ast.Attribute):
        return ast.unparse(t)
    if isinstance(t, ast.Subscript):
        return _target(t.value) + "[]"
    if isinstance(t, (ast.Tuple, ast.List)):
        return "(" + ",".join(_target(e) for e in t.elts) + ")"
    if isinstance(t, ast.Starred):
        return "*" + _target(t.value)
    return "?"


def _callee(node):
    f = node.func
    if isinstance(f, ast.Attribute):
        return f.attr
    if isinstance(f, ast.Name):
        return f.id
    return "?"


def _stmt(st):
    if isinstance(st, ast.Expr):
        if isinstance(st.value, ast.Constant):
            return None                      # docstring / bare constant
        if isinstance(st.value, ast.Call):
            return "call " + _callee(st.value)
        return "expr"
    if isinstance(st, ast.Assign):
        return ",".join(_target(t) for t in st.targets) + "="
    if isinstance(st, ast.AugAssign):
        return _target(st.target) + type(st.op).__name__ + "="
    if isinstance(st, ast.AnnAssign):
        return _target(st.target) + "="
    if isinstance(st, ast.Return):
        return "return"
    if isinstance(st, ast.Raise):
        return "raise"
    if isinstance(st, ast.Assert):
        return "assert"
    if isinstance(st, ast.Delete):
        return "del " + ",".join(_target(t) for t in st.targets)
    if isinstance(st, (ast.Break, ast.Continue, ast.Pass)):
        return type(st).__name__.lower()
    if isinstance(st, (ast.Import, ast.ImportFrom)):
        return None
    if isinstance(st, ast.If):
        s = "if(" + ast.unparse(st.test) + "){" + _block(st.body) + "}"
        if st.orelse:
            s += "else{" + _block(st.orelse) + "}"
        return s
    if isinstance(st, (ast.For, ast.AsyncFor)):
        s = "for(" + _target(st.target) + " in " + ast.unparse(st.iter) + "){" + _block(st.body) + "}"
        if st.orelse:
            s += "else{" + _block(st.orelse) + "}"
        return s
    if isinstance(st, ast.While):
        return "while(" + ast.unparse(st.test) + "){" + _block(st.body) + "}"
    if isinstance(st, ast.Try):
        s = "try{" + _block(st.body) + "}"
        for h in st.handlers:
            s += "except(" + (ast.unparse(h.type) if h.type is not None else "") + "){" + _block(h.body) + "}"
        if st.orelse:
            s += "else{" + _block(st.orelse) + "}"
        if st.finalbody:
            s += "finally{" + _block(st.finalbody) + "}"
        return s
    if isinstance(st, (ast.With, ast.AsyncWith)):
        return "with{" + _block(st.body) + "}"
    if isinstance(st, (ast.FunctionDef, ast.AsyncFunctionDef)):
        return "def " + st.name + "{" + _block(st.body) + "}"
    return type(st).__name__


def _block(stmts):
    out = []
    for st in stmts:
        s = _stmt(st)
        if s is not None:
            out.append(s)
    return ";".join(out)


def _clean(s):
    return s.replace('"', "'").replace("\\", "/").replace("\n", " ")


def control_skeleton(fn):
    """`fn`: ast.FunctionDef.  Returns `sig(<parameters with their defaults>)|<skeleton of the body>` (no double quotes,
    no backslashes: safe in a Lean literal)."""
    return _clean("sig(" + ast.unparse(fn.args) + ")|" + _block(fn.body))


def full_text(fn):
    """for SHORT functions whose model depends on the exact expressions (index tests, argument order): the signature
    and every statement, normalised by ast.unparse (comments, docstrings and layout dropped)"""
    body = [st for st in fn.body if not (isinstance(st, ast.Expr) and isinstance(st.value, ast.Constant))]
    return _clean("sig(" + ast.unparse(fn.args) + ")|" + " ; ".join(" ".join(ast.unparse(st).split()) for st in body))


def lean_defs(pairs):
    """[(lean_name, FunctionDef or None[, "full"])] -> Lean source of the `shape…` definitions"""
    out = []
    for item in pairs:
        name, fn = item[0], item[1]
        mode = item[2] if len(item) > 2 else "skeleton"
        sk = "<function not found>" if fn is None else full_text(fn) if mode == "full" else control_skeleton(fn)
        out.append('/-- control skeleton of the function the model transcribes (tests, loop headers, kinds of statements\n'
                   'and the names they bind; see harness/extract/shape.py) -/\ndef %s : String :=\n  "%s"' % (name, sk))
    return "\n".join(out) + "\n"


def lean_defs_from_source(ctx, spec):
    """spec: [(lean_name, path relative to the repository, qualified function name)]"""
    from extract import pyexpr
    trees, pairs = {}, []
    for item in spec:
        name, rel, qual = item[:3]
        fn = None
        try:
            if rel not in trees:
                trees[rel] = ast.parse(ctx.source(rel))
            fn = pyexpr.find_function(trees[rel], qual)
        except (pyexpr.Unknown, SyntaxError, OSError):
            fn = None
        pairs.append((name, fn) + tuple(item[3:4]))
    return lean_defs(pairs)
