"""C16 — dedicated AST walker: regenerates `MlVerif/Gen/C16.lean` from
mlinsights/helpers/pipeline.py and mlinsights/plotting/visualize.py.

What is extracted (all expression-like; anything not recognised becomes an opaque constant or the
string "?<source>", about which the property theorems cannot be proved):

* enumerate_pipeline_models: the root coordinate `(0,)`, the keyword compared with `pipe`
  ("passthrough"), the order of the `isinstance(pipe, ...)` dispatch, and for the three container
  branches the attribute iterated over, the coordinate expression of the recursive call
  (`coor + (i,)`) and whether the column selection is passed down;
* pipeline2str: the indent arithmetic `" " * indent * (len(coor) - 1)`, the default `indent`,
  the two line templates and the column separator;
* _pipeline_info: the order of the `isinstance(pipe, ...)` dispatch, the loop guard padding integer
  columns `while len(new_data) <= mx`, the literal output names of classifiers / regressors and the
  default name prefix;
* pipeline2dot: the port / edge templates (`sch{i}:f{c}`, `  {nc} -> node{i};`, `  node{i} -> {nc};`,
  `"sch0:f%d"`).
"""
import ast

from . import pyexpr


def lstr(s):
    return '"' + s.replace("\\", "\\\\").replace('"', '\\"').replace("\n", "\\n") + '"'


def lstrs(xs):
    return "[" + ", ".join(lstr(x) for x in xs) + "]"


def _isinstance_names(test):
    """`isinstance(pipe, X)` / `isinstance(pipe, (X, Y))` -> "X" / "X|Y"; else None"""
    if isinstance(test, ast.Call) and ast.unparse(test.func) == "isinstance" and len(test.args) == 2 \
            and ast.unparse(test.args[0]) == "pipe":
        b = test.args[1]
        if isinstance(b, ast.Tuple):
            return "|".join(ast.unparse(e) for e in b.elts)
        return ast.unparse(b)
    return None


def _if_chain(node):
    """flatten if / elif / else into [(test, body)], else-body has test None"""
    out = []
    while True:
        out.append((node.test, node.body))
        if len(node.orelse) == 1 and isinstance(node.orelse[0], ast.If):
            node = node.orelse[0]
            continue
        if node.orelse:
            out.append((None, node.orelse))
        return out


def coord_expr(node):
    """tuple-valued coordinate expression -> Lean `List Nat` term over `coor : List Nat`, `i : Nat`"""
    if isinstance(node, ast.Name) and node.id == "coor":
        return "coor"
    if isinstance(node, ast.Tuple):
        return "[" + ", ".join(nat_expr(e) for e in node.elts) + "]"
    if isinstance(node, ast.BinOp) and isinstance(node.op, ast.Add):
        return "(%s ++ %s)" % (coord_expr(node.left), coord_expr(node.right))
    raise pyexpr.Unknown(ast.unparse(node))


def nat_expr(node):
    if isinstance(node, ast.Name) and node.id == "i":
        return "i"
    if isinstance(node, ast.Constant) and isinstance(node.value, int) and not isinstance(node.value, bool) \
            and node.value >= 0:
        return "%d" % node.value
    if isinstance(node, ast.BinOp) and isinstance(node.op, (ast.Add, ast.Mult)):
        return "(%s %s %s)" % (nat_expr(node.left), "+" if isinstance(node.op, ast.Add) else "*",
                               nat_expr(node.right))
    raise pyexpr.Unknown(ast.unparse(node))


def fstring_parts(node):
    """JoinedStr -> ["lit", "{expr}", ...]; `"fmt" % x` -> ["%", fmt, expr]"""
    if isinstance(node, ast.JoinedStr):
        out = []
        for v in node.values:
            if isinstance(v, ast.Constant):
                out.append(str(v.value))
            else:
                out.append("{" + ast.unparse(v.value) + "}")
        return out
    if isinstance(node, ast.BinOp) and isinstance(node.op, ast.Mod) and isinstance(node.left, ast.Constant):
        return ["%", str(node.left.value), ast.unparse(node.right)]
    if isinstance(node, ast.Constant) and isinstance(node.value, str):
        return [node.value]
    return ["?" + ast.unparse(node)]


def _recursive_calls(body, fname):
    out = []
    for st in body:
        for n in ast.walk(st):
            if isinstance(n, ast.Call) and ast.unparse(n.func) == fname:
                out.append(n)
    return out


def extract_enumerate(src):
    tree = ast.parse(src)
    fn = pyexpr.find_function(tree, "enumerate_pipeline_models")
    res = {"root": None, "keyword": "?", "dispatch": [], "branches": {}}
    # root coordinate
    for a in pyexpr.assignments(fn, "coor"):
        try:
            res["root"] = coord_expr(a.value)
        except pyexpr.Unknown as e:
            res["root"] = '(unknownCoord %s)' % lstr(str(e))
    # `if pipe == "passthrough": ... else: yield; <dispatch chain>`
    top = [s for s in fn.body if isinstance(s, ast.If)]
    main = None
    for s in top:
        t = s.test
        if isinstance(t, ast.Compare) and ast.unparse(t.left) == "pipe" and len(t.ops) == 1 \
                and isinstance(t.ops[0], ast.Eq) and isinstance(t.comparators[0], ast.Constant):
            res["keyword"] = str(t.comparators[0].value)
            main = s
    if main is None:
        return res
    chain = [s for s in main.orelse if isinstance(s, ast.If)]
    if not chain:
        return res
    for test, body in _if_chain(chain[0]):
        if test is None:
            continue
        nm = _isinstance_names(test)
        if nm is None:
            res["dispatch"].append("?" + ast.unparse(test))
            continue
        res["dispatch"].append(nm)
        if nm in ("Pipeline", "ColumnTransformer", "FeatureUnion"):
            loops = [s for s in body if isinstance(s, ast.For)]
            info = {"attr": "?", "coord": None, "cols": "?"}
            if len(loops) == 1:
                lp = loops[0]
                it = lp.iter
                if isinstance(it, ast.Call) and ast.unparse(it.func) == "enumerate" and len(it.args) == 1:
                    info["attr"] = ast.unparse(it.args[0])
                else:
                    info["attr"] = "?" + ast.unparse(it)
                # position of the transformer and of the column selection in the loop target
                tgt = lp.target
                names = []
                if isinstance(tgt, ast.Tuple) and len(tgt.elts) == 2 and isinstance(tgt.elts[1], ast.Tuple):
                    names = [ast.unparse(e) for e in tgt.elts[1].elts]
                    if ast.unparse(tgt.elts[0]) != "i":
                        info["attr"] = "?index:" + ast.unparse(tgt.elts[0])
                calls = _recursive_calls(lp.body, "enumerate_pipeline_models")
                if len(calls) == 1 and not calls[0].keywords and len(calls[0].args) in (2, 3):
                    c = calls[0]
                    model = ast.unparse(c.args[0])
                    info["model_pos"] = names.index(model) if model in names else -1
                    try:
                        info["coord"] = coord_expr(c.args[1])
                    except pyexpr.Unknown as e:
                        info["coord"] = '(unknownCoord %s)' % lstr(str(e))
                    if len(c.args) == 3:
                        v = ast.unparse(c.args[2])
                        info["cols"] = "pos%d" % names.index(v) if v in names else "?" + v
                    else:
                        info["cols"] = "none"
            res["branches"][nm] = info
    return res


def extract_visualize(src):
    tree = ast.parse(src)
    res = {}
    # ---- pipeline2str
    fn = pyexpr.find_function(tree, "pipeline2str")
    dflt = "(MlVerif.Gen.unknownInt \"default indent\")"
    args = fn.args
    names = [a.arg for a in args.args]
    if "indent" in names:
        k = names.index("indent") - (len(names) - len(args.defaults))
        if k >= 0 and isinstance(args.defaults[k], ast.Constant) and isinstance(args.defaults[k].value, int):
            dflt = "(%d : Int)" % args.defaults[k].value
    res["default_indent"] = dflt
    width = '(MlVerif.Gen.unknownInt "spaces")'
    sp = pyexpr.assignments(fn, "spaces")
    if len(sp) == 1:
        # flatten the left-nested product  " " * a * b
        factors, node = [], sp[0].value
        while isinstance(node, ast.BinOp) and isinstance(node.op, ast.Mult):
            factors.insert(0, node.right)
            node = node.left
        if isinstance(node, ast.Constant) and node.value == " " and factors:
            tr = pyexpr.Tr({"indent": ("indent", "int"), "len(coor)": ("len", "int")})
            terms = [tr.int_expr(f) for f in factors]
            width = terms[0]
            for t in terms[1:]:
                width = "(%s * %s)" % (width, t)
        else:
            width = '(MlVerif.Gen.unknownInt %s)' % lstr(ast.unparse(sp[0].value))
    res["indent_width"] = width
    res["indent_src"] = ast.unparse(sp[0].value) if sp else "?"
    msgs = pyexpr.assignments(fn, "msg")
    res["line_templates"] = [fstring_parts(m.value) for m in msgs]
    vj = pyexpr.assignments(fn, "v")
    res["col_join"] = ast.unparse(vj[0].value) if len(vj) == 1 else "?"
    # ---- _pipeline_info
    fn = pyexpr.find_function(tree, "_pipeline_info")
    disp = []
    for s in fn.body:
        if isinstance(s, ast.If):
            nm = _isinstance_names(s.test)
            disp.append(nm if nm is not None else "?" + ast.unparse(s.test))
    res["info_dispatch"] = disp
    guard = '(MlVerif.Gen.unknownBool "pad guard")'
    whiles = [n for n in ast.walk(fn) if isinstance(n, ast.While) and "new_data" in ast.unparse(n.test)]
    if len(whiles) == 1:
        tr = pyexpr.Tr({"len(new_data)": ("len", "int"), "mx": ("mx", "int")})
        g, t = tr.expr(whiles[0].test)
        if t == "bool":
            guard = g
        res["pad_src"] = ast.unparse(whiles[0].test)
    else:
        res["pad_src"] = "?"
    res["pad_guard"] = guard
    exps = [a.value for a in pyexpr.assignments(fn, "exp")]
    res["exp_lists"] = [[str(e.value) if isinstance(e, ast.Constant) else "?" for e in v.elts]
                        if isinstance(v, ast.List) else ["?"] for v in exps]
    gn = pyexpr.find_function(fn, "_get_name")
    pref = "?"
    gnames = [a.arg for a in gn.args.args]
    if "prefix" in gnames:
        k = gnames.index("prefix") - (len(gnames) - len(gn.args.defaults))
        if k >= 0 and isinstance(gn.args.defaults[k], ast.Constant):
            pref = str(gn.args.defaults[k].value)
    res["name_prefix"] = pref
    sug = pyexpr.assignments(gn, "sug")
    res["name_templates"] = [fstring_parts(a.value) for a in sug]
    # ---- pipeline2dot
    fn = pyexpr.find_function(tree, "pipeline2dot")
    res["edge_templates"] = [fstring_parts(a.value) for a in pyexpr.assignments(fn, "edge")]
    ports = []
    for n in ast.walk(fn):
        if isinstance(n, ast.Assign) and len(n.targets) == 1 and isinstance(n.targets[0], ast.Subscript):
            base = ast.unparse(n.targets[0].value)
            if base in ("columns", "data"):
                ports.append((n.lineno, base, fstring_parts(n.value)))
    ports.sort()
    res["port_templates"] = [[b] + p for _, b, p in ports]
    return res


def render(en, vi):
    def coord_def(name, key):
        info = en["branches"].get(key)
        term = info["coord"] if info and info.get("coord") else '(unknownCoord "no %s branch")' % key
        return "def %s (coor : List Nat) (i : Nat) : List Nat := %s" % (name, term)

    def br(key, field):
        info = en["branches"].get(key) or {}
        return str(info.get(field, "?"))
    lines = [pyexpr.HEADER.rstrip("\n"), "import MlVerif.Gen.Base", "namespace MlVerif.Gen.C16", "open MlVerif.Gen", "",
             "/-- what the extractor emits for a coordinate expression it cannot classify -/",
             "opaque unknownCoord (src : String) : List Nat", "",
             "/-! ### enumerate_pipeline_models -/",
             "/-- `coor = (0,)` -/",
             "def rootCoord : List Nat := %s" % (en["root"] or '(unknownCoord "no default coordinate")'),
             "/-- `pipe == <keyword>` yields the PassThrough placeholder -/",
             "def passthroughKeyword : String := %s" % lstr(en["keyword"]),
             "/-- order of the `isinstance(pipe, ...)` tests after the model itself is yielded -/",
             "def enumDispatch : List String := %s" % lstrs(en["dispatch"]),
             "/-- coordinate given to child `i` in each container branch (second argument of the recursive call) -/",
             coord_def("childCoordPipeline", "Pipeline"),
             coord_def("childCoordColumns", "ColumnTransformer"),
             coord_def("childCoordUnion", "FeatureUnion"),
             "/-- (class, attribute iterated with enumerate, position of the model in the tuple, column selection) -/",
             "def enumBranches : List (String × String × String × String) := ["
             + ", ".join("(%s, %s, %s, %s)" % (lstr(k), lstr(br(k, "attr")), lstr(br(k, "model_pos")), lstr(br(k, "cols")))
                         for k in ("Pipeline", "ColumnTransformer", "FeatureUnion")) + "]",
             "",
             "/-! ### pipeline2str -/",
             "/-- `spaces = %s`: number of spaces -/" % vi["indent_src"],
             "def indentWidth (indent len : Int) : Int := %s" % vi["indent_width"],
             "def defaultIndent : Int := %s" % vi["default_indent"],
             "def lineTemplates : List (List String) := [%s]" % ", ".join(lstrs(t) for t in vi["line_templates"]),
             "def colJoin : String := %s" % lstr(vi["col_join"]),
             "",
             "/-! ### _pipeline_info / pipeline2dot -/",
             "def infoDispatch : List String := %s" % lstrs(vi["info_dispatch"]),
             "/-- `while %s:` pads the names given to integer columns -/" % vi["pad_src"],
             "def padGuard (len mx : Int) : Bool := %s" % vi["pad_guard"],
             "def predictorOutputs : List (List String) := [%s]" % ", ".join(lstrs(t) for t in vi["exp_lists"]),
             "def namePrefix : String := %s" % lstr(vi["name_prefix"]),
             "def nameTemplates : List (List String) := [%s]" % ", ".join(lstrs(t) for t in vi["name_templates"]),
             "def edgeTemplates : List (List String) := [%s]" % ", ".join(lstrs(t) for t in vi["edge_templates"]),
             "def portTemplates : List (List String) := [%s]" % ", ".join(lstrs(t) for t in vi["port_templates"]),
             "",
             "end MlVerif.Gen.C16", ""]
    return "\n".join(lines)


def generate(src_pipeline, src_visualize):
    return render(extract_enumerate(src_pipeline), extract_visualize(src_visualize))
