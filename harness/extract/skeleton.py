"""Python method bodies -> the control-flow IR `MlVerif.Flow.Prog MlVerif.Lifecycle.Act`.

For every estimator class of the modules in scope and every public method, the body is translated
statement by statement (calls to methods of the same class hierarchy, to module-level functions of
mlinsights and to nested functions are INLINED, to a bounded depth) into the atoms of
`Model/Lifecycle.lean`:

  snap/kill/restore/write    reads and writes of constructor parameters (hyper-parameters)
  bindAlias/bindFresh/mutate how names are bound (may alias which names / freshly allocated) and
                             in-place writes through a name
  wattr/rattr/dattr          fitted attributes written / read / deleted
  call/raise_/ret/brk, seq/ite/loop/tryFinally/tryExcept/scope   control flow

Everything else is erased.  The translation is conservative: what it cannot classify becomes the
weaker fact (an unknown call may raise; its result may alias every argument; an unknown assignment
kills a snapshot).  It is a pure function of the source text.
"""
import ast
import os

# ---------------------------------------------------------------------------------------------
# classification tables (trusted facts about numpy / Python built-ins; see DESIGN.md, C02)
# ---------------------------------------------------------------------------------------------

#: attributes of an array that are views of it
VIEW_ATTRS = {"T", "values", "real", "imag", "flat", "data", "A", "A1", "base", "tree_", "value"}
#: attributes that are plain scalars / tuples
SCALAR_ATTRS = {"shape", "dtype", "size", "ndim", "nbytes", "itemsize", "n_classes_", "n_outputs_",
                "node_count", "max_depth", "n_features_in_", "n_iter_", "inertia_"}
#: methods returning a new object that shares no memory with the receiver
FRESH_METHODS = {"copy", "astype", "tolist", "sum", "mean", "max", "min", "any", "all", "dot", "std", "var",
                 "argmax", "argmin", "argsort", "cumsum", "prod", "flatten", "nonzero", "todense", "toarray",
                 "tocsr", "tocsc", "round", "clip", "repeat", "take", "trace", "searchsorted",
                 "item", "keys", "items", "values", "get", "count", "index", "format", "join", "split",
                 "startswith", "endswith", "strip", "lower", "upper", "replace", "union", "intersection",
                 "difference", "most_common", "predict", "predict_proba", "decision_function",
                 "transform", "fit_transform", "fit_predict", "score", "apply", "decision_path",
                 "get_params", "randint", "rand", "randn", "permutation", "random_sample", "uniform",
                 "normal", "choice", "inverse_transform", "kneighbors", "isnull", "isna", "dropna",
                 "unique", "to_numpy", "nunique", "value_counts", "groupby", "agg", "apply", "median",
                 "get_feature_names_out", "tostring", "tobytes", "encode", "decode", "pop", "popitem",
                 "get_fct_inv", "predict_all", "predict_sorted", "enumerate_leaves_index"}
#: methods returning a view / the receiver itself
ALIAS_METHODS = {"ravel", "reshape", "view", "squeeze", "transpose", "swapaxes", "fit", "set_params", "conj", "conjugate",
                 "partial_fit", "__iter__", "setdefault", "diagonal", "iloc", "loc"}
#: methods that write into the receiver
INPLACE_METHODS = {"sort", "fill", "resize", "itemset", "put", "partition", "setflags", "setfield",
                   "byteswap", "append", "extend", "insert", "remove", "clear", "update", "reverse",
                   "add", "discard", "pop", "popitem", "setdefault", "shuffle", "sort_values",
                   "sort_index", "fillna_inplace", "drop_inplace",
                   # scikit-learn: changes the parameters of the receiver in place (and returns it: ALIAS_METHODS)
                   "set_params"}
#: methods in INPLACE_METHODS that are in-place only on the receiver when it is a container the
#: caller could own (lists/dicts/sets); kept in one table: a write through the name
#: functions (last dotted component) writing into their FIRST argument
INPLACE_FUNCS = {"shuffle", "copyto", "put", "fill_diagonal", "place", "putmask", "put_along_axis"}
#: functions returning a new object sharing no memory with their arguments
FRESH_FUNCS = {"ones", "zeros", "empty", "full", "arange", "linspace", "array", "abs", "absolute", "sign",
               "maximum", "minimum", "reciprocal", "hstack", "vstack", "concatenate", "sort", "argsort",
               "argmax", "argmin", "unique", "where", "cumsum", "sum", "mean", "median", "exp", "log",
               "log1p", "expm1", "sqrt", "square", "dot", "matmul", "isnan", "isinf", "isfinite",
               "logical_and", "logical_or", "logical_not", "nonzero", "bincount", "percentile", "quantile",
               "zeros_like", "ones_like", "empty_like", "full_like", "eye", "identity", "outer", "einsum",
               "clip", "round", "floor", "ceil", "diff", "prod", "std", "var", "digitize", "searchsorted",
               "tile", "repeat", "stack", "column_stack", "meshgrid", "choice", "randint", "rand", "randn",
               "permutation", "len", "int", "float", "str", "bool", "range", "list", "dict", "set", "tuple",
               "sorted", "enumerate", "zip", "isinstance", "issubclass", "hasattr", "clone", "deepcopy",
               "max", "min", "any", "all", "type", "id", "repr", "format", "print", "iter", "next", "map",
               "filter", "reversed", "callable", "getattr", "vars", "dir", "frozenset", "divmod", "pow",
               "hash", "ord", "chr", "copy", "RandomState", "check_random_state", "iinfo", "finfo",
               "issparse", "count_nonzero", "allclose", "array_equal", "power", "multiply", "add",
               "subtract", "divide", "true_divide", "negative", "mod", "floor_divide", "cov", "corrcoef",
               "average", "histogram", "argwhere", "flatnonzero", "isin", "in1d", "setdiff1d",
               "intersect1d", "union1d", "lexsort", "argpartition", "partition", "nanmean", "nanmedian",
               "nansum", "nanmax", "nanmin", "amax", "amin", "ptp", "norm", "inv", "pinv", "lstsq", "solve",
               "det", "eigh", "svd", "euclidean_distances", "pairwise_distances",
               "pairwise_distances_argmin_min", "row_norms", "squared_norm", "stable_cumsum", "delayed",
               "Parallel", "tqdm", "warn", "mean_absolute_error", "r2_score", "accuracy_score",
               "train_test_split", "DataFrame", "Series", "csr_matrix", "coo_matrix", "issubdtype",
               "product", "combinations", "combinations_with_replacement", "chain", "Counter",
               "defaultdict", "OrderedDict", "float32", "float64", "int32", "int64", "intp", "dtype",
               "dgelss", "random_sample", "uniform", "normal", "effective_n_jobs", "get_namespace",
               "process_time", "perf_counter", "time"}
#: functions whose result may be (a view of) an argument
ALIAS_FUNCS = {"asarray", "ascontiguousarray", "asfortranarray", "asanyarray", "atleast_1d", "atleast_2d",
               "squeeze", "ravel", "reshape", "transpose", "expand_dims", "check_array", "check_X_y",
               "column_or_1d", "_validate_data", "validate_data", "as_float_array", "indexable",
               "check_consistent_length", "_check_sample_weight", "_num_samples", "broadcast_to",
               "swapaxes", "moveaxis", "flip", "fliplr", "flipud", "rollaxis", "diag", "diagonal", "triu",
               "tril", "nan_to_num", "real", "imag", "safe_sparse_dot", "_check_y"}

#: numpy ufuncs: a positional argument beyond the inputs is the `out` array (written in place)
UNARY_UFUNCS = {"abs", "absolute", "sign", "reciprocal", "exp", "log", "log1p", "expm1", "sqrt", "square", "isnan",
                "isinf", "isfinite", "logical_not", "floor", "ceil", "negative", "rint", "fabs", "exp2", "log2",
                "log10", "sin", "cos", "tan", "tanh", "cbrt", "invert", "positive", "trunc", "signbit"}
BINARY_UFUNCS = {"add", "subtract", "multiply", "divide", "true_divide", "floor_divide", "mod", "power", "pow",
                 "maximum", "minimum", "fmax", "fmin", "logical_and", "logical_or", "logical_xor", "arctan2",
                 "hypot", "remainder", "fmod", "greater", "less", "equal", "not_equal", "greater_equal", "less_equal",
                 "bitwise_and", "bitwise_or", "bitwise_xor", "copysign", "divmod", "matmul"}

SKIP_METHODS = {"get_params", "set_params", "__init__", "__repr__", "__str__", "__getstate__",
                "__setstate__", "__eq__", "__hash__", "test_equality", "__sklearn_tags__", "_more_tags",
                "_get_tags", "__sklearn_clone__"}
MAX_INLINE_DEPTH = 5
#: pseudo-name standing for "the caller's arrays" when a component is told not to copy its input
COPY_OPT_OUT = "$caller-data(copy opt-out)"
#: fitted attributes the fit of an external (scikit-learn) parent class (re)writes on success
EXTERNAL_FIT_WRITES = {
    "KMeans": ["cluster_centers_", "labels_", "inertia_", "n_iter_", "n_features_in_", "_n_features_out",
               "_n_threads", "_tol", "_n_init", "_algorithm"],
    "DecisionTreeRegressor": ["tree_", "n_features_in_", "n_outputs_", "max_features_"],
    "LinearRegression": ["coef_", "intercept_", "rank_", "singular_", "n_features_in_"],
    "CountVectorizer": ["vocabulary_", "fixed_vocabulary_"],
    "TfidfVectorizer": ["vocabulary_", "fixed_vocabulary_", "_tfidf"],
    "BaseMultilayerPerceptron": ["coefs_", "intercepts_", "n_iter_", "loss_", "n_layers_", "n_outputs_",
                                 "out_activation_", "t_", "best_loss_", "loss_curve_"],
}


# ---------------------------------------------------------------------------------------------
# source universe
# ---------------------------------------------------------------------------------------------

class Universe:
    """All modules of mlinsights (current working tree) parsed once."""

    def __init__(self, repo):
        self.repo = repo
        self.modules = {}      # dotted name -> ast.Module
        self.classes = {}      # class name -> (module name, ast.ClassDef)
        self.functions = {}    # (module name, function name) -> ast.FunctionDef
        root = os.path.join(repo, "mlinsights")
        for dp, dn, fns in os.walk(root):
            dn[:] = [d for d in dn if d != "__pycache__"]
            for fn in sorted(fns):
                if not fn.endswith(".py"):
                    continue
                path = os.path.join(dp, fn)
                rel = os.path.relpath(path, repo)[:-3].replace(os.sep, ".")
                try:
                    with open(path, encoding="utf-8") as f:
                        tree = ast.parse(f.read())
                except SyntaxError:
                    continue
                self.modules[rel] = tree
                for node in tree.body:
                    if isinstance(node, ast.ClassDef):
                        self.classes.setdefault(node.name, (rel, node))
                    elif isinstance(node, ast.FunctionDef):
                        self.functions[(rel, node.name)] = node
        self.imports = {m: self._imports(m, t) for m, t in self.modules.items()}

    def _imports(self, modname, tree):
        """local name -> (module, original name) for `from .x import y` of mlinsights modules"""
        out = {}
        pkg = modname.rsplit(".", 1)[0]
        for node in ast.walk(tree):
            if isinstance(node, ast.ImportFrom):
                if node.level:
                    base = modname.split(".")
                    base = base[:len(base) - node.level]
                    target = ".".join(base + ([node.module] if node.module else []))
                else:
                    target = node.module or ""
                if not target.startswith("mlinsights"):
                    continue
                for a in node.names:
                    out[a.asname or a.name] = (target, a.name)
        return out

    def resolve_function(self, modname, name):
        if (modname, name) in self.functions:
            return modname, self.functions[(modname, name)]
        imp = self.imports.get(modname, {}).get(name)
        if imp and (imp[0], imp[1]) in self.functions:
            return imp[0], self.functions[imp]
        return None

    def class_bases(self, cname):
        """mlinsights base classes of cname, in MRO-ish order (depth first, left to right)."""
        out = []
        if cname not in self.classes:
            return out
        _, node = self.classes[cname]
        for b in node.bases:
            bn = b.id if isinstance(b, ast.Name) else (b.attr if isinstance(b, ast.Attribute) else None)
            if bn and bn in self.classes and bn != cname:
                out.append(bn)
                out += [x for x in self.class_bases(bn) if x not in out]
        return out

    def external_bases(self, cname):
        out = []
        for c in [cname] + self.class_bases(cname):
            _, node = self.classes[c]
            for b in node.bases:
                bn = b.id if isinstance(b, ast.Name) else (b.attr if isinstance(b, ast.Attribute) else None)
                if bn and bn not in self.classes and bn not in out:
                    out.append(bn)
        return out

    def find_method(self, cname, mname, start_after=None):
        """(owner class, module, FunctionDef) following mlinsights bases; None if external."""
        chain = [cname] + self.class_bases(cname)
        if start_after is not None and start_after in chain:
            chain = chain[chain.index(start_after) + 1:]
        for c in chain:
            mod, node = self.classes[c]
            for it in node.body:
                if isinstance(it, ast.FunctionDef) and it.name == mname:
                    return c, mod, it
        return None

    def methods(self, cname):
        names = []
        for c in [cname] + self.class_bases(cname):
            _, node = self.classes[c]
            for it in node.body:
                if isinstance(it, ast.FunctionDef) and it.name not in names:
                    names.append(it.name)
        return names

    def ctor_params(self, cname):
        r = self.find_method(cname, "__init__")
        if r is None:
            return []
        fn = r[2]
        a = fn.args
        return [x.arg for x in a.posonlyargs + a.args + a.kwonlyargs if x.arg != "self"]

    def is_property(self, cname, mname):
        r = self.find_method(cname, mname)
        if r is None:
            return False
        return any((isinstance(d, ast.Name) and d.id == "property") or
                   (isinstance(d, ast.Attribute) and d.attr in ("setter", "getter"))
                   for d in r[2].decorator_list)

    def is_static(self, fn):
        return any(isinstance(d, ast.Name) and d.id in ("staticmethod", "classmethod") for d in fn.decorator_list)


# ---------------------------------------------------------------------------------------------
# IR construction
# ---------------------------------------------------------------------------------------------

def seq(items):
    items = [i for i in items if i != ("skip",)]
    if not items:
        return ("skip",)
    out = items[-1]
    for it in reversed(items[:-1]):
        out = ("seq", it, out)
    return out


class Translator:
    def __init__(self, uni, cname):
        self.uni = uni
        self.cname = cname
        self.params = uni.ctor_params(cname)
        self.method_names = set(uni.methods(cname))
        self.counter = 0
        self.unknown_calls = set()
        self.external_parent_calls = set()

    # ----- naming -----
    def fresh_suffix(self):
        self.counter += 1
        return "@%d" % self.counter

    # ----- expression classification -----
    def attr_chain(self, node):
        """('self', 'a') for self.a ; (name,) for Name ; None otherwise (base of chains)"""
        if isinstance(node, ast.Name):
            return (node.id,)
        if isinstance(node, ast.Attribute) and isinstance(node.value, ast.Name) and node.value.id == "self":
            return ("self", node.attr)
        return None

    def base_name(self, node, env):
        """name (string in the analysis namespace) through which `node` reaches memory, or None"""
        while True:
            ch = self.attr_chain(node)
            if ch is not None:
                if len(ch) == 2:
                    return "self." + ch[1]
                return env.get(ch[0], ch[0])
            if isinstance(node, ast.Subscript):
                node = node.value
            elif isinstance(node, ast.Attribute):
                if node.attr in SCALAR_ATTRS:
                    return None
                node = node.value
            elif isinstance(node, ast.Call):
                f = node.func
                if isinstance(f, ast.Attribute) and f.attr in ALIAS_METHODS:
                    node = f.value
                else:
                    return None
            else:
                return None

    def reads(self, node):
        """fitted attributes (self.a, a not a hyper-parameter / method) read by an expression"""
        out = []
        if node is None:
            return out
        for n in ast.walk(node):
            if isinstance(n, ast.Attribute) and isinstance(n.value, ast.Name) and n.value.id == "self" \
                    and isinstance(n.ctx, ast.Load):
                if n.attr not in self.params and n.attr not in self.method_names and not n.attr.startswith("__"):
                    if n.attr not in out:
                        out.append(n.attr)
            if isinstance(n, ast.Call) and isinstance(n.func, ast.Name) and n.func.id in ("hasattr", "getattr") \
                    and len(n.args) >= 2 and isinstance(n.args[0], ast.Name) and n.args[0].id == "self" \
                    and isinstance(n.args[1], ast.Constant) and isinstance(n.args[1].value, str):
                a = n.args[1].value
                if a not in self.params and a not in self.method_names and a not in out:
                    out.append(a)
        return out

    def pure_param_cond(self, node):
        """the condition is a function of hyper-parameters and constants only"""
        ok_calls = {"isinstance", "len", "callable", "type", "hasattr", "str", "int", "float", "bool"}
        saw_param = False
        for n in ast.walk(node):
            if isinstance(n, ast.Name):
                if n.id == "self" or n.id in ok_calls or n.id in ("None", "True", "False", "numpy", "str",
                                                                   "int", "float", "list", "tuple", "dict"):
                    continue
                return False
            if isinstance(n, ast.Attribute):
                if isinstance(n.value, ast.Name) and n.value.id == "self":
                    if n.attr in self.params:
                        saw_param = True
                        continue
                    return False
                if isinstance(n.value, ast.Name) and n.value.id == "numpy":
                    continue
                return False
            if isinstance(n, ast.Call):
                f = n.func
                if not (isinstance(f, ast.Name) and f.id in ok_calls):
                    return False
                if f.id == "hasattr":
                    if not (len(n.args) == 2 and isinstance(n.args[1], ast.Constant)
                            and n.args[1].value in self.params):
                        return False
                    saw_param = True
            if isinstance(n, (ast.Lambda, ast.ListComp, ast.GeneratorExp, ast.Subscript, ast.Starred,
                              ast.NamedExpr, ast.Await, ast.Yield)):
                return False
        return saw_param

    def guarded_delete(self, st):
        t = st.test
        if st.orelse or len(st.body) != 1 or not isinstance(st.body[0], ast.Delete):
            return None
        if not (isinstance(t, ast.Call) and isinstance(t.func, ast.Name) and t.func.id == "hasattr"
                and len(t.args) == 2 and isinstance(t.args[0], ast.Name) and t.args[0].id == "self"
                and isinstance(t.args[1], ast.Constant) and isinstance(t.args[1].value, str)):
            return None
        a = t.args[1].value
        tg = st.body[0].targets
        if len(tg) == 1 and self.attr_chain(tg[0]) == ("self", a) and a not in self.params:
            return a
        return None

    def guarded_delete_loop(self, st):
        """`for a in ("x_", "y_"): if hasattr(self, a): delattr(self, a)` - the loop form of the guarded-delete idiom.
        Returns the list of attribute names, or None."""
        if not isinstance(st, ast.For) or st.orelse or not isinstance(st.target, ast.Name) or len(st.body) != 1:
            return None
        if not isinstance(st.iter, (ast.Tuple, ast.List)) or not st.iter.elts or not all(
                isinstance(e, ast.Constant) and isinstance(e.value, str) for e in st.iter.elts):
            return None
        v, b = st.target.id, st.body[0]
        if not isinstance(b, ast.If) or b.orelse or len(b.body) != 1:
            return None
        t = b.test
        if not (isinstance(t, ast.Call) and isinstance(t.func, ast.Name) and t.func.id == "hasattr" and len(t.args) == 2
                and isinstance(t.args[0], ast.Name) and t.args[0].id == "self"
                and isinstance(t.args[1], ast.Name) and t.args[1].id == v):
            return None
        d = b.body[0]
        if not (isinstance(d, ast.Expr) and isinstance(d.value, ast.Call) and isinstance(d.value.func, ast.Name)
                and d.value.func.id == "delattr" and len(d.value.args) == 2
                and isinstance(d.value.args[0], ast.Name) and d.value.args[0].id == "self"
                and isinstance(d.value.args[1], ast.Name) and d.value.args[1].id == v):
            return None
        names = [e.value for e in st.iter.elts]
        if any(a in self.params for a in names):
            return None
        return names

    def has_call(self, node):
        return node is not None and any(isinstance(n, ast.Call) for n in ast.walk(node))

    def src(self, node, env):
        """('fresh',) or ('alias', [names])"""
        if node is None or isinstance(node, (ast.Constant, ast.JoinedStr, ast.Lambda, ast.Compare)):
            return ("fresh",)
        if isinstance(node, ast.Name):
            if node.id in ("None", "True", "False"):
                return ("fresh",)
            return ("alias", [env.get(node.id, node.id)])
        if isinstance(node, ast.Attribute):
            ch = self.attr_chain(node)
            if ch is not None and len(ch) == 2:
                return ("alias", ["self." + ch[1]])
            if node.attr in SCALAR_ATTRS:
                return ("fresh",)
            return self.src(node.value, env)
        if isinstance(node, ast.Subscript):
            return self.src(node.value, env)
        if isinstance(node, ast.Starred):
            return self.src(node.value, env)
        if isinstance(node, (ast.BinOp, ast.UnaryOp)):
            return ("fresh",)
        if isinstance(node, ast.BoolOp):
            return self.join_src([self.src(v, env) for v in node.values])
        if isinstance(node, ast.IfExp):
            return self.join_src([self.src(node.body, env), self.src(node.orelse, env)])
        if isinstance(node, (ast.Tuple, ast.List, ast.Set)):
            return self.join_src([self.src(e, env) for e in node.elts])
        if isinstance(node, ast.Dict):
            return self.join_src([self.src(e, env) for e in node.values if e is not None])
        if isinstance(node, (ast.ListComp, ast.GeneratorExp, ast.SetComp)):
            env2 = dict(env)
            srcs = []
            for g in node.generators:
                s = self.src(g.iter, env2)
                for t in ast.walk(g.target):
                    if isinstance(t, ast.Name):
                        # comprehension variable: stands for (an element of) its iterable
                        env2[t.id] = "$comp"
                        srcs.append(s)
            inner = self.src(node.elt, env2)
            if inner[0] == "alias":
                names = [n for n in inner[1] if n != "$comp"]
                extra = self.join_src(srcs) if "$comp" in inner[1] else ("fresh",)
                return self.join_src([("alias", names) if names else ("fresh",), extra])
            return ("fresh",)
        if isinstance(node, ast.DictComp):
            return ("fresh",)
        if isinstance(node, ast.NamedExpr):
            return self.src(node.value, env)
        if isinstance(node, ast.Call):
            return self.call_src(node, env)
        return ("alias", sorted({env.get(n.id, n.id) for n in ast.walk(node) if isinstance(n, ast.Name)}))

    def join_src(self, srcs):
        names = []
        for s in srcs:
            if s[0] == "alias":
                for n in s[1]:
                    if n not in names:
                        names.append(n)
        return ("alias", names) if names else ("fresh",)

    def arg_sources(self, node, env):
        srcs = [self.src(a, env) for a in node.args] + [self.src(k.value, env) for k in node.keywords]
        return self.join_src(srcs)

    def call_src(self, node, env):
        f = node.func
        kw = {k.arg: k.value for k in node.keywords if k.arg}
        if isinstance(f, ast.Attribute):
            name = f.attr
            if name in ("array", "astype") and "copy" in kw and isinstance(kw["copy"], ast.Constant) \
                    and kw["copy"].value is False:
                return self.join_src([self.src(f.value, env), self.arg_sources(node, env)])
            if name == "asarray" or name in ALIAS_FUNCS:
                return self.join_src([self.arg_sources(node, env)] +
                                     ([self.src(f.value, env)] if not self._is_module(f.value) else []))
            if name in ALIAS_METHODS and not self._is_module(f.value):
                return self.src(f.value, env)
            if name in FRESH_FUNCS or name in FRESH_METHODS:
                return ("fresh",)
            if name[:1].isupper():
                return ("fresh",)
            # unknown method: may return (a view of) the receiver or of an argument
            self.unknown_calls.add(ast.unparse(f))
            recv = [] if self._is_module(f.value) else [self.src(f.value, env)]
            return self.join_src(recv + [self.arg_sources(node, env)])
        if isinstance(f, ast.Name):
            name = f.id
            if name in ALIAS_FUNCS:
                return self.arg_sources(node, env)
            if name in FRESH_FUNCS or name[:1].isupper():
                return ("fresh",)
            self.unknown_calls.add(name)
            return self.arg_sources(node, env)
        if isinstance(f, ast.Call):
            # e.g. delayed(f)(args) / Parallel(...)(generator): results are new objects
            return ("fresh",)
        return self.arg_sources(node, env)

    def _is_module(self, node):
        s = ast.unparse(node)
        return s in ("numpy", "np", "numpy.random", "numpy.linalg", "scipy", "scipy.sparse", "pandas", "pd",
                     "math", "warnings", "copy", "itertools", "collections", "sp", "textwrap", "inspect",
                     "pickle", "time", "os", "sys", "re", "json")

    # ----- statements -----
    def bind(self, name, source):
        if source[0] == "fresh":
            return ("atom", ("bindFresh", name))
        return ("atom", ("bindAlias", name, list(source[1])))

    def expr_effects(self, node, env, depth, ctx):
        """atoms for evaluating an expression: attribute reads, inlined calls, in-place calls, may-raise"""
        out = []
        if node is None:
            return out
        r = self.reads(node)
        if r:
            out.append(("atom", ("rattr", r)))
        for c in self.calls_in_order(node):
            out += self.call_effects(c, env, depth, ctx)
        return out

    def calls_in_order(self, node):
        """Call nodes inside an expression, innermost first (evaluation order approximation);
        bodies of lambdas and nested comprehensions' calls are included (executed eagerly or not:
        including them is the conservative choice)."""
        res = []

        def visit(n):
            for ch in ast.iter_child_nodes(n):
                visit(ch)
            if isinstance(n, ast.Call):
                res.append(n)
        visit(node)
        return res

    def call_effects(self, call, env, depth, ctx):
        out = []
        f = call.func
        # keyword out=v
        for k in call.keywords:
            if k.arg == "out":
                b = self.base_name(k.value, env)
                if b:
                    out.append(("atom", ("mutate", b)))
            # opting out of the defensive copy of a scikit-learn component: allowed only when it is the user's own
            # choice (the literal True, or the estimator's hyper-parameter of the same name passed through)
            if k.arg in ("copy_X", "copy_x", "overwrite_a", "overwrite_b", "inplace") and not (
                    (isinstance(k.value, ast.Constant) and k.value.value is (k.arg in ("copy_X", "copy_x")))
                    or ast.unparse(k.value) in ("self.copy_X", "self.copy_x", "copy_X", "copy_x")):
                out.append(("atom", ("mutate", COPY_OPT_OUT)))
        if isinstance(f, ast.Attribute):
            recv = f.value
            # in-place method on a name / attribute
            if f.attr in INPLACE_METHODS and not self._is_module(recv) and not \
                    (isinstance(recv, ast.Name) and recv.id == "self"):
                b = self.base_name(recv, env)
                # rng.shuffle(x): the receiver is a generator, the argument is written
                if f.attr == "shuffle" and call.args:
                    b = self.base_name(call.args[0], env)
                if b:
                    if b.startswith("self.") and b[5:] in self.params:
                        out.append(("atom", ("write", b[5:])))
                    out.append(("atom", ("mutate", b)))
            if f.attr in INPLACE_FUNCS and self._is_module(recv) and call.args:
                b = self.base_name(call.args[0], env)
                if b:
                    out.append(("atom", ("mutate", b)))
            # ufunc called with its output array given positionally: numpy.abs(x, y), numpy.add(x, y, z)
            if self._is_module(recv):
                nin = 1 if f.attr in UNARY_UFUNCS else (2 if f.attr in BINARY_UFUNCS else None)
                if nin is not None and len(call.args) > nin:
                    b = self.base_name(call.args[nin], env)
                    if b:
                        out.append(("atom", ("mutate", b)))
            # self.method(...)
            if isinstance(recv, ast.Name) and recv.id == "self":
                r = self.uni.find_method(self.cname, f.attr)
                if r is not None:
                    out.append(self.inline(r[2], r[1], call, env, depth, ctx, bound_self=True, owner=r[0]))
                    return out
            # super().method(...)
            if isinstance(recv, ast.Call) and isinstance(recv.func, ast.Name) and recv.func.id == "super":
                r = self.uni.find_method(self.cname, f.attr, start_after=ctx.get("owner", self.cname))
                if r is not None:
                    out.append(self.inline(r[2], r[1], call, env, depth, ctx, bound_self=True, owner=r[0]))
                    return out
                self.external_parent_calls.add("super().%s" % f.attr)
                out.append(("call",))
                if f.attr in ("fit", "fit_transform", "fit_predict"):
                    for pb in self.uni.external_bases(self.cname):
                        for a in EXTERNAL_FIT_WRITES.get(pb, []):
                            out.append(("atom", ("wattr", a, [], "external")))
                            out.append(("atom", ("bindFresh", "self." + a)))     # rebound to a new object by the parent
                return out
            # Parent.method(self, ...)
            if isinstance(recv, ast.Name) and call.args and isinstance(call.args[0], ast.Name) \
                    and call.args[0].id == "self":
                if recv.id in self.uni.classes:
                    r = self.uni.find_method(recv.id, f.attr)
                    if r is not None:
                        out.append(self.inline(r[2], r[1], call, env, depth, ctx, bound_self=False, owner=r[0]))
                        return out
                else:
                    self.external_parent_calls.add("%s.%s" % (recv.id, f.attr))
                    out.append(("call",))
                    if f.attr in ("fit", "fit_transform", "fit_predict"):
                        for a in EXTERNAL_FIT_WRITES.get(recv.id, []):
                            out.append(("atom", ("wattr", a, [], "external")))
                            out.append(("atom", ("bindFresh", "self." + a)))     # rebound to a new object by the parent
                    return out
            # ClassName.static(...)
            if isinstance(recv, ast.Name) and recv.id in self.uni.classes:
                r = self.uni.find_method(recv.id, f.attr)
                if r is not None and self.uni.is_static(r[2]):
                    out.append(self.inline(r[2], r[1], call, env, depth, ctx, bound_self=None, owner=r[0]))
                    return out
            out.append(("call",))
            return out
        if isinstance(f, ast.Name):
            # nested function
            nf = ctx.get("nested", {}).get(f.id)
            if nf is not None:
                out.append(self.inline(nf[0], ctx["module"], call, env, depth, ctx, bound_self=None,
                                       owner=ctx.get("owner"), closure_env=nf[1]))
                return out
            rf = self.uni.resolve_function(ctx["module"], f.id)
            if rf is not None:
                out.append(self.inline(rf[1], rf[0], call, env, depth, ctx, bound_self=None, owner=None))
                return out
            if f.id in INPLACE_FUNCS and call.args:
                b = self.base_name(call.args[0], env)
                if b:
                    out.append(("atom", ("mutate", b)))
            out.append(("call",))
            return out
        if isinstance(f, ast.Call):
            # delayed(fn)(args...)
            g = f.func
            if isinstance(g, ast.Name) and g.id == "delayed" and f.args and isinstance(f.args[0], ast.Name):
                nf = ctx.get("nested", {}).get(f.args[0].id)
                if nf is not None:
                    out.append(self.inline(nf[0], ctx["module"], call, env, depth, ctx, bound_self=None,
                                           owner=ctx.get("owner"), closure_env=nf[1]))
                    return out
                rf = self.uni.resolve_function(ctx["module"], f.args[0].id)
                if rf is not None:
                    out.append(self.inline(rf[1], rf[0], call, env, depth, ctx, bound_self=None, owner=None))
                    return out
        out.append(("call",))
        return out

    def inline(self, fn, module, call, env, depth, ctx, bound_self, owner, closure_env=None):
        """scope( bind parameters ; body ) ; the result is available as name `$ret<suffix>`"""
        key = (module, fn.name, fn.lineno)
        stack = ctx.get("stack", ())
        if depth >= MAX_INLINE_DEPTH or key in stack:
            # recursion / depth bound: a call that may raise; the result may alias every argument
            self.unknown_calls.add("<depth>" + fn.name)
            return ("call",)
        suf = self.fresh_suffix()
        a = fn.args
        pnames = [x.arg for x in a.posonlyargs + a.args]
        args = list(call.args)
        if bound_self is True and pnames and pnames[0] == "self":
            pnames = pnames[1:]
        elif bound_self is False and pnames and pnames[0] == "self":
            pnames = pnames[1:]
            args = args[1:]
        elif bound_self is None and pnames and pnames[0] in ("cls",):
            pnames = pnames[1:]
        new_env = dict(closure_env) if closure_env is not None else {}
        items = []
        kw = {k.arg: k.value for k in call.keywords if k.arg}
        star = any(isinstance(x, ast.Starred) for x in args) or any(k.arg is None for k in call.keywords)
        all_src = self.arg_sources(call, env)
        for i, p in enumerate(pnames + [x.arg for x in a.kwonlyargs]):
            pn = p + suf
            new_env[p] = pn
            if star:
                s = all_src
            elif i < len(args) and i < len(pnames):
                s = self.src(args[i], env)
            elif p in kw:
                s = self.src(kw[p], env)
            else:
                s = ("fresh",)
            items.append(("atom", ("kill", pn)))
            items.append(self.bind(pn, s))
        if a.vararg:
            new_env[a.vararg.arg] = a.vararg.arg + suf
            items.append(self.bind(a.vararg.arg + suf, all_src))
        if a.kwarg:
            new_env[a.kwarg.arg] = a.kwarg.arg + suf
            items.append(self.bind(a.kwarg.arg + suf, all_src))
        ret_name = "$ret" + suf
        items.append(("atom", ("bindFresh", ret_name)))
        ctx2 = {"module": module, "owner": owner if owner is not None else ctx.get("owner"),
                "nested": dict(ctx.get("nested", {})) if closure_env is not None else {},
                "stack": stack + (key,), "ret": ret_name, "suffix": suf}
        body = self.block(fn.body, new_env, depth + 1, ctx2)
        call._verif_ret = ret_name
        return ("scope", seq(items + [body]))

    def local(self, name, env, ctx):
        """analysis name of a local variable; locals of inlined callees carry the instance suffix"""
        if name in env:
            return env[name]
        suf = ctx.get("suffix", "")
        env[name] = name + suf
        return env[name]

    def assign_target(self, tgt, value, vsrc, env, depth, ctx):
        out = []
        if isinstance(tgt, ast.Name):
            v = self.local(tgt.id, env, ctx)
            ch = self.attr_chain(value) if value is not None else None
            if ch is not None and len(ch) == 2 and ch[1] in self.params:
                out.append(("atom", ("snap", v, ch[1])))
            else:
                out.append(("atom", ("kill", v)))
            out.append(self.bind(v, vsrc))
            return out
        if isinstance(tgt, (ast.Tuple, ast.List)):
            if isinstance(value, (ast.Tuple, ast.List)) and len(value.elts) == len(tgt.elts):
                for t, e in zip(tgt.elts, value.elts):
                    out += self.assign_target(t, e, self.src_value(e, env), env, depth, ctx)
            else:
                for t in tgt.elts:
                    out += self.assign_target(t, None, vsrc, env, depth, ctx)
            return out
        if isinstance(tgt, ast.Starred):
            return self.assign_target(tgt.value, None, vsrc, env, depth, ctx)
        if isinstance(tgt, ast.Attribute):
            ch = self.attr_chain(tgt)
            if ch is not None and len(ch) == 2:
                a = ch[1]
                if a in self.params:
                    if isinstance(value, ast.Name):
                        out.append(("atom", ("restore", a, env.get(value.id, value.id))))
                    else:
                        out.append(("atom", ("write", a)))
                else:
                    out.append(("atom", ("wattr", a, self.reads(value) if value is not None else [])))
                out.append(self.bind("self." + a, vsrc))
                return out
            # obj.attr = value : a write through obj
            b = self.base_name(tgt.value, env)
            if b:
                if b.startswith("self.") and b[5:] in self.params:
                    out.append(("atom", ("write", b[5:])))
                out.append(("atom", ("mutate", b)))
            return out
        if isinstance(tgt, ast.Subscript):
            b = self.base_name(tgt.value, env)
            if b:
                if b.startswith("self."):
                    a = b[5:]
                    if a in self.params:
                        out.append(("atom", ("write", a)))
                    else:
                        out.append(("atom", ("rattr", [a])))
                out.append(("atom", ("mutate", b)))
            return out
        return out

    def src_value(self, value, env):
        """source of a value, using the result name of an inlined call when there is one"""
        if isinstance(value, ast.Call) and getattr(value, "_verif_ret", None):
            return ("alias", [value._verif_ret])
        s = self.src(value, env)
        # an inlined call nested inside the expression: its result may flow into the value
        extra = [("alias", [c._verif_ret]) for c in ast.walk(value)
                 if isinstance(c, ast.Call) and getattr(c, "_verif_ret", None)] if value is not None else []
        if extra and s[0] == "alias":
            return self.join_src([s] + extra)
        return s

    def block(self, stmts, env, depth, ctx):
        ctx = dict(ctx)
        ctx["nested"] = dict(ctx.get("nested", {}))
        items = []
        for st in stmts:
            items.append(self.stmt(st, env, depth, ctx))
        return seq(items)

    def stmt(self, st, env, depth, ctx):
        if isinstance(st, ast.FunctionDef):
            ctx["nested"][st.name] = (st, dict(env))
            return ("skip",)
        if isinstance(st, (ast.Import, ast.ImportFrom, ast.Pass, ast.Global, ast.Nonlocal, ast.ClassDef)):
            return ("skip",)
        if isinstance(st, ast.Expr):
            if isinstance(st.value, ast.Constant):
                return ("skip",)
            return seq(self.expr_effects(st.value, env, depth, ctx))
        if isinstance(st, ast.Assign):
            out = self.expr_effects(st.value, env, depth, ctx)
            vsrc = self.src_value(st.value, env)
            for t in st.targets:
                out += self.target_effects(t, env, depth, ctx)
                out += self.assign_target(t, st.value, vsrc, env, depth, ctx)
            return seq(out)
        if isinstance(st, ast.AnnAssign):
            if st.value is None:
                return ("skip",)
            out = self.expr_effects(st.value, env, depth, ctx)
            out += self.assign_target(st.target, st.value, self.src_value(st.value, env), env, depth, ctx)
            return seq(out)
        if isinstance(st, ast.AugAssign):
            out = self.expr_effects(st.value, env, depth, ctx)
            t = st.target
            out += self.target_effects(t, env, depth, ctx)
            if isinstance(t, ast.Name):
                v = self.local(t.id, env, ctx)
                out.append(("atom", ("kill", v)))
                out.append(("atom", ("mutate", v)))
            else:
                ch = self.attr_chain(t)
                if ch is not None and len(ch) == 2:
                    a = ch[1]
                    if a in self.params:
                        # aug-assignment of a hyper-parameter: tracked as a write (to be restored);
                        # treated as rebinding, not as an in-place write into the object
                        out.append(("atom", ("write", a)))
                    else:
                        out.append(("atom", ("rattr", [a])))
                        out.append(("atom", ("wattr", a, [a])))
                        out.append(("atom", ("mutate", "self." + a)))
                else:
                    b = self.base_name(t, env)
                    if b:
                        if b.startswith("self.") and b[5:] in self.params:
                            out.append(("atom", ("write", b[5:])))
                        elif b.startswith("self."):
                            out.append(("atom", ("rattr", [b[5:]])))
                        out.append(("atom", ("mutate", b)))
            return seq(out)
        if isinstance(st, ast.Return):
            out = self.expr_effects(st.value, env, depth, ctx)
            if ctx.get("ret") and st.value is not None:
                s = self.src_value(st.value, env)
                out.append(("atom", ("bindAlias", ctx["ret"], [ctx["ret"]] + (list(s[1]) if s[0] == "alias" else []))))
            out.append(("ret",))
            return seq(out)
        if isinstance(st, ast.Raise):
            out = self.expr_effects(st.exc, env, depth, ctx) if st.exc is not None else []
            out.append(("raise_",))
            return seq(out)
        if isinstance(st, ast.Assert):
            out = self.expr_effects(st.test, env, depth, ctx)
            out.append(("ite", ("nop",), ("skip",), ("raise_",)))
            return seq(out)
        if isinstance(st, ast.Delete):
            out = []
            for t in st.targets:
                ch = self.attr_chain(t)
                if ch is not None and len(ch) == 2:
                    if ch[1] in self.params:
                        out.append(("atom", ("write", ch[1])))
                    else:
                        out.append(("atom", ("dattr", ch[1])))
                elif isinstance(t, ast.Name):
                    out.append(("atom", ("kill", self.local(t.id, env, ctx))))
                elif isinstance(t, ast.Subscript):
                    b = self.base_name(t.value, env)
                    if b:
                        out.append(("atom", ("mutate", b)))
            return seq(out)
        if isinstance(st, (ast.Break, ast.Continue)):
            return ("brk",)
        if isinstance(st, ast.If) and self.guarded_delete(st) is not None:
            # idiom `if hasattr(self, "a"): del self.a` : afterwards the attribute is absent whatever
            # an earlier call left there, and nothing else depends on the test
            return ("atom", ("dattr", self.guarded_delete(st), "if-present"))
        if isinstance(st, ast.If):
            pre = self.expr_effects(st.test, env, depth, ctx)
            cond = ("rattr", self.reads(st.test)) if self.reads(st.test) else ("nop",)
            if self.pure_param_cond(st.test):
                cond = ("pcond", ast.unparse(st.test))
            env_t, env_e = env, env
            t = self.block(st.body, env_t, depth, ctx)
            e = self.block(st.orelse, env_e, depth, ctx)
            return seq(pre + [("ite", cond, t, e)])
        if isinstance(st, ast.For) and self.guarded_delete_loop(st) is not None:
            return seq([("atom", ("dattr", a, "if-present")) for a in self.guarded_delete_loop(st)])
        if isinstance(st, (ast.For, ast.AsyncFor)):
            pre = self.expr_effects(st.iter, env, depth, ctx)
            s = self.src_value(st.iter, env)
            body_items = self.assign_target(st.target, None, s, env, depth, ctx)
            body = seq(body_items + [self.block(st.body, env, depth, ctx)])
            out = pre + [("loop", body)]
            if st.orelse:
                out.append(self.block(st.orelse, env, depth, ctx))
            return seq(out)
        if isinstance(st, ast.While):
            cond = self.expr_effects(st.test, env, depth, ctx)
            body = seq(cond + [self.block(st.body, env, depth, ctx)])
            out = [("loop", body)] + cond
            if st.orelse:
                out.append(self.block(st.orelse, env, depth, ctx))
            return seq(out)
        if isinstance(st, ast.Try):
            body = self.block(st.body, env, depth, ctx)
            if st.orelse:
                body = seq([body, self.block(st.orelse, env, depth, ctx)])
            if st.handlers:
                hs = None
                for h in reversed(st.handlers):
                    hb_items = []
                    if h.name:
                        hb_items.append(("atom", ("kill", self.local(h.name, env, ctx))))
                        hb_items.append(("atom", ("bindFresh", self.local(h.name, env, ctx))))
                    hb = seq(hb_items + [self.block(h.body, env, depth, ctx)])
                    hs = hb if hs is None else ("ite", ("nop",), hb, hs)
                body = ("tryExcept", body, hs)
            if st.finalbody:
                body = ("tryFinally", body, self.block(st.finalbody, env, depth, ctx))
            return body
        if isinstance(st, (ast.With, ast.AsyncWith)):
            out = []
            for it in st.items:
                out += self.expr_effects(it.context_expr, env, depth, ctx)
                if it.optional_vars is not None:
                    out += self.assign_target(it.optional_vars, None, self.src_value(it.context_expr, env),
                                              env, depth, ctx)
            out.append(self.block(st.body, env, depth, ctx))
            return seq(out)
        if isinstance(st, ast.Match):
            out = self.expr_effects(st.subject, env, depth, ctx)
            alt = ("skip",)
            for c in reversed(st.cases):
                alt = ("ite", ("nop",), self.block(c.body, env, depth, ctx), alt)
            return seq(out + [alt])
        # anything else: unknown statement -> a call that may raise (conservative for control flow)
        return ("call",)

    def target_effects(self, tgt, env, depth, ctx):
        """effects of evaluating the sub-expressions of an assignment target (indices, receivers)"""
        out = []
        if isinstance(tgt, ast.Subscript):
            out += self.expr_effects(tgt.slice, env, depth, ctx)
            if not isinstance(tgt.value, (ast.Name,)) and self.attr_chain(tgt.value) is None:
                out += self.expr_effects(tgt.value, env, depth, ctx)
        elif isinstance(tgt, ast.Attribute) and self.attr_chain(tgt) is None:
            out += self.expr_effects(tgt.value, env, depth, ctx)
        elif isinstance(tgt, (ast.Tuple, ast.List)):
            for t in tgt.elts:
                out += self.target_effects(t, env, depth, ctx)
        return out

    # ----- whole method -----
    def method(self, mname):
        r = self.uni.find_method(self.cname, mname)
        if r is None:
            return None
        owner, module, fn = r
        a = fn.args
        pnames = [x.arg for x in a.posonlyargs + a.args + a.kwonlyargs if x.arg != "self"]
        if a.vararg:
            pnames.append(a.vararg.arg)
        if a.kwarg:
            pnames.append(a.kwarg.arg)
        env = {p: p for p in pnames}
        ctx = {"module": module, "owner": owner, "nested": {}, "stack": ((module, fn.name, fn.lineno),),
               "ret": "$ret", "suffix": ""}
        body = self.block(fn.body, env, 0, ctx)
        return {"class": self.cname, "method": mname, "owner": owner, "args": pnames, "prog": body}


# ---------------------------------------------------------------------------------------------
# queries on the IR
# ---------------------------------------------------------------------------------------------

def walk(prog):
    yield prog
    tag = prog[0]
    if tag in ("seq", "tryFinally", "tryExcept"):
        yield from walk(prog[1])
        yield from walk(prog[2])
    elif tag == "ite":
        yield ("atom", prog[1])
        yield from walk(prog[2])
        yield from walk(prog[3])
    elif tag in ("loop", "scope"):
        yield from walk(prog[1])


def atoms(prog):
    for n in walk(prog):
        if n[0] == "atom":
            yield n[1]


def size(prog):
    return sum(1 for _ in walk(prog))


# ---------------------------------------------------------------------------------------------
# Lean rendering
# ---------------------------------------------------------------------------------------------

class Numbering:
    def __init__(self):
        self.tab = {}

    def __call__(self, name):
        if name not in self.tab:
            self.tab[name] = len(self.tab)
        return self.tab[name]


def render_atom(a, loc, par, att):
    t = a[0]
    if t in ("nop", "pcond"):
        return ".nop"
    if t == "snap":
        return "(.snap %d %d)" % (loc(a[1]), par(a[2]))
    if t == "kill":
        return "(.kill %d)" % loc(a[1])
    if t == "restore":
        return "(.restore %d %d)" % (par(a[1]), loc(a[2]))
    if t == "write":
        return "(.write %d)" % par(a[1])
    if t == "bindAlias":
        return "(.bindAlias %d [%s])" % (loc(a[1]), ", ".join(str(loc(u)) for u in a[2]))
    if t == "bindFresh":
        return "(.bindFresh %d)" % loc(a[1])
    if t == "mutate":
        return "(.mutate %d)" % loc(a[1])
    if t == "wattr":
        return "(.wattr %d [%s])" % (att(a[1]), ", ".join(str(att(u)) for u in a[2]))
    if t == "rattr":
        return "(.rattr [%s])" % ", ".join(str(att(u)) for u in a[1])
    if t == "dattr":
        return "(.dattr %d)" % att(a[1])
    raise ValueError(a)


def render(prog, loc, par, att, keep=None):
    """Lean term of type `Prog Act`.  `keep` (a set of atom tags) erases the other atoms, so that each
    analysis gets a small program."""
    t = prog[0]
    if t == "skip":
        return ".skip"
    if t == "atom":
        if keep is not None and prog[1][0] not in keep:
            return ".skip"
        return "(.atom %s)" % render_atom(prog[1], loc, par, att)
    if t in ("call", "raise_", "ret", "brk"):
        return "." + t
    if t == "seq":
        a = render(prog[1], loc, par, att, keep)
        b = render(prog[2], loc, par, att, keep)
        if a == ".skip":
            return b
        if b == ".skip":
            return a
        return "(.seq %s %s)" % (a, b)
    if t == "ite":
        c = prog[1]
        if (keep is not None and c[0] not in keep) or c[0] == "pcond":
            c = ("nop",)
        return "(.ite %s %s %s)" % (render_atom(c, loc, par, att), render(prog[2], loc, par, att, keep),
                                    render(prog[3], loc, par, att, keep))
    if t in ("loop", "scope"):
        return "(.%s %s)" % (t, render(prog[1], loc, par, att, keep))
    if t in ("tryFinally", "tryExcept"):
        return "(.%s %s %s)" % (t, render(prog[1], loc, par, att, keep), render(prog[2], loc, par, att, keep))
    raise ValueError(prog)


def simplify(prog, keep):
    """Erase atoms not in `keep` and collapse the control flow that becomes trivial.  Only sound
    simplifications: skip;p = p, ite c skip skip with no read = skip (condition reads kept),
    loop skip = skip, scope skip = skip, calls are kept (they may raise)."""
    t = prog[0]
    if t == "atom":
        return prog if prog[1][0] in keep else ("skip",)
    if t in ("skip", "call", "raise_", "ret", "brk"):
        return prog
    if t == "seq":
        a, b = simplify(prog[1], keep), simplify(prog[2], keep)
        if a == ("skip",):
            return b
        if b == ("skip",):
            return a
        return ("seq", a, b)
    if t == "ite":
        c = prog[1] if (prog[1][0] in keep or prog[1][0] == "pcond") else ("nop",)
        a, b = simplify(prog[2], keep), simplify(prog[3], keep)
        if a == ("skip",) and b == ("skip",):
            return ("atom", c) if c[0] not in ("nop", "pcond") else ("skip",)
        return ("ite", c, a, b)
    if t in ("loop", "scope"):
        a = simplify(prog[1], keep)
        if a == ("skip",):
            return ("skip",)
        return (t, a)
    if t in ("tryFinally", "tryExcept"):
        a, b = simplify(prog[1], keep), simplify(prog[2], keep)
        if t == "tryFinally" and b == ("skip",):
            return a
        if a == ("skip",):
            return b if t == "tryFinally" else ("skip",)
        return (t, a, b)
    raise ValueError(prog)


def pconds(prog):
    out = []
    for n in walk(prog):
        if n[0] == "ite" and n[1][0] == "pcond" and n[1][1] not in out:
            out.append(n[1][1])
    return out


def specialize(prog, rho):
    """resolve `ite (pcond t) a b` for the conditions whose truth value `rho` fixes"""
    t = prog[0]
    if t == "ite":
        c = prog[1]
        if c[0] == "pcond" and c[1] in rho:
            return specialize(prog[2] if rho[c[1]] else prog[3], rho)
        return ("ite", c, specialize(prog[2], rho), specialize(prog[3], rho))
    if t in ("seq", "tryFinally", "tryExcept"):
        return (t, specialize(prog[1], rho), specialize(prog[2], rho))
    if t in ("loop", "scope"):
        return (t, specialize(prog[1], rho))
    return prog


TRACE_ATOMS = {"write", "restore", "wattr", "dattr"}


def trace_program(prog):
    """The skeleton reduced to the assignments a tracer of `self.__setattr__/__delattr__` can observe
    when they are performed by mlinsights code: hyper-parameter writes/restores, attribute writes and
    deletions.  Writes done by an external parent's fit are silent; a guarded delete may or may not happen."""
    t = prog[0]
    if t == "atom":
        a = prog[1]
        if a[0] not in TRACE_ATOMS:
            return ("skip",)
        if a[0] == "wattr" and len(a) > 3 and a[3] == "external":
            return ("skip",)
        if a[0] == "dattr" and len(a) > 2:
            return ("ite", ("nop",), ("atom", ("dattr", a[1])), ("skip",))
        return prog
    if t in ("skip", "call", "raise_", "ret", "brk"):
        return prog
    if t in ("seq", "tryFinally", "tryExcept"):
        return (t, trace_program(prog[1]), trace_program(prog[2]))
    if t == "ite":
        return ("ite", ("nop",), trace_program(prog[2]), trace_program(prog[3]))
    if t in ("loop", "scope"):
        return (t, trace_program(prog[1]))
    raise ValueError(prog)
