"""G-class: one record per estimator class of the working tree, read with ``ast`` only.

``collect(repo)`` walks ``mlinsights/<pkg>/__init__.py`` exports and every class definition of the
packages in ``PACKAGES`` and returns ``{class name: ClassInfo}``.  Nothing is imported or executed.

Each ``ClassInfo`` carries the facts the parameter protocol (C01) needs: constructor parameters and
how each is stored, where ``**kwargs`` go, which class of its lineage defines ``get_params`` /
``set_params`` / ``_get_param_names``, whether ``set_params`` returns ``self`` on every path.

Extension point: more per-class facts are added by registering a function in ``FACT_EXTRACTORS``
(``name -> f(table, info) -> json-able value``); the result lands in ``info.facts[name]``.  The
existing facts are registered the same way, so a later property only appends to the list and reads
``info.facts``; ``info.node`` (the ``ast.ClassDef``) and ``info.lineage(table)`` are the raw material.

Whatever the walker cannot classify is reported as ``("unknown", why)`` -- never guessed.
"""
import ast
import os

PACKAGES = ("sklapi", "mlmodel", "timeseries")
# classes whose presence in the (transitive) bases makes a class an estimator
ESTIMATOR_ROOTS = {"BaseEstimator", "SkBase"}
# external (scikit-learn) bases: trusted to store their own constructor arguments verbatim
EXTERNAL_ESTIMATORS = {
    "KMeans", "LinearRegression", "DecisionTreeRegressor", "BaseMultilayerPerceptron",
    "CountVectorizer", "TfidfVectorizer", "MLPRegressor", "LogisticRegression",
}
MIXINS_SUFFIX = ("Mixin",)


class ClassInfo:
    def __init__(self, name, pkg, relpath, node):
        self.name = name
        self.pkg = pkg
        self.relpath = relpath
        self.node = node
        self.bases = [ast.unparse(b).split(".")[-1] for b in node.bases]
        self.exported = False
        self.facts = {}

    def method(self, name):
        for m in self.node.body:
            if isinstance(m, ast.FunctionDef) and m.name == name:
                return m
        return None

    def lineage(self, table):
        """self followed by its in-package ancestors, depth first, left to right (approximate MRO)."""
        out, todo = [], [self]
        while todo:
            c = todo.pop(0)
            if c in out:
                continue
            out.append(c)
            todo = [table[b] for b in c.bases if b in table] + todo
        return out

    def external_bases(self, table):
        out = []
        for c in self.lineage(table):
            out += [b for b in c.bases if b not in table]
        return out

    def find_method(self, table, name):
        """(defining ClassInfo, FunctionDef) of the first in-package definition, or (None, None)."""
        for c in self.lineage(table):
            m = c.method(name)
            if m is not None:
                return c, m
        return None, None


def exports_of(repo, pkg):
    """Names bound by ``from .x import a, b`` in the package ``__init__``."""
    path = os.path.join(repo, "mlinsights", pkg, "__init__.py")
    with open(path, encoding="utf-8") as f:
        tree = ast.parse(f.read())
    names = []
    for n in tree.body:
        if isinstance(n, ast.ImportFrom) and n.level >= 1:
            names += [a.asname or a.name for a in n.names]
    return names


def collect(repo, packages=PACKAGES):
    table = {}
    for pkg in packages:
        d = os.path.join(repo, "mlinsights", pkg)
        for fn in sorted(os.listdir(d)):
            if not fn.endswith(".py"):
                continue
            rel = "mlinsights/%s/%s" % (pkg, fn)
            with open(os.path.join(repo, rel), encoding="utf-8") as f:
                tree = ast.parse(f.read())
            for n in tree.body:
                if isinstance(n, ast.ClassDef):
                    table[n.name] = ClassInfo(n.name, pkg, rel, n)
        for name in exports_of(repo, pkg):
            if name in table:
                table[name].exported = True
    for info in table.values():
        ext = set(info.external_bases(table))
        names = {c.name for c in info.lineage(table)}
        info.is_estimator = bool((ext | names) & (ESTIMATOR_ROOTS | EXTERNAL_ESTIMATORS))
    for info in table.values():
        for name, f in FACT_EXTRACTORS:
            try:
                info.facts[name] = f(table, info)
            except Exception as e:  # never guess
                info.facts[name] = ("unknown", "%s: %s" % (type(e).__name__, e))
    return table


def in_scope(table):
    """The classes C01 quantifies over: exported estimator classes of mlmodel, every public
    estimator class of sklapi (SkBase, SkBaseTransform are anchored but not re-exported) and timeseries."""
    out = []
    for info in table.values():
        if not info.is_estimator or info.name.startswith("_"):
            continue
        if info.exported or info.pkg in ("timeseries", "sklapi"):
            out.append(info)
    return sorted(out, key=lambda i: (PACKAGES.index(i.pkg), i.name))


# ------------------------------------------------------------------------------------------
# constructor storage
# ------------------------------------------------------------------------------------------

def _is_none_test(test, p):
    return (isinstance(test, ast.Compare) and len(test.ops) == 1 and isinstance(test.ops[0], ast.Is)
            and isinstance(test.left, ast.Name) and test.left.id == p
            and isinstance(test.comparators[0], ast.Constant) and test.comparators[0].value is None)


def _self_attr(node):
    if isinstance(node, ast.Attribute) and isinstance(node.value, ast.Name) and node.value.id == "self":
        return node.attr
    return None


def _only_raises(body):
    return all(isinstance(s, (ast.Raise, ast.Assert)) or
               (isinstance(s, ast.Expr) and isinstance(s.value, ast.Constant)) for s in body)


def _property_kind(info, table, attr):
    """('getter', target attr) / ('getter+setter', target) when ``attr`` is a property of the lineage."""
    getter = setter = None
    for c in info.lineage(table):
        for m in c.node.body:
            if isinstance(m, ast.FunctionDef) and m.name == attr:
                decos = [ast.unparse(d) for d in m.decorator_list]
                if "property" in decos and getter is None:
                    for s in ast.walk(m):
                        if isinstance(s, ast.Return) and _self_attr(s.value):
                            getter = _self_attr(s.value)
                if (attr + ".setter") in decos and setter is None:
                    for s in ast.walk(m):
                        if isinstance(s, ast.Assign) and len(s.targets) == 1 and _self_attr(s.targets[0]):
                            setter = _self_attr(s.targets[0])
    if getter and setter == getter:
        return "getter+setter", getter
    if getter:
        return "getter", getter
    return None, None


def ctor_params(table, info):
    """[(name, has_default)], varkw-name, defining class name ('<external>' when inherited from outside)."""
    c, m = info.find_method(table, "__init__")
    if m is None:
        return {"params": [], "varkw": None, "defined_in": "<external>"}
    a = m.args
    pos = a.posonlyargs + a.args
    nd = len(a.defaults)
    params = []
    for i, arg in enumerate(pos[1:], 1):
        params.append((arg.arg, i >= len(pos) - nd))
    for arg, d in zip(a.kwonlyargs, a.kw_defaults):
        params.append((arg.arg, d is not None))
    return {"params": params, "varkw": a.kwarg.arg if a.kwarg else None, "defined_in": c.name,
            "vararg": a.vararg.arg if a.vararg else None}


def _base_init_target(call, cls, table, local_supers):
    """Which base's __init__ a call ``X.__init__(...)`` / ``super().__init__(...)`` addresses."""
    f = call.func
    if not (isinstance(f, ast.Attribute) and f.attr == "__init__"):
        return None
    v = f.value
    if isinstance(v, ast.Name) and v.id not in local_supers and v.id != "self":
        return v.id, True          # explicit Base.__init__(self, ...)
    if (isinstance(v, ast.Call) and ast.unparse(v.func) == "super") or \
            (isinstance(v, ast.Name) and v.id in local_supers):
        for b in cls.bases:        # first base that has (or inherits) an __init__
            if b in table:
                c2, m2 = table[b].find_method(table, "__init__")
                if m2 is not None or table[b].external_bases(table):
                    return b, False
            elif not b.endswith(MIXINS_SUFFIX):
                return b, False
        return (cls.bases[0], False) if cls.bases else None
    return None


def ctor_storage(table, info, _depth=0):
    """{param: (kind, detail)} for the constructor in effect, plus '**': where **kwargs go.

    kinds: verbatim | defaulted | normalised | dropped | readonly | unknown
    """
    cls, init = info.find_method(table, "__init__")
    sig = ctor_params(table, info)
    if init is None:
        return {"**": ("none", "")}
    params = [p for p, _ in sig["params"]]
    state = {p: "verbatim" for p in params}     # how the *local name* relates to the argument
    detail = {p: "" for p in params}
    out = {}
    kw = sig["varkw"]
    out["**"] = ("none", "") if kw is None else ("dropped", "")
    local_supers = set()

    def store(attr, value, cond):
        """``self.attr = value`` seen (cond = under an if without a matching else)."""
        if attr not in params:
            return
        if cond:
            out.setdefault(attr, ("dropped", "stored only under a condition: " + cond))
            return
        if isinstance(value, ast.Name) and value.id == attr:
            out[attr] = (state[attr], detail[attr])
        else:
            src = ast.unparse(value)
            out[attr] = ("normalised", src)

    def pass_to_base(call):
        tgt = _base_init_target(call, cls, table, local_supers)
        if tgt is None:
            return
        base, explicit = tgt
        args = call.args[1:] if explicit else call.args
        pairs = []
        base_sig = None
        if base in table:
            base_sig = ctor_params(table, table[base])
            base_store = ctor_storage(table, table[base], _depth + 1) if _depth < 6 else {}
        for i, a in enumerate(args):
            if isinstance(a, ast.Starred):
                continue
            if base_sig is not None and i < len(base_sig["params"]):
                pairs.append((base_sig["params"][i][0], a))
            elif base_sig is None:
                pairs.append((None, a))
        for k in call.keywords:
            if k.arg is None:
                if isinstance(k.value, ast.Name) and k.value.id == kw:
                    if base in table and base_store.get("**", ("none", ""))[0] != "none":
                        out["**"] = base_store["**"]
                    else:
                        out["**"] = ("super", base)
                continue
            pairs.append((k.arg, k.value))
        for bname, a in pairs:
            if not (isinstance(a, ast.Name) and a.id in params):
                continue
            p = a.id
            if base in table:
                bk, bd = base_store.get(bname, ("dropped", "base %s does not store %s" % (base, bname)))
                if bname != p:
                    pk, tgt_attr = _property_kind(info, table, p)
                    if pk == "getter+setter" and tgt_attr == bname:
                        pass
                    elif pk == "getter" and tgt_attr == bname:
                        bk, bd = "readonly", "property %s reads self.%s, no setter" % (p, bname)
                    else:
                        bk, bd = "dropped", "passed to %s.%s, attribute %s never set" % (base, bname, p)
                if bk == "verbatim" and state[p] != "verbatim":
                    bk, bd = state[p], detail[p]
                out[p] = (bk, bd)
            else:
                if bname is None:
                    out[p] = (state[p], "via external base %s (positional, trusted)" % base)
                elif bname == p:
                    out[p] = (state[p], detail[p] or "via external base %s (trusted)" % base)
                else:
                    out[p] = ("dropped", "passed to external %s.%s under another name" % (base, bname))

    def visit(stmts, cond):
        for s in stmts:
            if isinstance(s, ast.Assign) and len(s.targets) == 1:
                t = s.targets[0]
                if isinstance(t, ast.Name):
                    if isinstance(s.value, ast.Call) and ast.unparse(s.value.func) == "super":
                        local_supers.add(t.id)
                    elif t.id in params:
                        if state[t.id] == "verbatim":
                            state[t.id] = "normalised"
                            detail[t.id] = "%s = %s%s" % (t.id, ast.unparse(s.value), " if " + cond if cond else "")
                elif _self_attr(t):
                    store(_self_attr(t), s.value, cond)
            elif isinstance(s, ast.If):
                tested = [p for p in params if _is_none_test(s.test, p)]
                if tested and not s.orelse and len(s.body) >= 1 and all(
                        isinstance(b, ast.Assign) and isinstance(b.targets[0], ast.Name)
                        and b.targets[0].id == tested[0] for b in s.body):
                    p = tested[0]
                    state[p] = "defaulted"
                    detail[p] = "if %s is None: %s" % (p, ast.unparse(s.body[0]))
                elif tested and not s.orelse and all(
                        (isinstance(t, ast.Name) and t.id == tested[0])
                        for n in s.body for a in ast.walk(n) if isinstance(a, ast.Assign) for t in a.targets):
                    # `if p is None: <search a default>` (learner's / TransferTransformer's method)
                    p = tested[0]
                    state[p] = "defaulted"
                    detail[p] = "if %s is None: <computed default>" % p
                elif tested and s.orelse and len(s.body) == 1 and len(s.orelse) == 1 and all(
                        isinstance(b, ast.Assign) and _self_attr(b.targets[0]) == tested[0]
                        for b in (s.body[0], s.orelse[0])) and isinstance(s.orelse[0].value, ast.Name) \
                        and s.orelse[0].value.id == tested[0]:
                    out[tested[0]] = ("defaulted", "if %s is None: %s" % (tested[0], ast.unparse(s.body[0])))
                elif _only_raises(s.body) and not s.orelse:
                    pass
                else:
                    c = ast.unparse(s.test)
                    if s.orelse and all(isinstance(b, ast.Assign) for b in s.body + s.orelse):
                        # both branches assign: each target is stored unconditionally, by a normalisation
                        tb = {_self_attr(b.targets[0]) for b in s.body}
                        te = {_self_attr(b.targets[0]) for b in s.orelse}
                        for a in (tb & te) - {None}:
                            if a in params:
                                out[a] = ("normalised", "if %s: ... else: ..." % c)
                        for a in (tb ^ te) - {None}:
                            if a in params:
                                out.setdefault(a, ("dropped", "stored only under a condition: " + c))
                        names = {b.targets[0].id for b in s.body + s.orelse if isinstance(b.targets[0], ast.Name)}
                        for a in names & set(params):
                            state[a] = "normalised"
                            detail[a] = "if %s: ..." % c
                    else:
                        visit(s.body, (cond + " and " if cond else "") + c)
                        visit(s.orelse, (cond + " and " if cond else "") + "not (" + c + ")")
            elif isinstance(s, ast.Expr) and isinstance(s.value, ast.Call):
                call = s.value
                pass_to_base(call)
                src = ast.unparse(call)
                if kw and src == "self.set_params(**%s)" % kw:
                    out["**"] = ("set_params", "")
            elif isinstance(s, ast.For) and kw and ast.unparse(s.iter) == kw + ".items()":
                body = " ".join(ast.unparse(b) for b in s.body)
                if "setattr(self, k, v)" in body.replace(s.target.elts[0].id if isinstance(s.target, ast.Tuple) else "k", "k") \
                        or "setattr(self," in body:
                    out["**"] = ("setattr", "")
            elif isinstance(s, ast.FunctionDef):
                continue
        return

    # `self.P = SkLearnParameters(**kwargs)`
    for s in init.body:
        if isinstance(s, ast.Assign) and _self_attr(s.targets[0]) == "P" and isinstance(s.value, ast.Call):
            if any(k.arg is None and ast.unparse(k.value) == kw for k in s.value.keywords):
                out["**"] = ("P", ast.unparse(s.value.func))
    visit(init.body, "")
    for p in params:
        if p not in out:
            out[p] = ("dropped", "never stored by %s.__init__" % cls.name)
    # a default evaluated once at definition time and mutable (an estimator, a list, a dict) is ONE object shared
    # by every instance built without that argument: set_params on one instance then changes the others
    a = init.args
    pos = a.posonlyargs + a.args
    for arg, d in list(zip(pos[len(pos) - len(a.defaults):], a.defaults)) + list(zip(a.kwonlyargs, a.kw_defaults)):
        if d is not None and arg.arg in out and not _immutable_default(d):
            out[arg.arg] = ("unknown", "mutable default argument, one object shared by all instances: " + ast.unparse(d))
    return out


def _immutable_default(d):
    if isinstance(d, ast.Constant):
        return True
    if isinstance(d, ast.UnaryOp):
        return _immutable_default(d.operand)
    if isinstance(d, ast.BinOp):
        return _immutable_default(d.left) and _immutable_default(d.right)
    if isinstance(d, ast.Tuple):
        return all(_immutable_default(e) for e in d.elts)
    if isinstance(d, (ast.Name, ast.Attribute)):
        return True       # a module-level constant, function or type (numpy.float64, numpy.inf, ...)
    return False


def protocol_methods(table, info):
    """Which in-package class defines each protocol method ('' = inherited from scikit-learn)."""
    out = {}
    for name in ("get_params", "set_params", "_get_param_names"):
        c, m = info.find_method(table, name)
        out[name] = c.name if c is not None else ""
    return out


def set_params_returns_self(table, info):
    c, m = info.find_method(table, "set_params")
    if m is None:
        return True, "scikit-learn BaseEstimator.set_params (trusted)"
    rets = [n for n in ast.walk(m) if isinstance(n, ast.Return)]
    ok_values = all(isinstance(r.value, ast.Name) and r.value.id == "self" for r in rets)
    last = m.body[-1]
    falls_through = not isinstance(last, (ast.Return, ast.Raise))
    if rets and ok_values and not falls_through:
        return True, "%s.set_params: every path returns self" % c.name
    why = "falls off the end (returns None)" if falls_through else "returns something else than self"
    return False, "%s.set_params %s" % (c.name, why)


FACT_EXTRACTORS = [
    ("ctor_params", ctor_params),
    ("ctor_storage", ctor_storage),
    ("protocol_methods", protocol_methods),
    ("set_params_returns_self", set_params_returns_self),
]


if __name__ == "__main__":
    import sys
    t = collect(sys.argv[1] if len(sys.argv) > 1 else "/repo")
    for i in in_scope(t):
        print(i.pkg, i.name, "exported" if i.exported else "")
        for k, v in i.facts["ctor_storage"].items():
            print("    %-24s %s" % (k, v))
        print("    ", i.facts["protocol_methods"], i.facts["set_params_returns_self"])
