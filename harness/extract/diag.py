"""Diagnostic mirror (Python) of the three abstract domains of Model/Lifecycle.lean.
NOT part of the decision: the Lean analyser decides; this only explains a rejection
(which atom fails its check / which exit is not good) for replay files and for debugging."""
from extract import skeleton as sk


def _join_set(a, b):
    return a | b


class Diag:
    def __init__(self, kind, required=()):
        self.kind = kind
        self.required = set(required)
        self.fail = []

    # abstract states: param: (frozenset dirty, frozenset snaps); own: frozenset borrowed; fresh: frozenset written
    def join(self, a, b):
        if a is None:
            return b
        if b is None:
            return a
        if self.kind == "param":
            return (a[0] | b[0], a[1] & b[1])
        if self.kind == "own":
            return a | b
        return a & b

    def le(self, a, b):
        if a is None:
            return True
        if self.kind == "param":
            return a[0] <= b[0] and b[1] <= a[1]
        if self.kind == "own":
            return a <= b
        return b <= a

    def transfer(self, x, d, where):
        t = x[0]
        if self.kind == "param":
            dirty, snaps = d
            if t == "snap":
                rest = frozenset(p for p in snaps if p[0] != x[1])
                return (dirty, rest if x[2] in dirty else rest | {(x[1], x[2])})
            if t == "kill":
                return (dirty, frozenset(p for p in snaps if p[0] != x[1]))
            if t == "restore":
                if (x[2], x[1]) in snaps:
                    return (dirty - {x[1]}, snaps)
                return (dirty | {x[1]}, snaps)
            if t == "write":
                return (dirty | {x[1]}, snaps)
            return d
        if self.kind == "own":
            if t == "bindFresh":
                return d - {x[1]}
            if t == "bindAlias":
                return d | {x[1]} if any(u in d for u in x[2]) else d - {x[1]}
            if t == "mutate" and x[1] in d:
                self.fail.append(("in-place write through a name that may alias caller data", x[1], where))
            return d
        if t in ("wattr", "rattr"):
            reads = x[2] if t == "wattr" else x[1]
            bad = [r for r in reads if r not in d]
            if bad:
                self.fail.append(("reads attribute(s) not (re)written by this fit", bad, where))
            return d | {x[1]} if t == "wattr" else d
        if t == "dattr":
            return d | {x[1]}
        return d

    def analyze(self, p, d, where=""):
        """returns dict norm/exc/ret/brk -> state or None"""
        t = p[0]
        R = {"norm": None, "exc": None, "ret": None, "brk": None}
        if t == "skip":
            R["norm"] = d
        elif t == "atom":
            R["norm"] = self.transfer(p[1], d, where)
        elif t == "call":
            R["norm"] = d
            R["exc"] = d
        elif t == "raise_":
            R["exc"] = d
        elif t == "ret":
            R["ret"] = d
        elif t == "brk":
            R["brk"] = d
        elif t == "seq":
            ra = self.analyze(p[1], d, where)
            if ra["norm"] is None:
                return ra
            rb = self.analyze(p[2], ra["norm"], where)
            R = {k: self.join(ra[k] if k != "norm" else None, rb[k]) for k in R}
        elif t == "ite":
            if p[1][0] in ("rattr",):
                self.transfer(p[1], d, where + "/cond")
            ra = self.analyze(p[2], d, where)
            rb = self.analyze(p[3], d, where)
            R = {k: self.join(ra[k], rb[k]) for k in R}
        elif t == "loop":
            h = d
            for _ in range(8):
                saved = list(self.fail)
                r = self.analyze(p[1], h, where)
                self.fail = saved
                if self.le(r["norm"], h) and self.le(r["brk"], h):
                    break
                h = self.join(self.join(h, r["norm"]), r["brk"])
            r = self.analyze(p[1], h, where + "/loop")
            R = {"norm": h, "exc": r["exc"], "ret": r["ret"], "brk": None}
        elif t == "tryFinally":
            rb = self.analyze(p[1], d, where)
            via = {k: (self.analyze(p[2], rb[k], where + "/finally") if rb[k] is not None else
                       {"norm": None, "exc": None, "ret": None, "brk": None}) for k in rb}
            R["norm"] = via["norm"]["norm"]
            for k in ("exc", "ret", "brk"):
                acc = via[k]["norm"]
                for k2 in via:
                    acc = self.join(acc, via[k2][k])
                R[k] = acc
        elif t == "tryExcept":
            rb = self.analyze(p[1], d, where)
            if rb["exc"] is None:
                return rb
            rh = self.analyze(p[2], rb["exc"], where + "/except")
            R = {k: self.join(rb[k], rh[k]) for k in R}
        elif t == "scope":
            rb = self.analyze(p[1], d, where)
            R = {"norm": self.join(self.join(rb["norm"], rb["ret"]), rb["brk"]), "exc": rb["exc"],
                 "ret": None, "brk": None}
        return R

    def run(self, prog, entry):
        R = self.analyze(prog, entry)
        for k, d in R.items():
            if d is None:
                continue
            if self.kind == "param" and d[0]:
                self.fail.append(("hyper-parameter(s) not restored at exit '%s'" % k, sorted(d[0]), ""))
            if self.kind == "fresh":
                miss = sorted(self.required - d)
                if miss:
                    self.fail.append(("observable attribute(s) not rewritten by fit at exit '%s'" % k, miss, ""))
        # dedupe
        out, seen = [], set()
        for f in self.fail:
            key = (f[0], str(f[1]))
            if key not in seen:
                seen.add(key)
                out.append(f)
        return out


def explain_param(prog):
    return Diag("param").run(prog, (frozenset(), frozenset()))


def explain_own(prog, borrowed):
    return Diag("own").run(prog, frozenset(borrowed))


def explain_fresh(prog, required):
    return Diag("fresh", required).run(prog, frozenset())
