"""Extractor of C07: regenerates lean/MlVerif/Gen/C07.lean from the working tree.

Everything is a pure function of the two source files.  What is extracted (as Lean
definitions over Int / Rat / Bool) is what the balancing proofs hinge on:

* ``limit`` / ``leftover`` in ``constraint_kmeans`` and ``constraint_predictions``;
* the ``while iter < max_iter`` guard, the best-so-far test and the early-stop test;
* the two acceptance tests of the fill loop of ``_constraint_association_distance``, the
  initial values of ``counters/leftclose/labels``, the ``leftclose[c] = 0`` mark and ``nover -= 1``;
* in ``_constraint_association_gain``: the clipping statements applied to ``leftclose``, ``nover``,
  ``sumi``, both branches of ``loopf`` (condition + the straight-line effect on ``(sumi, leftclose[h])``,
  obtained by symbolic execution of the branch body in source order), the ``it > ...`` break, the
  quota test of the transfer, the swap test, and whether a last pass of plain transfers exists
  (with its quota test);
* the dispatch of ``ConstraintKMeans.predict``.

Anything not of the expected shape becomes ``unknownInt``/``unknownBool`` (never a guess).
"""
import ast

from extract import pyexpr

SRC = "mlinsights/mlmodel/_kmeans_constraint_.py"
SRC2 = "mlinsights/mlmodel/kmeans_constraint.py"

UNK_B = '(MlVerif.Gen.unknownBool "%s")'
UNK_I = '(MlVerif.Gen.unknownInt "%s")'


def _q(s):
    return s.replace('"', "'").replace("\\", "/")


def _bool(tr, node):
    a, t = tr.expr(node)
    if t != "bool" or "unknownInt" in a:
        return UNK_B % _q(ast.unparse(node))
    return a


def _int(tr, node):
    a = tr.int_expr(node)
    return a


def _assign_value(fn, name, idx=0):
    a = pyexpr.assignments(fn, name)
    return a[idx].value if len(a) > idx else None


def _sym_exec(stmts, env):
    """Straight-line symbolic execution of assignments / aug-assignments whose targets are keys of env.
    Returns the new env or None when a statement is not of that form."""
    env = dict(env)
    for st in stmts:
        if isinstance(st, ast.AugAssign):
            tgt = ast.unparse(st.target)
            if tgt not in env:
                return None
            tr = pyexpr.Tr({k: (v, "int") for k, v in env.items()})
            b = ast.BinOp(left=st.target, op=st.op, right=st.value)
            env[tgt] = tr.int_expr(ast.fix_missing_locations(b))
        elif isinstance(st, ast.Assign) and len(st.targets) == 1:
            tgt = ast.unparse(st.targets[0])
            if tgt not in env:
                return None
            tr = pyexpr.Tr({k: (v, "int") for k, v in env.items()})
            env[tgt] = tr.int_expr(st.value)
        else:
            return None
    return env


def _fill_parts(fn):
    out = {}
    # initial values: counters[:] = 0, leftclose[:] = -1, labels[:] = -1
    tr0 = pyexpr.Tr({})
    for name in ("counters", "leftclose", "labels"):
        val = None
        for n in fn.body:
            if isinstance(n, ast.Assign) and ast.unparse(n.targets[0]) == "%s[:]" % name:
                val = n.value
                break
        out["init_" + name] = _int(tr0, val) if val is not None else UNK_I % ("%s[:] = ?" % name)
    # while guard
    wh = [n for n in ast.walk(fn) if isinstance(n, ast.While)]
    trw = pyexpr.Tr({"labels.min()": ("minLabel", "int")})
    out["while"] = _bool(trw, wh[0].test) if len(wh) == 1 else UNK_B % "while loops: %d" % len(wh)
    # nover = leftover
    nv = _assign_value(fn, "nover")
    out["nover0"] = _int(pyexpr.Tr({"leftover": ("leftover", "int")}), nv) if nv is not None else UNK_I % "nover = ?"
    # loops
    outer = [n for n in ast.walk(fn) if isinstance(n, ast.For) and ast.unparse(n.iter) == "sorted_index"]
    inner = [n for n in ast.walk(fn) if isinstance(n, ast.For) and ast.unparse(n.iter) == "centers_index[ind, :]"]
    out["skip"] = UNK_B % "for ind in sorted_index: first statement"
    if len(outer) == 1 and outer[0].body and isinstance(outer[0].body[0], ast.If) \
            and len(outer[0].body[0].body) == 1 and isinstance(outer[0].body[0].body[0], ast.Continue):
        out["skip"] = _bool(pyexpr.Tr({"labels[ind]": ("label", "int")}), outer[0].body[0].test)
    tb = {"counters[c]": ("counter", "int"), "limit": ("limit", "int"), "nover": ("nover", "int"),
          "leftclose[c]": ("leftclose", "int")}
    tr = pyexpr.Tr(tb)
    out["accA"] = UNK_B % "first test of the fill loop"
    out["accB"] = UNK_B % "second test of the fill loop"
    out["effA"] = out["effB"] = None
    if len(inner) == 1 and len(inner[0].body) == 2 and all(isinstance(s, ast.If) for s in inner[0].body):
        ia, ib = inner[0].body
        out["accA"] = _bool(tr, ia.test)
        out["accB"] = _bool(tr, ib.test)

        def effect(ifnode):
            # body: counters[c] += 1; labels[ind] = c; [nover -= 1; leftclose[c] = 0;] distances[ind, c] = maxi; break
            keep, other = [], []
            for s in ifnode.body:
                src = ast.unparse(s)
                if isinstance(s, ast.Break):
                    other.append("break")
                elif src in ("labels[ind] = c", "distances[ind, c] = maxi"):
                    other.append(src)
                else:
                    keep.append(s)
            env = _sym_exec(keep, {"counters[c]": "counter", "nover": "nover", "leftclose[c]": "leftclose"})
            if env is None or sorted(other) != ["break", "distances[ind, c] = maxi", "labels[ind] = c"] \
                    or ifnode.orelse:
                return None
            return env
        out["effA"] = effect(ia)
        out["effB"] = effect(ib)
    return out


def _gain_parts(fn):
    out = {}
    body = fn.body
    # ave = limit
    av = _assign_value(fn, "ave")
    out["ave"] = _int(pyexpr.Tr({"limit": ("limit", "int")}), av) if av is not None else UNK_I % "ave = ?"
    # leftclose[:] = counters[:] - ave ; clips ; nover ; sumi
    srcs = [ast.unparse(s) for s in body]
    out["lc0"] = UNK_I % "leftclose[:] = ?"
    clips = None
    try:
        i0 = next(i for i, s in enumerate(body) if isinstance(s, ast.Assign)
                  and ast.unparse(s.targets[0]) == "leftclose[:]")
        i1 = next(i for i, s in enumerate(body) if isinstance(s, ast.Assign)
                  and ast.unparse(s.targets[0]) == "nover")
        out["lc0"] = _int(pyexpr.Tr({"counters[:]": ("counter", "int"), "ave": ("ave", "int")}), body[i0].value)
        clips = []
        for s in body[i0 + 1:i1]:
            ok = False
            if isinstance(s, ast.Assign) and isinstance(s.targets[0], ast.Subscript) \
                    and ast.unparse(s.targets[0].value) == "leftclose":
                cond = s.targets[0].slice
                c = _bool(pyexpr.Tr({"leftclose": ("x", "int")}), cond)
                v = _int(pyexpr.Tr({}), s.value)
                if "unknown" not in c and "unknown" not in v:
                    clips.append((c, v, ast.unparse(s)))
                    ok = True
            if not ok:
                clips = None
                break
    except StopIteration:
        clips = None
    out["clips"] = clips
    nv = _assign_value(fn, "nover")
    out["nover"] = _int(pyexpr.Tr({"X.shape[0]": ("n", "int"), "ave": ("ave", "int"),
                                   "counters.shape[0]": ("k", "int")}), nv) if nv is not None else UNK_I % "nover"
    sm = _assign_value(fn, "sumi")
    out["sumi"] = _int(pyexpr.Tr({"nover": ("nover", "int"), "leftclose.sum()": ("sumLeftclose", "int")}), sm) \
        if sm is not None else UNK_I % "sumi"
    # the `if sumi != 0:` guard
    guard = [s for s in body if isinstance(s, ast.If) and "loopf" in ast.unparse(s)]
    out["adjustGuard"] = _bool(pyexpr.Tr({"sumi": ("sumi", "int")}), guard[0].test) if len(guard) == 1 \
        else UNK_B % "guard of the allowance adjustment"
    # loopf
    out["negCond"] = out["posCond"] = UNK_B % "loopf"
    out["neg"] = out["pos"] = None
    out["break"] = UNK_B % "it > ..."
    out["whileAdj"] = UNK_B % "while sumi != 0"
    out["detBreak"] = UNK_B % "if sumi == 0: break"
    try:
        lf = pyexpr.find_function(fn, "loopf")
    except pyexpr.Unknown:
        lf = None
    tb = {"sumi": ("sumi", "int"), "leftclose[h]": ("lc", "int")}
    if lf is not None and len(lf.body) == 2 and isinstance(lf.body[0], ast.If) \
            and isinstance(lf.body[1], ast.Return) and ast.unparse(lf.body[1].value) == "sumi" \
            and [a.arg for a in lf.args.args] == ["h", "sumi"]:
        i1 = lf.body[0]
        if len(i1.orelse) == 1 and isinstance(i1.orelse[0], ast.If) and not i1.orelse[0].orelse:
            i2 = i1.orelse[0]
            tr = pyexpr.Tr(tb)
            out["negCond"] = _bool(tr, i1.test)
            out["posCond"] = _bool(tr, i2.test)
            out["neg"] = _sym_exec(i1.body, {"sumi": "sumi", "leftclose[h]": "lc"})
            out["pos"] = _sym_exec(i2.body, {"sumi": "sumi", "leftclose[h]": "lc"})
    if guard:
        g = guard[0]
        wl = [s for s in g.body if isinstance(s, ast.While)]
        if len(wl) == 1:
            out["whileAdj"] = _bool(pyexpr.Tr({"sumi": ("sumi", "int")}), wl[0].test)
            w = wl[0]
            wsrc = [ast.unparse(s) for s in w.body]
            if len(w.body) == 4 and wsrc[0] == "h = state.randint(0, counters.shape[0])" \
                    and wsrc[1] == "sumi = loopf(h, sumi)" and wsrc[2] == "it += 1" \
                    and isinstance(w.body[3], ast.If) and ast.unparse(w.body[3].body[0]) == "break":
                out["break"] = _bool(pyexpr.Tr({"it": ("it", "int"), "counters.shape[0]": ("k", "int")}),
                                     w.body[3].test)
        fl = [s for s in g.body if isinstance(s, ast.For) and ast.unparse(s.iter) == "range(counters.shape[0])"]
        if len(fl) == 1 and len(fl[0].body) == 2 and isinstance(fl[0].body[0], ast.If) \
                and ast.unparse(fl[0].body[0].body[0]) == "break" \
                and ast.unparse(fl[0].body[1]) == "sumi = loopf(h, sumi)":
            out["detBreak"] = _bool(pyexpr.Tr({"sumi": ("sumi", "int")}), fl[0].body[0].test)
    # main loop(s) over sorted_distances
    loops = [s for s in body if isinstance(s, ast.For)
             and ast.unparse(s.iter) in ("range(0, sorted_distances.shape[0])", "range(sorted_distances.shape[0])")]
    tq = pyexpr.Tr({"counters[dest]": ("cDest", "int"), "counters[cur]": ("cCur", "int"), "ave": ("ave", "int"),
                    "leftclose[dest]": ("lDest", "int"), "leftclose[cur]": ("lCur", "int")})
    out["quota"] = UNK_B % "quota test of the transfer"
    out["swap"] = UNK_B % "swap test"
    out["finalPass"] = "false"
    out["finalQuota"] = "false"
    out["nloops"] = len(loops)
    if loops:
        main = loops[0]
        ifs = [s for s in main.body if isinstance(s, ast.If) and "counters[dest]" in ast.unparse(s.test)]
        if len(ifs) == 1:
            out["quota"] = _bool(tq, ifs[0].test)
            sw = [n for n in ast.walk(ifs[0]) if isinstance(n, ast.If) and ast.unparse(n.test).startswith("g + gain")
                  or isinstance(n, ast.If) and "gain" in ast.unparse(n.test) and "g" in
                  [x.id for x in ast.walk(n.test) if isinstance(x, ast.Name)]]
            if len(sw) == 1:
                out["swap"] = _bool(pyexpr.Tr({"g": ("g", "int"), "gain": ("gain", "int")}), sw[0].test)
    if len(loops) == 2:
        fin = loops[1]
        # expected: ind/dest/cur assignments, `if cur == dest: continue`, `if <quota>: transfer`
        srcs = [ast.unparse(s) for s in fin.body]
        ok = (len(fin.body) == 5 and srcs[0] == "ind = int(sorted_distances[i, 1])"
              and srcs[1] == "dest = int(sorted_distances[i, 2])" and srcs[2] == "cur = labels[ind]"
              and isinstance(fin.body[3], ast.If) and ast.unparse(fin.body[3].test) == "cur == dest"
              and ast.unparse(fin.body[3].body[0]) == "continue" and isinstance(fin.body[4], ast.If)
              and not fin.body[4].orelse
              and sorted(ast.unparse(s) for s in fin.body[4].body) ==
              ["counters[cur] -= 1", "counters[dest] += 1", "labels[ind] = dest"])
        if ok:
            out["finalPass"] = "true"
            out["finalQuota"] = _bool(tq, fin.body[4].test)
        else:
            out["finalPass"] = UNK_B % "second loop over sorted_distances of unexpected shape"
            out["finalQuota"] = UNK_B % "second loop over sorted_distances of unexpected shape"
    elif len(loops) != 1:
        out["finalPass"] = UNK_B % ("%d loops over sorted_distances" % len(loops))
    return out


def _predict_path(cls):
    """ConstraintKMeans.predict -> nested if over (self.weights_ is None, self.balanced_predictions)."""
    fn = pyexpr.find_function(cls, "predict")

    def ret_kind(stmts):
        # returns a Lean Nat term: 0 = KMeans.predict(self, X), 1 = constraint_predictions(.., strategy + '_p') labels
        if stmts and isinstance(stmts[0], ast.Assert):
            # 3 = AssertionError
            if ast.unparse(stmts[0].test) == "not self.balanced_predictions":
                return "(if balanced then 3 else %s)" % ret_kind(stmts[1:])
            return "2"
        srcs = [ast.unparse(s) for s in stmts]
        if srcs == ["return KMeans.predict(self, X)"]:
            return "0"
        if srcs == ["labels, _, __ = constraint_predictions(X, self.cluster_centers_, strategy=self.strategy + '_p')",
                    "return labels"]:
            return "1"
        if len(stmts) >= 1 and isinstance(stmts[0], ast.If):
            c = ast.unparse(stmts[0].test)
            var = {"self.weights_ is None": "weightsNone", "self.balanced_predictions": "balanced"}.get(c)
            if var is None:
                return "2"
            rest = stmts[1:]
            a = ret_kind(stmts[0].body)
            b = ret_kind(stmts[0].orelse if stmts[0].orelse else rest)
            return "(if %s then %s else %s)" % (var, a, b)
        return "2"
    body = [s for s in fn.body if not (isinstance(s, ast.Expr) and isinstance(s.value, ast.Constant))]
    return ret_kind(body)


def _pair(env, a, b):
    if env is None:
        return "(%s, %s)" % (UNK_I % "branch body not straight-line", UNK_I % "branch body not straight-line")
    return "(%s, %s)" % (env[a], env[b])


def extract(ctx):
    tree = ast.parse(ctx.source(SRC))
    tree2 = ast.parse(ctx.source(SRC2))
    ck = pyexpr.find_function(tree, "constraint_kmeans")
    cp = pyexpr.find_function(tree, "constraint_predictions")
    tsh = {"X.shape[0]": ("n", "int"), "centers.shape[0]": ("k", "int")}

    def lim(fn, suffix):
        li = _assign_value(fn, "limit")
        lo = _assign_value(fn, "leftover")
        a = _int(pyexpr.Tr(tsh), li) if li is not None else UNK_I % "limit = ?"
        t2 = dict(tsh)
        t2["limit"] = ("(limit%s n k)" % suffix, "int")
        b = _int(pyexpr.Tr(t2), lo) if lo is not None else UNK_I % "leftover = ?"
        return a, b, (ast.unparse(li) if li is not None else "?"), (ast.unparse(lo) if lo is not None else "?")
    l1, o1, s1, s2 = lim(ck, "")
    l2, o2, _, _ = lim(cp, "P")
    # control flow of constraint_predictions: top-level tests / loops, every `return`, and the association call(s)
    pctl = []
    for st in cp.body:
        if isinstance(st, ast.If):
            pctl.append("if " + ast.unparse(st.test))
        elif isinstance(st, (ast.For, ast.While, ast.Try, ast.With)):
            pctl.append(type(st).__name__.lower())
    pctl += ["return " + (ast.unparse(n.value) if n.value is not None else "") for n in ast.walk(cp) if isinstance(n, ast.Return)]
    passoc = [", ".join([ast.unparse(a) for a in c.args] + ["%s=%s" % (k.arg, ast.unparse(k.value)) for k in c.keywords])
              for c in pyexpr.calls(cp, "_constraint_association")]

    def _ls(xs):
        return "[" + ", ".join('"%s"' % x.replace('"', "'") for x in xs) + "]"
    # outer loop
    wh = [n for n in ast.walk(ck) if isinstance(n, ast.While) and "max_iter" in ast.unparse(n.test)]
    guard = _bool(pyexpr.Tr({"iter": ("iter", "int"), "max_iter": ("maxIter", "int")}), wh[0].test) \
        if len(wh) == 1 else UNK_B % "while iter < max_iter"
    better = UNK_B % "best option so far"
    early = UNK_B % "early stop"
    iter_next = UNK_I % "iter += 1"
    if len(wh) == 1:
        tio = {"inertia": ("inertia", "rat"), "best_inertia": ("bestInertia", "rat"), "iter": ("iter", "int"),
               "best_iter": ("bestIter", "int"), "best_inertia is None": ("bestNone", "bool"),
               "best_inertia is not None": ("(! bestNone)", "bool")}
        for s in wh[0].body:
            if isinstance(s, ast.If):
                src = ast.unparse(s)
                if "best_labels = labels.copy()" in src and "best_iter = iter" in src:
                    better = _bool(pyexpr.Tr(tio), s.test)
                elif len(s.body) == 1 and isinstance(s.body[0], ast.Break):
                    tio2 = dict(tio)
                    tio2["best_inertia is not None"] = ("true", "bool")
                    early = _bool(pyexpr.Tr(tio2), s.test)
            if isinstance(s, ast.AugAssign) and ast.unparse(s.target) == "iter":
                env = _sym_exec([s], {"iter": "iter"})
                iter_next = env["iter"] if env else iter_next
    fill = _fill_parts(pyexpr.find_function(tree, "_constraint_association_distance"))
    gain = _gain_parts(pyexpr.find_function(tree, "_constraint_association_gain"))
    cls = pyexpr.find_function(tree2, "ConstraintKMeans")
    ppath = _predict_path(cls)

    def eff(env):
        if env is None:
            u = UNK_I % "effect of the accepting branch not straight-line"
            return "(%s, %s, %s)" % (u, u, u)
        return "(%s, %s, %s)" % (env["counters[c]"], env["nover"], env["leftclose[c]"])
    if gain["clips"] is None:
        clip = UNK_I % "statements between leftclose[:] = ... and nover = ... not of the form leftclose[cond] = v"
        clipdoc = "?"
    else:
        clip = "x"
        for c, v, _ in reversed(gain["clips"]):
            pass
        # sequential application, first statement innermost
        lines = []
        for c, v, _ in gain["clips"]:
            lines.append("let x := if %s then %s else x" % (c, v))
        clip = "\n  ".join(lines + ["x"]) if lines else "x"
        clipdoc = "; ".join(s for _, _, s in gain["clips"])
    body = pyexpr.HEADER + """import MlVerif.Gen.Base
namespace MlVerif.Gen.C07
open MlVerif.Gen
set_option linter.unusedVariables false

/-! constraint_kmeans: `limit = %(s1)s`, `leftover = %(s2)s` -/
def limit (n k : Int) : Int := %(l1)s
def leftover (n k : Int) : Int := %(o1)s
/-! constraint_predictions -/
def limitP (n k : Int) : Int := %(l2)s
def leftoverP (n k : Int) : Int := %(o2)s
/-- top-level tests / loops of `constraint_predictions` and every `return` of it, in source order -/
def predictionsControl : List String := %(pctl)s
/-- arguments of the `_constraint_association` call(s) made by `constraint_predictions` -/
def predictionsAssociation : List String := %(passoc)s

/-! outer loop of constraint_kmeans -/
def outerGuard (iter maxIter : Int) : Bool := %(guard)s
def iterNext (iter : Int) : Int := %(iter_next)s
def better (bestNone : Bool) (inertia bestInertia : Rat) : Bool := %(better)s
def earlyStop (bestNone : Bool) (inertia bestInertia : Rat) (iter bestIter : Int) : Bool := %(early)s

/-! _constraint_association_distance -/
def fillInitCounter : Int := %(ic)s
def fillInitLeftclose : Int := %(il)s
def fillInitLabel : Int := %(ilab)s
def fillWhile (minLabel : Int) : Bool := %(fwhile)s
def fillNover0 (leftover : Int) : Int := %(nover0)s
def fillSkip (label : Int) : Bool := %(skip)s
def acceptLimit (counter limit nover leftclose : Int) : Bool := %(accA)s
def acceptLeftover (counter limit nover leftclose : Int) : Bool := %(accB)s
/-- new (counters[c], nover, leftclose[c]) in the first / second accepting branch -/
def effectLimit (counter nover leftclose : Int) : Int × Int × Int := %(effA)s
def effectLeftover (counter nover leftclose : Int) : Int × Int × Int := %(effB)s

/-! _constraint_association_gain -/
def gainAve (limit : Int) : Int := %(ave)s
def gainLeftclose0 (counter ave : Int) : Int := %(lc0)s
/-- clipping statements, in source order: %(clipdoc)s -/
def gainClip (x : Int) : Int :=
  %(clip)s
def gainNover (n ave k : Int) : Int := %(gnover)s
def gainSumi (nover sumLeftclose : Int) : Int := %(gsumi)s
def gainAdjustGuard (sumi : Int) : Bool := %(adjustGuard)s
def loopfNegCond (sumi lc : Int) : Bool := %(negCond)s
def loopfPosCond (sumi lc : Int) : Bool := %(posCond)s
/-- new (sumi, leftclose[h]) after the body of each branch of `loopf`, statements in source order -/
def loopfNeg (sumi lc : Int) : Int × Int := %(neg)s
def loopfPos (sumi lc : Int) : Int × Int := %(pos)s
def adjustWhile (sumi : Int) : Bool := %(whileAdj)s
def adjustBreak (it k : Int) : Bool := %(brk)s
def adjustDetBreak (sumi : Int) : Bool := %(detBreak)s
def quotaMove (cDest cCur ave lDest lCur : Int) : Bool := %(quota)s
def swapTest (g gain : Int) : Bool := %(swap)s
/-- a second loop over `sorted_distances` doing plain quota transfers exists -/
def finalPass : Bool := %(finalPass)s
def finalQuota (cDest cCur ave lDest lCur : Int) : Bool := %(finalQuota)s

/-! ConstraintKMeans.predict: 0 = `KMeans.predict(self, X)`, 1 = labels of
`constraint_predictions(X, self.cluster_centers_, strategy=self.strategy + '_p')`, 3 = AssertionError,
2 = anything else -/
def predictPath (weightsNone balanced : Bool) : Nat := %(ppath)s

end MlVerif.Gen.C07
""" % dict(pctl=_ls(pctl), passoc=_ls(passoc), s1=s1, s2=s2, l1=l1, o1=o1, l2=l2, o2=o2, guard=guard, iter_next=iter_next, better=better,
           early=early, ic=fill["init_counters"], il=fill["init_leftclose"], ilab=fill["init_labels"],
           fwhile=fill["while"], nover0=fill["nover0"], skip=fill["skip"], accA=fill["accA"],
           accB=fill["accB"], effA=eff(fill["effA"]), effB=eff(fill["effB"]), ave=gain["ave"],
           lc0=gain["lc0"], clip=clip, clipdoc=clipdoc, gnover=gain["nover"], gsumi=gain["sumi"],
           adjustGuard=gain["adjustGuard"], negCond=gain["negCond"], posCond=gain["posCond"],
           neg=_pair(gain["neg"], "sumi", "leftclose[h]"), pos=_pair(gain["pos"], "sumi", "leftclose[h]"),
           whileAdj=gain["whileAdj"], brk=gain["break"], detBreak=gain["detBreak"], quota=gain["quota"],
           swap=gain["swap"], finalPass=gain["finalPass"], finalQuota=gain["finalQuota"], ppath=ppath)
    return {"MlVerif/Gen/C07.lean": body}
