"""Python-AST -> Lean translator for *field* expressions (used by C05, C18).

Translates ``+ - * /``, unary minus, ``** 0.5`` (as an explicit ``sqrt`` marker), ``max``/``min``
of two arguments, integer and float literals (a float literal is translated to its exact
rational value) and names given by the caller's table into a Lean term over a generic field
``α``.  Anything else becomes ``(MlVerif.Gen.unknownInt "<src>" : Int)`` cast into the field:
an opaque constant about which nothing can be proved -- never a guess.
"""
import ast
from fractions import Fraction


def lit(v):
    fr = Fraction(v)
    if fr.denominator == 1:
        if fr.numerator < 0:
            return "(-%d)" % (-fr.numerator)
        return "%d" % fr.numerator
    if fr.numerator < 0:
        return "(-(%d / %d))" % (-fr.numerator, fr.denominator)
    return "(%d / %d)" % (fr.numerator, fr.denominator)


class Tr:
    def __init__(self, table, unknown_fmt='(MlVerif.Gen.C05.unk "%s")', fns=None):
        self.table = table
        self.unknown_fmt = unknown_fmt
        self.fns = fns or {}
        self.unknowns = []

    def unknown(self, node):
        src = ast.unparse(node) if isinstance(node, ast.AST) else str(node)
        src = src.replace('"', "'").replace("\\", "/")
        self.unknowns.append(src)
        return self.unknown_fmt % src

    def expr(self, node):
        src = ast.unparse(node)
        if src in self.table:
            return self.table[src]
        if isinstance(node, ast.Constant) and not isinstance(node.value, bool) \
                and isinstance(node.value, (int, float)):
            return lit(node.value)
        if isinstance(node, ast.UnaryOp) and isinstance(node.op, ast.USub):
            return "(-%s)" % self.expr(node.operand)
        if isinstance(node, ast.BinOp):
            ops = {ast.Add: "+", ast.Sub: "-", ast.Mult: "*", ast.Div: "/"}
            for k, s in ops.items():
                if isinstance(node.op, k):
                    return "(%s %s %s)" % (self.expr(node.left), s, self.expr(node.right))
            if isinstance(node.op, ast.Pow) and isinstance(node.right, ast.Constant) \
                    and node.right.value == 0.5 and "sqrt" in self.fns:
                return "(%s %s)" % (self.fns["sqrt"], self.expr(node.left))
            return self.unknown(node)
        if isinstance(node, ast.Call):
            fn = ast.unparse(node.func)
            if fn in self.fns and not node.keywords:
                return "(%s %s)" % (self.fns[fn], " ".join(self.expr(a) for a in node.args))
            return self.unknown(node)
        return self.unknown(node)
