"""Developer tool: print the `modelled_functions_have_the_transcribed_shape` theorem for a property from the `shape…`
definitions of the CURRENT lean/MlVerif/Gen/<id>.lean (i.e. of the tree the models were written against).
usage: python harness/mkshapes.py C08      (paste the output into Properties/C08.lean when a model is re-validated)"""
import re
import sys

pid = sys.argv[1]
txt = open("lean/MlVerif/Gen/%s.lean" % pid).read()
defs = re.findall(r'def (shape\w+) : String :=\n  "((?:[^"\\]|\\.)*)"', txt)
print("/-- the functions the hand-written model transcribes have, in the current source, the control skeleton (tests, loop\n"
      "headers, kinds of statements and the names they bind) they had when the model was written and validated: no branch,\n"
      "loop, early exit or rebinding has been added that the model does not describe -/")
print("theorem modelled_functions_have_the_transcribed_shape :")
lines = []
for name, val in defs:
    lines.append('    Gen.%s.%s =\n      "%s"' % (pid, name, val))
print(" ∧\n".join(lines) + " :=")
print("  ⟨" + ", ".join(["rfl"] * len(defs)) + "⟩")
