"""Regenerate every lean/MlVerif/Gen/*.lean from /repo's working tree (all properties)."""
import importlib
import os
import sys
import traceback

HARNESS = os.path.dirname(os.path.abspath(__file__))
sys.path.insert(0, HARNESS)
import core  # noqa: E402

rc = 0
for fn in sorted(os.listdir(os.path.join(HARNESS, "props"))):
    if not (fn.startswith("c") and fn.endswith(".py")):
        continue
    mod = importlib.import_module("props." + fn[:-3])
    if hasattr(mod, "extract"):
        try:
            ctx = core.Ctx(mod.ID, "quick", 0)
            with core.LakeLock():
                ch = core.write_gen(core.extract_files(mod, ctx))
            print("regen %s: %s" % (mod.ID, ch or "unchanged"))
        except Exception:
            traceback.print_exc()
            rc = 1
sys.exit(rc)
