"""Common machinery of every check: regenerate Gen/*.lean, build and audit the proofs, run
the correspondence through the Lean driver, run the failing-input search, decide the
verdict, match known findings, write evidence and replay files.

A property module ``harness/props/cXX.py`` provides

  ID             "CXX"
  LEAN_TARGETS   lake targets to build (property file last)
  PROPERTY_FILE  "MlVerif/Properties/CXX.lean"  (theorem names are read from it)
  DRIVER         "Drivers/CXX.lean" or None
  TRUSTED        list of strings (trusted base specific to the property)
  def extract(ctx) -> {relative lean path: content}           (optional)
  def correspond(ctx) -> Corr                                  (model vs implementation)
  def search(ctx, hints) -> [Violation]                        (oracle from the statement, real code)
  def replay(ctx, data) -> [Violation]                         (re-run one recorded input)
"""
import fcntl
import hashlib
import json
import os
import random
import re
import subprocess
import sys
import time
import traceback

HARNESS = os.path.dirname(os.path.abspath(__file__))
VERIF = os.path.dirname(HARNESS)
LEAN = os.path.join(VERIF, "lean")
REPO = os.environ.get("VERIF_REPO", "/repo")
ALLOWED_AXIOMS = {"propext", "Classical.choice", "Quot.sound"}
FORBIDDEN = re.compile(
    r"\bsorry\b|\badmit\b|^\s*axiom\s|native_decide|bv_decide|implemented_by|\bunsafe\s|"
    r"maxHeartbeats\s+0\b|\bextern\b")


class Violation:
    """A failing input found on the REAL code by an oracle written from the property."""

    def __init__(self, key, what, input=None, observed=None, required=None):
        self.key = key            # stable identity of the failing call site / input class
        self.what = what
        self.input = input
        self.observed = observed
        self.required = required

    def to_json(self):
        return {"key": self.key, "what": self.what, "input": self.input,
                "observed": self.observed, "required": self.required}


class Corr:
    """Result of a correspondence run."""

    def __init__(self):
        self.evaluations = 0
        self.nontrivial = set()       # distinct non-trivial case keys
        self.samples = []
        self.disagreements = []       # dicts {op, input, model, impl}
        self.histogram = {}
        self.rule = ""
        self.errors = []              # harness-level failures (driver crashed, ...)

    def case(self, key, nontrivial=True, sample=None):
        self.evaluations += 1
        if nontrivial:
            self.nontrivial.add(key)
        if sample is not None and len(self.samples) < 6:
            self.samples.append(sample)

    def hit(self, name, k=1):
        self.histogram[name] = self.histogram.get(name, 0) + k

    def disagree(self, op, input, model, impl):
        if len(self.disagreements) < 50:
            self.disagreements.append({"op": op, "input": input, "model": model, "impl": impl})
        self.hit("DISAGREE")


class Ctx:
    def __init__(self, pid, tier, seed):
        self.pid = pid
        self.tier = tier
        self.seed = seed
        self.rng = random.Random((seed * 1000003) ^ int(hashlib.sha256(pid.encode()).hexdigest()[:8], 16))
        self.repo = REPO
        self.t0 = time.time()
        self.notes = []

    @property
    def thorough(self):
        return self.tier == "thorough"

    def pick(self, quick, thorough):
        return thorough if self.thorough else quick

    def source(self, rel):
        with open(os.path.join(self.repo, rel), "r", encoding="utf-8") as f:
            return f.read()

    def shadow(self, need_cython=False):
        sys.path.insert(0, HARNESS) if HARNESS not in sys.path else None
        import shadow
        return shadow.build(need_cython=need_cython)


# ----------------------------------------------------------------------------------------
# Lean side
# ----------------------------------------------------------------------------------------

class LakeLock:
    def __enter__(self):
        os.makedirs(os.path.join(VERIF, ".cache"), exist_ok=True)
        self.f = open(os.path.join(VERIF, ".cache", "lake.lock"), "w")
        fcntl.flock(self.f, fcntl.LOCK_EX)
        return self

    def __exit__(self, *a):
        fcntl.flock(self.f, fcntl.LOCK_UN)
        self.f.close()


def write_gen(files):
    """Write regenerated Lean files if their content changed.  Returns list of changed paths."""
    changed = []
    for rel, content in files.items():
        path = os.path.join(LEAN, rel)
        old = None
        if os.path.exists(path):
            with open(path, "r", encoding="utf-8") as f:
                old = f.read()
        if old != content:
            os.makedirs(os.path.dirname(path), exist_ok=True)
            tmp = path + ".tmp%d" % os.getpid()
            with open(tmp, "w", encoding="utf-8") as f:
                f.write(content)
            os.replace(tmp, path)
            changed.append(rel)
    return changed


def extract_files(mod, ctx):
    """`mod.extract(ctx)` plus, when the property module declares SHAPES = [(lean name, file, function)], the control
    skeletons (extract/shape.py) of the functions its hand-written model transcribes, appended to its Gen file."""
    files = mod.extract(ctx)
    spec = getattr(mod, "SHAPES", None)
    if spec:
        from extract import shape
        rel = "MlVerif/Gen/%s.lean" % mod.ID
        end = "end MlVerif.Gen.%s" % mod.ID
        txt = files[rel]
        i = txt.rindex(end)
        files[rel] = txt[:i] + shape.lean_defs_from_source(ctx, spec) + "\n" + txt[i:]
    return files


def lake_build(targets, timeout=1500):
    p = subprocess.run(["lake", "build"] + list(targets), cwd=LEAN, stdout=subprocess.PIPE,
                       stderr=subprocess.STDOUT, text=True, timeout=timeout)
    return p.returncode == 0, p.stdout


def strip_comments(text):
    text = re.sub(r"/-.*?-/", lambda m: "\n" * m.group(0).count("\n"), text, flags=re.S)
    return "\n".join(l.split("--", 1)[0] for l in text.split("\n"))


def lean_sources_of(targets):
    out = []
    for t in targets:
        rel = t.replace(".", "/") + ".lean"
        if os.path.exists(os.path.join(LEAN, rel)):
            out.append(rel)
    return out


def transitive_sources(rels):
    """Property file + every MlVerif module it (transitively) imports."""
    seen, todo = [], list(rels)
    while todo:
        r = todo.pop()
        if r in seen:
            continue
        seen.append(r)
        try:
            with open(os.path.join(LEAN, r), encoding="utf-8") as f:
                txt = f.read()
        except OSError:
            continue
        for m in re.findall(r"^import\s+(MlVerif[\w.]*)", txt, flags=re.M):
            todo.append(m.replace(".", "/") + ".lean")
    return seen


def forbidden_hits(rels):
    hits = []
    for r in rels:
        try:
            with open(os.path.join(LEAN, r), encoding="utf-8") as f:
                txt = strip_comments(f.read())
        except OSError:
            continue
        for i, line in enumerate(txt.split("\n"), 1):
            if FORBIDDEN.search(line):
                hits.append("%s:%d: %s" % (r, i, line.strip()[:120]))
    return hits


def property_theorems(prop_file):
    """Names of all theorems stated in the property file (fully qualified)."""
    with open(os.path.join(LEAN, prop_file), encoding="utf-8") as f:
        txt = strip_comments(f.read())
    names, ns = [], []
    for line in txt.split("\n"):
        m = re.match(r"^\s*namespace\s+(\S+)", line)
        if m:
            ns.append(m.group(1))
            continue
        m = re.match(r"^\s*end\s+(\S+)", line)
        if m and ns and ns[-1].split(".")[-1] == m.group(1).split(".")[-1]:
            ns.pop()
            continue
        m = re.match(r"^\s*(?:@\[[^\]]*\]\s*)?(?:private\s+|protected\s+)?theorem\s+(\S+)", line)
        if m:
            names.append(".".join(ns + [m.group(1)]))
    n_examples = len(re.findall(r"^\s*example\b", txt, flags=re.M))
    return names, n_examples


def audit(pid, module, theorems):
    """`#print axioms` for every property theorem; returns {name: [axioms]} / None on failure."""
    path = os.path.join(LEAN, ".audit_%s_%d.lean" % (pid, os.getpid()))
    with open(path, "w") as f:
        f.write("import %s\n" % module)
        for t in theorems:
            f.write("#print axioms %s\n" % t)
    try:
        p = subprocess.run(["lake", "env", "lean", path], cwd=LEAN, stdout=subprocess.PIPE,
                           stderr=subprocess.STDOUT, text=True, timeout=900)
    finally:
        os.unlink(path)
    res = {}
    out = p.stdout
    # messages: "'name' depends on axioms: [a, b]" or "'name' does not depend on any axioms"
    flat = re.sub(r"\s+", " ", out)
    for t in theorems:
        m = re.search(r"'%s' depends on axioms: \[([^\]]*)\]" % re.escape(t), flat)
        if m:
            res[t] = [a.strip() for a in m.group(1).split(",") if a.strip()]
            continue
        if re.search(r"'%s' does not depend on any axioms" % re.escape(t), flat):
            res[t] = []
            continue
        res[t] = None
    return res, out


def run_driver(driver, lines, timeout=1500):
    """Pipe `lines` to `lake env lean --run <driver>`; returns list of output lines."""
    data = "\n".join(lines) + "\n"
    p = subprocess.run(["lake", "env", "lean", "--run", driver], cwd=LEAN, input=data,
                       stdout=subprocess.PIPE, stderr=subprocess.PIPE, text=True, timeout=timeout)
    out = p.stdout.split("\n")
    if out and out[-1] == "":
        out.pop()
    if p.returncode != 0 or len(out) != len(lines):
        raise RuntimeError("driver %s failed (rc=%s, %d lines in, %d out): %s"
                           % (driver, p.returncode, len(lines), len(out),
                              (p.stderr or p.stdout)[-1500:]))
    return out


# ----------------------------------------------------------------------------------------
# known findings, evidence, replays
# ----------------------------------------------------------------------------------------

def load_known(pid):
    path = os.path.join(VERIF, "known_findings.json")
    if not os.path.exists(path):
        return []
    with open(path) as f:
        data = json.load(f)
    return [e for e in data.get("entries", []) if e.get("property") == pid and e.get("status") == "finding"]


def write_replay(pid, payload):
    os.makedirs(os.path.join(VERIF, "replays"), exist_ok=True)
    blob = json.dumps(payload, sort_keys=True, default=str, indent=1)
    dig = hashlib.sha256(blob.encode()).hexdigest()[:12]
    rel = "replays/%s-%s.json" % (pid, dig)
    with open(os.path.join(VERIF, rel), "w") as f:
        f.write(blob)
    return rel


def write_evidence(pid, ev):
    os.makedirs(os.path.join(VERIF, "evidence"), exist_ok=True)
    path = os.path.join(VERIF, "evidence", pid + ".json")
    tmp = path + ".tmp%d" % os.getpid()
    with open(tmp, "w") as f:
        json.dump(ev, f, indent=1, sort_keys=True, default=str)
    os.replace(tmp, path)


# ----------------------------------------------------------------------------------------
# main flow
# ----------------------------------------------------------------------------------------

def run_check(mod, tier, seed, replay_path=None):
    pid = mod.ID
    ctx = Ctx(pid, tier, seed)
    t0 = time.time()

    if replay_path:
        with open(replay_path) as f:
            data = json.load(f)
        vs = []
        for item in data.get("violations", []) or [data]:
            try:
                vs += mod.replay(ctx, item)
            except Exception:
                traceback.print_exc()
                print("replay raised (see above)")
                return 2
        for v in vs:
            print("REPLAY-FAILS property=%s key=%s: %s observed=%s required=%s"
                  % (pid, v.key, v.what, v.observed, v.required))
        if not vs:
            print("REPLAY-PASSES property=%s: the recorded input no longer fails" % pid)
        return 1 if vs else 0

    broken = []          # obligations / correspondences that no longer check
    proof = {"obligations": 0, "discharged": 0, "theorems": {}, "examples": 0}

    # 1. regenerate Gen/*.lean from the working tree
    gen_changed = []
    with LakeLock():
        if hasattr(mod, "extract"):
            try:
                files = extract_files(mod, ctx)
                gen_changed = write_gen(files)
            except Exception as e:
                broken.append({"kind": "extractor", "name": "extract(%s)" % pid,
                               "detail": "%s: %s" % (type(e).__name__, e)})
        # 2. prove
        ok, log = lake_build(mod.LEAN_TARGETS)
    build_log_tail = log[-3000:]
    srcs = transitive_sources([mod.PROPERTY_FILE] + lean_sources_of(mod.LEAN_TARGETS))
    hits = forbidden_hits(srcs)
    try:
        theorems, n_examples = property_theorems(mod.PROPERTY_FILE)
    except OSError:
        theorems, n_examples = [], 0
    proof["obligations"] = len(theorems)
    proof["examples"] = n_examples
    if not ok:
        failed = sorted(set(re.findall(r"error: ([^\n]*)", log)))[:8]
        broken.append({"kind": "proof", "name": "lake build " + " ".join(mod.LEAN_TARGETS),
                       "detail": failed or build_log_tail[-800:]})
    if hits:
        broken.append({"kind": "proof-hygiene", "name": "forbidden construct", "detail": hits[:10]})
    if ok:
        module = mod.PROPERTY_FILE[:-5].replace("/", ".")
        axs, alog = audit(pid, module, theorems)
        for t in theorems:
            a = axs.get(t)
            proof["theorems"][t] = a
            if a is None:
                broken.append({"kind": "proof", "name": t, "detail": "#print axioms failed"})
            elif not set(a) <= ALLOWED_AXIOMS:
                broken.append({"kind": "proof", "name": t,
                               "detail": "non-standard axioms: %s" % sorted(set(a) - ALLOWED_AXIOMS)})
            else:
                proof["discharged"] += 1
        if tier == "thorough" and not os.environ.get("VERIF_SKIP_LEANCHECKER"):
            mods = [s[:-5].replace("/", ".") for s in srcs]
            p = subprocess.run(["lake", "env", "leanchecker"] + mods, cwd=LEAN,
                               stdout=subprocess.PIPE, stderr=subprocess.STDOUT, text=True,
                               timeout=3000)
            proof["leanchecker"] = {"modules": mods, "rc": p.returncode, "tail": p.stdout[-400:]}
            if p.returncode != 0:
                broken.append({"kind": "proof", "name": "leanchecker", "detail": p.stdout[-800:]})

    # 3. correspondence
    corr = Corr()
    try:
        corr = mod.correspond(ctx) or corr
    except Exception as e:
        corr.errors.append("%s: %s\n%s" % (type(e).__name__, e, traceback.format_exc()[-1500:]))
    if corr.errors:
        broken.append({"kind": "correspondence", "name": "correspond(%s)" % pid,
                       "detail": corr.errors[:3]})
    if corr.disagreements:
        broken.append({"kind": "correspondence", "name": "model-vs-implementation(%s)" % pid,
                       "detail": corr.disagreements[:5]})

    # 4. failing-input search on the real code (always; larger budget when something broke)
    ctx.broken = broken
    violations, search_stats = [], {}
    try:
        try:
            r = mod.search(ctx, corr.disagreements)
        except Exception as e1:  # noqa: BLE001
            if not corr.disagreements:
                raise
            # the inputs on which model and implementation disagreed are only hints: a hint the oracle cannot digest
            # must not cost the search - run it again without them (recorded in the evidence)
            ctx.search_retry = "%s: %s" % (type(e1).__name__, str(e1)[:200])
            r = mod.search(ctx, [])
        if isinstance(r, tuple):
            violations, search_stats = r
        else:
            violations = r
        if getattr(ctx, "search_retry", None):
            search_stats = dict(search_stats or {}, search_restarted_without_hints=ctx.search_retry)
    except Exception as e:
        broken.append({"kind": "search", "name": "search(%s)" % pid,
                       "detail": "%s: %s\n%s" % (type(e).__name__, e, traceback.format_exc()[-1500:])})

    # 5. verdict
    known = load_known(pid)
    new_v, known_v = [], []
    for v in violations:
        k = next((e for e in known if e.get("key") == v.key), None)
        (known_v if k else new_v).append((v, k))
    printed = set()
    for v, k in known_v:
        if k["key"] not in printed:
            printed.add(k["key"])
            print("KNOWN-FINDING: property=%s %s" % (pid, k.get("what", v.what)))
    # obligations explicitly tied to a known finding do not count as broken
    known_obl = {n for e in known for n in e.get("obligations", [])}
    broken_eff = [b for b in broken if b["name"] not in known_obl]
    rc = 0
    replay_rel = None
    if new_v:
        payload = {"property": pid, "seed": seed, "tier": tier,
                   "violations": [v.to_json() for v, _ in new_v[:10]],
                   "broken": broken_eff}
        replay_rel = write_replay(pid, payload)
        print("VIOLATION property=%s replay=%s" % (pid, replay_rel))
        for v, _ in new_v[:5]:
            print("  - [%s] %s | observed=%s required=%s" % (v.key, v.what, str(v.observed)[:200],
                                                           str(v.required)[:200]))
        rc = 1
    elif broken_eff:
        payload = {"property": pid, "seed": seed, "tier": tier, "violations": [],
                   "no_longer_checks": broken_eff,
                   "note": "no failing input found on the implementation; the property is "
                           "no longer shown to hold"}
        replay_rel = write_replay(pid, payload)
        print("VIOLATION property=%s replay=%s no-failing-input-found" % (pid, replay_rel))
        for b in broken_eff[:5]:
            print("  - %s %s: %s" % (b["kind"], b["name"], str(b["detail"])[:400]))
        rc = 1

    # 6. evidence
    wall = time.time() - t0
    cov = {
        "obligations": proof["obligations"],
        "discharged": proof["discharged"],
        "checker_cmd": "cd lean && lake build %s && lake env lean <#print axioms of every "
                       "theorem of %s>%s" % (" ".join(mod.LEAN_TARGETS), mod.PROPERTY_FILE,
                                             " && lake env leanchecker <modules>" if tier == "thorough" else ""),
        "trusted_base": ["Lean 4.33.0 kernel; axioms allowed: propext, Classical.choice, Quot.sound",
                         "harness/extract (Python ast -> Lean) and the hand-written models, validated by the correspondence run below",
                         "shadow build of /repo working tree + sklearn.utils._joblib shim"] + list(getattr(mod, "TRUSTED", [])),
        "theorems": proof["theorems"],
        "nonvacuity_examples": proof["examples"],
        "gen_files_changed_this_run": gen_changed,
        "evaluations": corr.evaluations + int(search_stats.get("evaluations", 0)),
        "distinct_nontrivial": len(corr.nontrivial) + int(search_stats.get("distinct_nontrivial", 0)),
        "correspondence_evaluations": corr.evaluations,
        "correspondence_distinct_nontrivial": len(corr.nontrivial),
        "rule": corr.rule or getattr(mod, "RULE", ""),
        "samples": corr.samples or search_stats.get("samples", []) or ["(no case generated)"],
        "input_distribution": corr.histogram,
        "search": search_stats,
        "disagreements_checked": len(corr.disagreements),
        "broken": broken,
        "known_findings_seen": sorted(printed),
    }
    if "leanchecker" in proof:
        cov["leanchecker"] = proof["leanchecker"]
    if proof["discharged"] < 1 or proof["discharged"] != proof["obligations"]:
        # the proof-level keys are only claimed when every obligation is discharged; otherwise the
        # run is reported through the exploration-style counts (and as a violation)
        cov["obligations_total"] = cov.pop("obligations")
        cov["obligations_discharged"] = cov.pop("discharged")
    ev = {
        "property_id": pid, "tier": tier, "seed": seed, "level": "proof",
        "coverage": cov,
        "assumptions": list(getattr(mod, "ASSUMPTIONS", [])),
        "wall_s": round(wall, 2),
        "violations": len(new_v) + (1 if (not new_v and broken_eff) else 0),
    }
    if replay_rel:
        ev["coverage"]["replay"] = replay_rel
    write_evidence(pid, ev)
    print("%s %s tier=%s seed=%d: theorems %d/%d, corr %d cases (%d distinct non-trivial, %d "
          "disagreements), search %s, %.1fs"
          % ("OK" if rc == 0 else "FAIL", pid, tier, seed, proof["discharged"], proof["obligations"],
             corr.evaluations, len(corr.nontrivial), len(corr.disagreements),
             search_stats.get("evaluations", "-"), wall))
    return rc
