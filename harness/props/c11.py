"""C11 — ExtendedFeatures generates exactly scikit-learn's polynomial features."""
import ast
import itertools

from core import Corr, Violation, run_driver
from extract import pyexpr

ID = "C11"
#: functions the hand-written model transcribes: their control skeleton (extract/shape.py) is regenerated into
#: Gen/C11.lean and compared with the literal in Properties/C11.lean (`modelled_functions_have_the_transcribed_shape`)
SHAPES = [
    ("shapeTransformIall", "mlinsights/mlmodel/_extended_features_polynomial.py", "_transform_iall"),
    ("shapeTransformIonly", "mlinsights/mlmodel/_extended_features_polynomial.py", "_transform_ionly"),
    ("shapeCombinationsPoly", "mlinsights/mlmodel/_extended_features_polynomial.py", "_combinations_poly"),
    ("shapeFitPoly", "mlinsights/mlmodel/extended_features.py", "ExtendedFeatures._fit_poly"),
    ("shapeTransformPoly", "mlinsights/mlmodel/extended_features.py", "ExtendedFeatures._transform_poly"),
    ("shapeFeatureNamesPoly", "mlinsights/mlmodel/extended_features.py", "ExtendedFeatures._get_feature_names_poly"),
    ("shapeFit", "mlinsights/mlmodel/extended_features.py", "ExtendedFeatures.fit"),
    ("shapeTransform", "mlinsights/mlmodel/extended_features.py", "ExtendedFeatures.transform"),
    ("shapeGetFeatureNamesOut", "mlinsights/mlmodel/extended_features.py", "ExtendedFeatures.get_feature_names_out"),
    ("shapeTransformPolySlow", "mlinsights/mlmodel/extended_features.py", "ExtendedFeatures._transform_poly_slow", "full"),
]
SRC_POLY = "mlinsights/mlmodel/_extended_features_polynomial.py"
SRC_EXT = "mlinsights/mlmodel/extended_features.py"
LEAN_TARGETS = ["MlVerif.Gen.C11", "MlVerif.Model.Poly", "MlVerif.Model.Itertools", "MlVerif.Lemmas.Poly",
                "MlVerif.Lemmas.PolyGen", "MlVerif.Lemmas.PolyLoops", "MlVerif.Lemmas.PolyNames",
                "MlVerif.Lemmas.PolyCount", "MlVerif.Lemmas.Itertools", "MlVerif.Properties.C11"]
PROPERTY_FILE = "MlVerif/Properties/C11.lean"
DRIVER = "Drivers/C11.lean"
TRUSTED = [
    "numpy basic slicing XP[:, a:b] (views, clipping), numpy.multiply(A, B, out=C) row-wise with width check, "
    "X[:, comb].prod(1)",
    "itertools: CPython's C implementations of combinations / combinations_with_replacement are assumed to behave "
    "as the 'roughly equivalent' reference algorithms of the Python documentation. Those two algorithms (index "
    "list advanced in place inside `while True:`, the early returns for r > n and for an empty pool) are "
    "transcribed statement by statement in Model/Itertools.lean and PROVED to yield the lexicographic lists of "
    "the specification for every pool and r; the transcription is validated on every run against the real "
    "itertools (identity, shifted, repeated-value and random pools, r up to beyond n)",
    "scikit-learn: PolynomialFeatures._combinations (10 lines: comb selection, start = max(1, min_degree), "
    "chain.from_iterable over range(start, max_degree + 1), bias prepended) and the two assignments of fit "
    "(_min_degree = 0, _max_degree = degree) are transcribed by hand in Model/Itertools.lean - not regenerated "
    "from scikit-learn's source - and `spec_is_sklearn_combinations` proves the transcription equal to `polySpec` "
    "for all n, degree, flags; the transcription is compared on every run with the real static method "
    "(also with min_degree > 0) and with the public powers_. That transform() multiplies exactly the columns "
    "_combinations enumerates is scikit-learn's own code path (dense, non-CSR), exercised by the search, not modelled",
    "feature names are modelled as lists of whitespace-free tokens: str.split() undoes ' '.join for such tokens; "
    "Python `sorted` on str is code-point lexicographic order (Lean String order)",
    "real numbers stand in for floats: `column_is_product` is over any commutative monoid, so it says nothing "
    "about rounding; the numeric comparison uses integer / dyadic matrices on which float products are exact",
]
ASSUMPTIONS = [
    "degree = 0 with include_bias = False: PolynomialFeatures.fit refuses that configuration (ValueError), so it "
    "is excluded from the comparisons that need a fitted PolynomialFeatures (powers_, transform); the static "
    "_combinations accepts it and is compared there too (it yields nothing); the theorems cover it (zero columns "
    "on both sides, `sklearn_rejected_configuration_is_empty`)",
    "degree is a non-negative integer (the only form ExtendedFeatures has); scikit-learn's degree=(min, max) form "
    "is covered by `sklearn_combinations_min_max` but has no counterpart in ExtendedFeatures",
    "n_features = 0 is rejected by check_array in both libraries; the theorems cover n = 0, the end-to-end "
    "comparison starts at n = 1 (the recurrences themselves are driven with n = 0 too)",
    "'names each column by the monomial it contains' is read as: the name parses to the multiset of variables of "
    "the column's monomial (exponent = multiplicity); equality with scikit-learn's *string* is not required "
    "(mlinsights sorts tokens as strings, so 'x10' precedes 'x2' when n > 10)",
    "input feature names are distinct, non-empty and free of whitespace and '^'",
    "integer input: ExtendedFeatures keeps X.dtype (int64 products wrap on overflow) whereas PolynomialFeatures "
    "converts to float64; this is machine arithmetic, outside 'real input matrices' - compared matrices have "
    "entries whose products stay far below 2^53",
]
RULE = ("one case per (n, degree, interaction_only, include_bias) and operation: the real _transform_iall / "
        "_transform_ionly driven with an object array of monomial tuples and a symbolic multiply vs the model's "
        "column list; _combinations_poly vs the model; the raw and processed feature names vs the model; one "
        "integer row through ExtendedFeatures.transform vs the model over Int; Lean polySpec and the Lean "
        "transcription of sklearn's _combinations (over the transcribed itertools algorithms) vs the real "
        "PolynomialFeatures._combinations / powers_ (also with min_degree > 0); the transcribed "
        "itertools.combinations / combinations_with_replacement vs the real ones for every pool size 0..nmax and "
        "r = 0..dmax+1 on four pools. Non-trivial = n >= 2 and degree >= 2 (the block recurrence "
        "runs at least one multiply step); distinct = distinct (op, configuration)")
LEVEL_TEXT = ("Machine-checked for every n, degree, interaction_only, include_bias: both block recurrences "
              "(including the early break and the shrinking index list) write exactly the specification's "
              "monomials in order without any index/shape error, every column is the product of its monomial's "
              "input columns over any commutative monoid (hence for every real matrix), poly-slow enumerates the "
              "same list, names and n_output_features_ agree with the columns. Also machine-checked for every n, "
              "degree and flags: the specification is exactly what scikit-learn's PolynomialFeatures._combinations "
              "yields when itertools.combinations / combinations_with_replacement are the reference algorithms of "
              "the Python documentation (no IndexError, termination within the fuel, lexicographic order), hence "
              "the recurrences write scikit-learn's columns in scikit-learn's order. Partial: those reference "
              "algorithms and the 10-line _combinations are hand transcriptions, validated on every run against "
              "the real itertools and the real static method rather than derived from their sources.")
LEVEL_NOTE = "; ".join(TRUSTED)
TECHNIQUE = ("Lean 4 proof (induction over variables and degrees with a block invariant on the index list; "
             "successor-linked-list argument for the itertools index algorithms) + AST-regenerated index expressions "
             "+ differential correspondence with a symbolic multiply callback and with the real itertools")


# ------------------------------------------------------------------------------ extractor

ENV = """/-- the local variables the index expressions of the three recurrences range over -/
structure Env where
  degree : Int := 0
  n : Int := 0
  d : Int := 0
  i : Int := 0
  pos : Int := 0
  end_ : Int := 0
  a : Int := 0
  dec : Int := 0
  newPos : Int := 0
  sub0 : Int := 0
  sub1 : Int := 0
  lenNames : Int := 0
  io : Bool := false
  bias : Bool := false
"""

BASE_TABLE = {
    "degree": ("v.degree", "int"), "n": ("v.n", "int"), "d": ("v.d", "int"), "i": ("v.i", "int"),
    "pos": ("v.pos", "int"), "end": ("v.end_", "int"), "a": ("v.a", "int"), "dec": ("v.dec", "int"),
    "new_pos": ("v.newPos", "int"),
}


class TrX(pyexpr.Tr):
    """pyexpr.Tr + conditional expressions whose test is a boolean variable of the table."""

    def expr(self, node):
        if isinstance(node, ast.IfExp) and ast.unparse(node) not in self.table:
            c, tc = self.expr(node.test)
            a, ta = self.expr(node.body)
            b, tb = self.expr(node.orelse)
            if tc == "bool" and ta == tb == "int":
                return "(if %s then %s else %s)" % (c, a, b), "int"
            return self.unknown(node)
        return super().expr(node)


def _unk_int(why):
    return '(MlVerif.Gen.unknownInt "%s")' % why.replace('"', "'")


def _unk_bool(why):
    return '(MlVerif.Gen.unknownBool "%s")' % why.replace('"', "'")


class _Defs:
    def __init__(self):
        self.items = []          # (name, type, term, source comment)

    def int(self, name, tr, node, why=None):
        if node is None:
            self.items.append((name, "Int", _unk_int(why or name + ": not found"), "?"))
        else:
            self.items.append((name, "Int", tr.int_expr(node), ast.unparse(node)))

    def bool(self, name, tr, node, why=None):
        if node is None:
            self.items.append((name, "Bool", _unk_bool(why or name + ": not found"), "?"))
            return
        t, ty = tr.expr(node)
        if ty != "bool":
            t = _unk_bool(ast.unparse(node))
        self.items.append((name, "Bool", t, ast.unparse(node)))

    def text(self, ns):
        out = ["namespace %s" % ns]
        for name, ty, term, src in self.items:
            out.append("/-- `%s` -/" % src.replace("-/", "- /"))
            out.append("def %s (v : Env) : %s := %s" % (name, ty, term))
        out.append("end %s" % ns)
        return "\n".join(out) + "\n"


def _range_args(call):
    """(lo, hi) AST nodes of range(...) or (None, None)."""
    if isinstance(call, ast.Call) and ast.unparse(call.func) == "range" and not call.keywords:
        if len(call.args) == 1:
            return ast.Constant(0), call.args[0]
        if len(call.args) == 2:
            return call.args[0], call.args[1]
    return None, None


def _for_loop(node, var):
    for n in ast.walk(node):
        if isinstance(n, ast.For) and isinstance(n.target, ast.Name) and n.target.id == var:
            return n
    return None


def _index_subs(expr):
    """Subscripts `index[...]` inside expr, left to right, distinct by text."""
    found = []

    class V(ast.NodeVisitor):
        def visit_Subscript(self, n):
            if isinstance(n.value, ast.Name) and n.value.id == "index":
                if ast.unparse(n) not in [ast.unparse(f) for f in found]:
                    found.append(n)
            else:
                self.generic_visit(n)
    V().visit(expr)
    return found


def _slice2(sub):
    """XP[:, lo:hi] -> (lo, hi) nodes, else (None, None)."""
    if isinstance(sub, ast.Subscript) and isinstance(sub.slice, ast.Tuple) and len(sub.slice.elts) == 2:
        first, sl = sub.slice.elts
        if isinstance(first, ast.Slice) and first.lower is None and first.upper is None and \
                isinstance(sl, ast.Slice) and sl.step is None and sl.lower is not None and sl.upper is not None:
            return sl.lower, sl.upper
    return None, None


def _single_assign(fn, name):
    xs = pyexpr.assignments(fn, name)
    return xs[0].value if len(xs) == 1 else None


def _transform_defs(fn, with_dec):
    tr = TrX(dict(BASE_TABLE))
    D = _Defs()
    # bias: `if bias: XP[:, 0] = 1; pos = 1 else: pos = 0`
    pb = pn = None
    for st in fn.body:
        if isinstance(st, ast.If) and ast.unparse(st.test) == "bias":
            for s in st.body:
                if isinstance(s, ast.Assign) and ast.unparse(s.targets[0]) == "pos":
                    pb = s.value
            for s in st.orelse:
                if isinstance(s, ast.Assign) and ast.unparse(s.targets[0]) == "pos":
                    pn = s.value
    D.int("posBias", tr, pb)
    D.int("posNoBias", tr, pn)
    fd = _for_loop(fn, "d")
    lo, hi = _range_args(fd.iter) if fd is not None else (None, None)
    D.int("degLo", tr, lo)
    D.int("degHi", tr, hi)
    top = fd.body[0] if fd is not None and fd.body and isinstance(fd.body[0], ast.If) else None
    D.bool("isInit", tr, top.test if top is not None else None)
    init = ast.Module(body=top.body, type_ignores=[]) if top is not None else ast.Module(body=[], type_ignores=[])
    rest = ast.Module(body=top.orelse, type_ignores=[]) if top is not None else ast.Module(body=[], type_ignores=[])
    # init branch
    dl = dh = il = ih = inc = None
    for s in init.body:
        if isinstance(s, ast.Assign) and isinstance(s.targets[0], ast.Subscript) and \
                ast.unparse(s.targets[0].value) == "XP" and ast.unparse(s.value) == "X":
            dl, dh = _slice2(s.targets[0])
        if isinstance(s, ast.Assign) and ast.unparse(s.targets[0]) == "index" and isinstance(s.value, ast.Call) \
                and ast.unparse(s.value.func) == "list" and len(s.value.args) == 1:
            il, ih = _range_args(s.value.args[0])
        if isinstance(s, ast.AugAssign) and ast.unparse(s.target) == "pos" and isinstance(s.op, ast.Add):
            inc = s.value
    D.int("initDstLo", tr, dl)
    D.int("initDstHi", tr, dh)
    D.int("initIdxLo", tr, il)
    D.int("initIdxHi", tr, ih)
    D.int("initPosInc", tr, inc)
    # later degrees
    e = _single_assign(rest, "end")
    D.int("endSub", tr, e.slice if isinstance(e, ast.Subscript) and ast.unparse(e.value) == "index" else None)
    fi = _for_loop(rest, "i")
    lo, hi = _range_args(fi.iter) if fi is not None else (None, None)
    D.int("varLo", tr, lo)
    D.int("varHi", tr, hi)
    body = fi if fi is not None else ast.Module(body=[], type_ignores=[])
    a = _single_assign(body, "a")
    D.int("aSub", tr, a.slice if isinstance(a, ast.Subscript) and ast.unparse(a.value) == "index" else None)
    if with_dec:
        dec = _single_assign(body, "dec")
        subs = _index_subs(dec) if dec is not None else []
        if dec is not None and len(subs) == 2:
            D.int("decSub0", tr, subs[0].slice)
            D.int("decSub1", tr, subs[1].slice)
            t2 = dict(BASE_TABLE)
            t2[ast.unparse(subs[0])] = ("v.sub0", "int")
            t2[ast.unparse(subs[1])] = ("v.sub1", "int")
            D.int("dec", TrX(t2), dec)
        else:
            for nm in ("decSub0", "decSub1", "dec"):
                D.int(nm, tr, None, "dec: expected two index[...] subscripts")
    D.int("newPos", tr, _single_assign(body, "new_pos"))
    if with_dec:
        br = None
        for s in ast.walk(body):
            if isinstance(s, ast.If) and len(s.body) == 1 and isinstance(s.body[0], ast.Break) and not s.orelse:
                br = s.test
        D.bool("breakCond", tr, br)
    mc = pyexpr.calls(body, "multiply")
    sl = [(None, None)] * 3
    if len(mc) == 1 and len(mc[0].args) == 3 and not mc[0].keywords:
        args = mc[0].args
        if ast.unparse(getattr(args[0], "value", args[0])) == "XP" and \
                ast.unparse(getattr(args[1], "value", args[1])) == "X" and \
                ast.unparse(getattr(args[2], "value", args[2])) == "XP":
            sl = [_slice2(x) for x in args]
    for nm, (lo, hi) in zip(("src", "col", "dst"), sl):
        D.int(nm + "Lo", tr, lo)
        D.int(nm + "Hi", tr, hi)
    return D


def _names_defs(fn):
    table = dict(BASE_TABLE)
    table.update({"self.poly_degree": ("v.degree", "int"), "len(names)": ("v.lenNames", "int"),
                  "interaction_only": ("v.io", "bool")})
    tr = TrX(table)
    D = _Defs()
    fd = _for_loop(fn, "d")
    lo, hi = _range_args(fd.iter) if fd is not None else (None, None)
    D.int("degLo", tr, lo)
    D.int("degHi", tr, hi)
    top = fd.body[0] if fd is not None and fd.body and isinstance(fd.body[0], ast.If) else None
    D.bool("isInit", tr, top.test if top is not None else None)
    init = ast.Module(body=top.body if top is not None else [], type_ignores=[])
    rest = ast.Module(body=top.orelse if top is not None else [], type_ignores=[])
    il = ih = None
    ok_pos = False
    for s in init.body:
        if isinstance(s, ast.Assign) and ast.unparse(s.targets[0]) == "pos":
            ok_pos = ast.unparse(s.value) == "len(names)"
        if isinstance(s, ast.Assign) and ast.unparse(s.targets[0]) == "index" and isinstance(s.value, ast.Call) \
                and ast.unparse(s.value.func) == "list" and len(s.value.args) == 1:
            il, ih = _range_args(s.value.args[0])
    if not ok_pos:
        il = None
    D.int("initIdxLo", tr, il, "pos = len(names) not found")
    D.int("initIdxHi", tr, ih)
    e = _single_assign(rest, "end")
    D.int("endSub", tr, e.slice if isinstance(e, ast.Subscript) and ast.unparse(e.value) == "index" else None)
    fi = _for_loop(rest, "i")
    lo, hi = _range_args(fi.iter) if fi is not None else (None, None)
    D.int("varLo", tr, lo)
    D.int("varHi", tr, hi)
    body = fi if fi is not None else ast.Module(body=[], type_ignores=[])
    a = _single_assign(body, "a")
    D.int("aSub", tr, a.slice if isinstance(a, ast.Subscript) and ast.unparse(a.value) == "index" else None)
    st = _single_assign(body, "start")
    # the comprehension `[a + " " + input_features[i] for a in names[start:end]]`
    comp = None
    for n in ast.walk(body):
        if isinstance(n, ast.ListComp) and len(n.generators) == 1:
            comp = n
    src_hi = name_sub = None
    slice_ok = False
    if comp is not None:
        it = comp.generators[0].iter
        if isinstance(it, ast.Subscript) and ast.unparse(it.value) == "names" and isinstance(it.slice, ast.Slice) \
                and it.slice.step is None and it.slice.lower is not None and it.slice.upper is not None:
            slice_ok = ast.unparse(it.slice.lower) == "start"
            src_hi = it.slice.upper
        for n in ast.walk(comp.elt):
            if isinstance(n, ast.Subscript) and ast.unparse(n.value) == "input_features":
                name_sub = n.slice
    subs = _index_subs(st) if st is not None else []
    if st is not None and len(subs) == 2 and slice_ok:
        D.int("startSub0", tr, subs[0].slice)
        D.int("startSub1", tr, subs[1].slice)
        t2 = dict(table)
        t2[ast.unparse(subs[0])] = ("v.sub0", "int")
        t2[ast.unparse(subs[1])] = ("v.sub1", "int")
        D.int("start", TrX(t2), st)
    else:
        for nm in ("startSub0", "startSub1", "start"):
            D.int(nm, tr, None, "start: expected names[start:end] and two index[...] subscripts")
    D.int("srcHi", tr, src_hi)
    D.int("nameSub", tr, name_sub)
    return D


def _slow_defs(tree):
    """`_combinations_poly`: comb selection, `start = int(not include_bias)`, `range(start, degree + 1)`."""
    fn = pyexpr.find_function(tree, "_combinations_poly")
    table = dict(BASE_TABLE)
    table.update({"include_bias": ("v.bias", "bool"), "interaction_only": ("v.io", "bool"),
                  "n_features": ("v.n", "int"), "int(not include_bias)": ("(if v.bias then (0 : Int) else (1 : Int))", "int")})
    D = _Defs()
    # which itertools function each local name denotes
    alias = {}
    for st in tree.body:
        if isinstance(st, ast.ImportFrom) and st.module == "itertools":
            for a in st.names:
                alias[a.asname or a.name] = a.name
    comb = _single_assign(fn, "comb")
    term = None
    if isinstance(comb, ast.IfExp) and ast.unparse(comb.test) == "interaction_only" and \
            isinstance(comb.body, ast.Name) and isinstance(comb.orelse, ast.Name):
        kinds = (alias.get(comb.body.id), alias.get(comb.orelse.id))
        if kinds == ("combinations", "combinations_with_replacement"):
            term = "v.io"
        elif kinds == ("combinations_with_replacement", "combinations"):
            term = "(! v.io)"
    D.items.append(("combIo", "Bool", term or _unk_bool("comb selection not recognised"),
                    ast.unparse(comb) if comb is not None else "?"))
    start = _single_assign(fn, "start")
    t2 = dict(table)
    if start is not None:
        t2["start"] = (TrX(table).int_expr(start), "int")
    tr = TrX(t2)
    lo = hi = None
    gens = [n for n in ast.walk(fn) if isinstance(n, ast.GeneratorExp)]
    if len(gens) == 1 and len(gens[0].generators) == 1 and not gens[0].generators[0].ifs:
        g = gens[0]
        var = ast.unparse(g.generators[0].target)
        if ast.unparse(g.elt) == "comb(range(n_features), %s)" % var:
            lo, hi = _range_args(g.generators[0].iter)
    D.int("start", tr, lo, "generator `comb(range(n_features), i) for i in range(...)` not found")
    D.int("rangeHi", tr, hi, "generator `comb(range(n_features), i) for i in range(...)` not found")
    return D


def _slow_fill_defs(tree):
    """`ExtendedFeatures._transform_poly_slow`: the output is allocated with one row per input row and filled by ONE
    loop over the enumerated combinations whose only statement writes the WHOLE column (`XP[:, i] = X[:, comb].prod(1)`).
    Anything else (row blocks, masks, extra statements in the loop) is not classified."""
    D = _Defs()
    fn = pyexpr.find_function(tree, "ExtendedFeatures._transform_poly_slow")
    why = None
    body = [st for st in fn.body if not (isinstance(st, ast.Expr) and isinstance(st.value, ast.Constant))]
    loops = [st for st in body if isinstance(st, (ast.For, ast.While))]
    nested = [n for st in body for n in ast.walk(st) if isinstance(n, (ast.For, ast.While, ast.ListComp, ast.GeneratorExp))]
    alloc = _single_assign(fn, "XP")
    if len(loops) != 1 or len(nested) != 1 or not isinstance(loops[0], ast.For):
        why = "not exactly one loop"
    else:
        lp = loops[0]
        if ast.unparse(lp.target) != "(i, comb)" or ast.unparse(lp.iter) != "enumerate(comb)" or lp.orelse:
            why = "loop header is not `for i, comb in enumerate(comb)`"
        elif len(lp.body) != 1 or ast.unparse(lp.body[0]) != "XP[:, i] = X[:, comb].prod(1)":
            why = "loop body is not the single whole-column statement: " + "; ".join(ast.unparse(b) for b in lp.body)[:80]
        elif body.index(lp) != len(body) - 2 or ast.unparse(body[-1]) != "return XP":
            why = "statements between the loop and `return XP`"
        elif alloc is None or not ast.unparse(alloc).startswith("numpy.empty((X.shape[0], self.n_output_features_)"):
            why = "XP is not allocated as numpy.empty((X.shape[0], self.n_output_features_), ...)"
        elif ast.unparse(_single_assign(fn, "comb") or ast.Constant(0)) != \
                "_combinations_poly(X.shape[1], self.poly_degree, self.poly_interaction_only, include_bias=self.poly_include_bias)":
            why = "comb is not _combinations_poly(X.shape[1], degree, interaction_only, include_bias=include_bias)"
    D.items.append(("wholeColumns", "Bool", "true" if why is None else _unk_bool(why),
                    "for i, comb in enumerate(comb): XP[:, i] = X[:, comb].prod(1)"))
    return D


def extract(ctx):
    t1 = ast.parse(ctx.source(SRC_POLY))
    t2 = ast.parse(ctx.source(SRC_EXT))
    iall = _transform_defs(pyexpr.find_function(t1, "_transform_iall"), with_dec=False)
    ionly = _transform_defs(pyexpr.find_function(t1, "_transform_ionly"), with_dec=True)
    names = _names_defs(pyexpr.find_function(t2, "ExtendedFeatures._get_feature_names_poly"))
    body = (pyexpr.HEADER + "import MlVerif.Gen.Base\nset_option linter.unusedVariables false\n"
            "namespace MlVerif.Gen.C11\nopen MlVerif.Gen\n\n" + ENV + "\n"
            + iall.text("Iall") + "\n" + ionly.text("Ionly") + "\n" + names.text("Names") + "\n"
            + _slow_defs(t1).text("Slow") + _slow_fill_defs(t2).text("SlowFill")
            + "\nend MlVerif.Gen.C11\n")
    return {"MlVerif/Gen/C11.lean": body}


# ------------------------------------------------------------------------------ helpers

def fmt_monos(ms):
    ms = list(ms)
    if not ms:
        return "[]"
    return ";".join(",".join(str(v) for v in m) if len(m) else "-" for m in ms)


def symbolic_run(fn, n, degree, bias, ncols):
    """Drive the real `_transform_iall/_ionly` with monomial tuples; returns (canonical string, n_multiply)."""
    import numpy
    XP = numpy.empty((1, ncols), dtype=object)
    X = numpy.empty((1, n), dtype=object)
    for i in range(n):
        X[0, i] = (i,)
    calls = []

    def multiply(A, B, C):
        if A.shape[1] != C.shape[1] or B.shape != (1, 1) or A.shape[0] != 1:
            raise ValueError("operands could not be broadcast together (symbolic multiply) %r %r %r"
                             % (A.shape, B.shape, C.shape))
        calls.append(A.shape[1])
        for k in range(A.shape[1]):
            C[0, k] = B[0, 0] + A[0, k]

    try:
        out = fn(degree, bias, XP, X, multiply, lambda z: z)
    except Exception as e:  # canonical error kind
        return "raises:" + type(e).__name__, len(calls)
    cols = []
    for k in range(out.shape[1]):
        v = out[0, k]
        if v is None:
            return "unwritten-column:%d" % k, len(calls)
        cols.append(() if (isinstance(v, int) and v == 1) else tuple(v))
    return fmt_monos(cols), len(calls)


def sk_monomials(n, degree, io, bias):
    """scikit-learn's columns as sorted variable lists, from the public powers_."""
    import numpy
    from sklearn.preprocessing import PolynomialFeatures
    pf = PolynomialFeatures(degree=degree, interaction_only=io, include_bias=bias).fit(numpy.zeros((1, n)))
    out = []
    for row in pf.powers_:
        m = []
        for v, e in enumerate(row):
            m += [v] * int(e)
        out.append(tuple(m))
    return out


def b(x):
    return "1" if x else "0"


def configs(ctx, nmax, dmax):
    for n in range(0, nmax + 1):
        for degree in range(0, dmax + 1):
            for io in (False, True):
                for bias in (False, True):
                    yield n, degree, io, bias


def parse_name(name, feats):
    """'x0^2 x1' -> exponent vector; '1' -> zeros; None if it does not parse."""
    vec = [0] * len(feats)
    if name == "1":
        return vec
    pos = {f: i for i, f in enumerate(feats)}
    for tok in name.split(" "):
        if "^" in tok:
            base, _, ex = tok.partition("^")
            if not ex.isdigit():
                return None
            ex = int(ex)
        else:
            base, ex = tok, 1
        if base not in pos or vec[pos[base]] != 0:
            return None
        vec[pos[base]] = ex
    return vec


# ------------------------------------------------------------------------------ correspondence

def correspond(ctx):
    ctx.shadow(need_cython=True)
    import numpy
    from mlinsights.mlmodel import _extended_features_polynomial as P
    from mlinsights.mlmodel.extended_features import ExtendedFeatures
    from sklearn.preprocessing import PolynomialFeatures
    corr = Corr()
    corr.rule = RULE
    rng = ctx.rng
    nmax, dmax = ctx.pick((7, 6), (10, 8))
    lines, expect = [], []

    def add(line, op, inp, impl, nontrivial, sample=False):
        lines.append(line)
        expect.append((op, inp, impl))
        corr.case((op,) + tuple(inp), nontrivial,
                  sample={"op": line, "impl": impl[:160]} if sample else None)

    # n >= 11: 'x10' sorts before 'x2' in process_name (string order), exercised on the names ops
    extras = [(n, d, io, bias) for n, d in ((11, 2), (12, 2), (12, 3)) for io in (False, True)
              for bias in (False, True)]
    for n, degree, io, bias in list(configs(ctx, nmax, dmax)) + extras:
        cfg = (n, degree, io, bias)
        nt = n >= 2 and degree >= 2
        if n >= 11:
            corr.hit("n>=11 (multi-digit names)")
        corr.hit("io" if io else "all")
        corr.hit("degree>n" if degree > n else "degree<=n")
        sample = cfg in ((3, 3, True, True), (2, 3, False, True))
        # number of columns the real transform allocates: n_output_features_ (n = 0 is refused by check_array)
        ext = ExtendedFeatures(kind="poly", poly_degree=degree, poly_interaction_only=io, poly_include_bias=bias)
        if n >= 1:
            ext.fit(numpy.zeros((1, n)))
            ncols = ext.n_output_features_
        else:
            ncols = int(bias)
        fn = P._transform_ionly if io else P._transform_iall
        got, ncalls = symbolic_run(fn, n, degree, bias, ncols)
        add("%s %d %d %s" % ("ionly" if io else "iall", n, degree, b(bias)), "transform", cfg, got, nt, sample)
        corr.hit("multiply_calls=0" if ncalls == 0 else "multiply_calls>0")
        # _combinations_poly
        slow = fmt_monos(P._combinations_poly(n, degree, io, bias))
        add("slow %d %d %s %s" % (n, degree, b(io), b(bias)), "combinations_poly", cfg, slow, nt)
        # the Lean transcription of sklearn's _combinations (over the transcribed itertools algorithms) vs the
        # REAL static method (itertools in C), for every configuration incl. n = 0 and the one fit() refuses
        if hasattr(PolynomialFeatures, "_combinations"):
            real = list(PolynomialFeatures._combinations(n, 0, degree, io, bias))
            add("sklearn %d %d %s %s" % (n, degree, b(io), b(bias)), "sklearn-transcription-vs-real._combinations",
                cfg, fmt_monos(real), nt, cfg == (3, 3, True, True))
            corr.hit("sklearn._combinations:empty" if not real else "sklearn._combinations:nonempty")
            if degree >= 1:
                lo = 1 + (n + degree) % degree        # some min_degree in 1..degree
                real = list(PolynomialFeatures._combinations(n, lo, degree, io, bias))
                add("sklearnmm %d %d %d %s %s" % (n, lo, degree, b(io), b(bias)),
                    "sklearn-transcription-vs-real._combinations[min_degree]", cfg + (lo,), fmt_monos(real),
                    nt and lo >= 2)
        else:
            corr.hit("sklearn._combinations:missing")
        # scikit-learn vs the Lean specification
        if n >= 1 and not (degree == 0 and not bias):
            sk = sk_monomials(n, degree, io, bias)
            add("spec %d %d %s %s" % (n, degree, b(io), b(bias)), "spec-vs-sklearn.powers_", cfg, fmt_monos(sk), nt)
            add("sklearn %d %d %s %s" % (n, degree, b(io), b(bias)), "sklearn-transcription-vs-sklearn.powers_", cfg,
                fmt_monos(sk), nt)
            if hasattr(PolynomialFeatures, "_combinations"):
                sk2 = list(PolynomialFeatures._combinations(n, 0, degree, io, bias))
                add("spec %d %d %s %s" % (n, degree, b(io), b(bias)), "spec-vs-sklearn._combinations", cfg,
                    fmt_monos(sk2), nt)
        # feature names and one integer row (sizes kept moderate: names are long strings)
        if n >= 1 and ncols <= ctx.pick(2000, 12000):
            feats = ["x%d" % i for i in range(n)] if (n + degree) % 2 == 0 or n > 10 else \
                ["f%s" % "abcdefghijk"[i] for i in range(n)]
            names = list(ext.get_feature_names_out(feats))
            add("names %d %d %s %s %s" % (n, degree, b(io), b(bias), ",".join(feats)), "feature_names", cfg,
                "|".join(names) if names else "-", nt, cfg == (2, 2, False, True))
            corr.hit("names_custom" if feats[0] != "x0" else "names_default")
            row = [rng.randint(-3, 3) for _ in range(n)]
            for kind in ("poly", "poly-slow"):
                e2 = ExtendedFeatures(kind=kind, poly_degree=degree, poly_interaction_only=io,
                                      poly_include_bias=bias)
                X = numpy.array([row], dtype=numpy.int64)
                try:
                    out = e2.fit(X).transform(X)
                    impl = ",".join(str(int(v)) for v in out[0]) if out.shape[1] else "-"
                except Exception as e:
                    impl = "raises:" + type(e).__name__
                add("vals %d %d %s %s %s" % (n, degree, b(io), b(bias), ",".join(map(str, row))),
                    "transform[%s]" % kind, cfg + (tuple(row),), impl, nt)
    # the transcribed itertools reference algorithms vs the real itertools, on explicit pools: identity
    # (range(n), what sklearn passes), shifted, with repeated values (itertools works by position), random
    for n in range(0, nmax + 1):
        pools = [("range", list(range(n))), ("shifted", [3 * i + 1 for i in range(n)]),
                 ("repeats", [i // 2 for i in range(n)]), ("random", [rng.randint(0, 99) for _ in range(n)])]
        for r in range(0, dmax + 2):
            for pname, pool in pools:
                if n == 0 and pname != "range":
                    continue
                txt = ",".join(map(str, pool)) if pool else "-"
                for op, fn in (("itcomb", itertools.combinations), ("itcwr", itertools.combinations_with_replacement)):
                    real = list(fn(pool, r))
                    add("%s %s %d" % (op, txt, r), "itertools-transcription:" + op, (pname, n, r, tuple(pool)),
                        fmt_monos(real), n >= 2 and r >= 2 and len(real) >= 2,
                        (op, pname, n, r) in (("itcomb", "shifted", 4, 2), ("itcwr", "repeats", 3, 2)))
                    corr.hit("%s:%s" % (op, "r>n" if r > n else "n=0" if n == 0 else "r=0" if r == 0 else
                                        "one-tuple" if len(real) == 1 else "many"))
    out = run_driver(DRIVER, lines)
    for (op, inp, impl), got in zip(expect, out):
        if got != impl:
            corr.disagree(op, list(inp), got[:300], impl[:300])
    return corr


# ------------------------------------------------------------------------------ search (oracle from the statement)

def _check_config(n, degree, io, bias, X, flag="bool"):
    """Compare ExtendedFeatures with PolynomialFeatures on matrix X; returns [(key, what, observed, required)].
    `flag`: how the two boolean options are passed (Python bool, numpy.bool_ as a parameter grid built from an
    array yields, or 0/1)."""
    import numpy
    conv = {"bool": bool, "numpy": numpy.bool_, "int": int}[flag]
    from mlinsights.mlmodel.extended_features import ExtendedFeatures
    from sklearn.preprocessing import PolynomialFeatures
    bad = []
    pf = PolynomialFeatures(degree=degree, interaction_only=io, include_bias=bias)
    ref = numpy.asarray(pf.fit_transform(X))
    for kind in ("poly", "poly-slow"):
        site = "ExtendedFeatures[%s,%s]" % (kind, "interaction_only" if io else "all")
        ext = ExtendedFeatures(kind=kind, poly_degree=degree, poly_interaction_only=conv(io), poly_include_bias=conv(bias))
        try:
            out = numpy.asarray(ext.fit(X).transform(X))
        except Exception as e:
            bad.append((site + ".transform:raises", "transform raises %s" % type(e).__name__,
                        "%s: %s" % (type(e).__name__, e), "the %d columns of PolynomialFeatures" % ref.shape[1]))
            continue
        if ext.n_output_features_ != ref.shape[1] or out.shape != ref.shape:
            bad.append((site + ".n_output_features_", "number of output columns",
                        [int(ext.n_output_features_), list(out.shape)], list(ref.shape)))
            continue
        if not (out.astype(float) == ref.astype(float)).all():   # inputs are exact: products are exact
            r, j = (int(v) for v in numpy.argwhere(out.astype(float) != ref.astype(float))[0])
            bad.append((site + ".transform:column-differs", "column %d differs from PolynomialFeatures (first at row %d of %d)"
                        % (j, r, X.shape[0]), out[r:r + 8, j].tolist(), ref[r:r + 8, j].tolist()))
        feats = ["x%d" % i for i in range(n)]
        try:
            names = list(ext.get_feature_names_out())
        except Exception as e:
            bad.append((site + ".get_feature_names_out:raises", "raises", "%s: %s" % (type(e).__name__, e),
                        "one name per column"))
            continue
        if len(names) != ref.shape[1]:
            bad.append((site + ".get_feature_names_out:count", "number of names", len(names), ref.shape[1]))
            continue
        for j, (nm, pw) in enumerate(zip(names, pf.powers_)):
            if parse_name(nm, feats) != [int(v) for v in pw]:
                bad.append((site + ".get_feature_names_out:name-monomial",
                            "name of column %d does not denote the monomial in it" % j, nm,
                            "exponents %s" % [int(v) for v in pw]))
                break
        # fitted on a matrix of one storage type, used on another (counts at fit, ratios at transform and the reverse):
        # the features of the matrix GIVEN to transform, as PolynomialFeatures computes them
        if (X == numpy.round(X)).all():
            Xi, Xf = X.astype(numpy.int64), X.astype(float) * 0.5 + 0.25
            for a, b, tag in ((Xi, Xf, "fit int64, transform float64"), (Xf.astype(numpy.float32), Xf, "fit float32, transform float64"),
                              (Xf, Xi, "fit float64, transform int64")):
                try:
                    got = numpy.asarray(ExtendedFeatures(kind=kind, poly_degree=degree, poly_interaction_only=conv(io),
                                                         poly_include_bias=conv(bias)).fit(a).transform(b), dtype=float)
                    want = numpy.asarray(PolynomialFeatures(degree=degree, interaction_only=io, include_bias=bias).fit(a)
                                         .transform(b), dtype=float)
                except Exception as e:  # noqa: BLE001
                    bad.append((site + ".transform:raises:other-dtype-than-fit", "transform raises on a matrix of another "
                                "dtype than the one given to fit (%s)" % tag, "%s: %s" % (type(e).__name__, e), "the features"))
                    break
                if got.shape != want.shape or not numpy.array_equal(got, want):
                    bad.append((site + ".transform:column-differs:other-dtype-than-fit", "transform of a matrix whose dtype "
                                "differs from the one given to fit (%s) is not PolynomialFeatures'" % tag,
                                got[:2].tolist(), want[:2].tolist()))
                    break
        # the caller's own feature names (tokens that contain one another, default-like names in another order)
        for custom in (["a", "ab", "b", "x1", "x0", "max1", "min1", "x10", "c", "x2", "x11", "d"][:n],
                       [chr(ord("a") + i) for i in range(n)],
                       ["x%d" % (n - 1 - i) for i in range(n)]):
            if len(set(custom)) != n:
                continue
            try:
                cn = list(ext.get_feature_names_out(custom))
            except Exception as e:
                bad.append((site + ".get_feature_names_out:raises", "raises with input_features=%r" % (custom,),
                            "%s: %s" % (type(e).__name__, e), "one name per column"))
                break
            wrong = len(cn) != ref.shape[1]
            for j, (nm, pw) in enumerate(zip(cn, pf.powers_)):
                if parse_name(nm, custom) != [int(v) for v in pw]:
                    wrong = True
                    break
            if wrong:
                bad.append((site + ".get_feature_names_out:name-monomial:custom-names",
                            "with input_features=%r a column name does not denote the monomial in the column" % (custom,),
                            cn[:12], "names of the monomials %s" % [[int(v) for v in pw] for pw in pf.powers_[:6]]))
                break
    return bad


def _check_refit(n, kind, c1, c2, X):
    """fit under configuration c1, set_params to c2, fit again on data of the same width: must equal PolynomialFeatures(c2)"""
    import numpy
    from mlinsights.mlmodel.extended_features import ExtendedFeatures
    from sklearn.preprocessing import PolynomialFeatures
    site = "ExtendedFeatures[%s]:refit-after-set_params" % kind
    ref = numpy.asarray(PolynomialFeatures(degree=c2[0], interaction_only=c2[1], include_bias=c2[2]).fit_transform(X))
    ext = ExtendedFeatures(kind=kind, poly_degree=c1[0], poly_interaction_only=c1[1], poly_include_bias=c1[2])
    try:
        ext.fit(X).transform(X)
        ext.set_params(poly_degree=c2[0], poly_interaction_only=c2[1], poly_include_bias=c2[2])
        out = numpy.asarray(ext.fit(X).transform(X))
    except Exception as e:  # noqa: BLE001
        return [(site + ":raises", "refit after set_params raises", "%s: %s" % (type(e).__name__, str(e)[:120]),
                 "the features of the new configuration")]
    bad = []
    # a result already returned must not change when transform is called again on another batch of the same shape
    try:
        X2 = X + 1
        first = numpy.asarray(ext.transform(X))
        keep = first.copy()
        ext.transform(X2)
        if not numpy.array_equal(first, keep):
            bad.append(("ExtendedFeatures[%s]:earlier-result-overwritten" % kind,
                        "the matrix returned by transform changes when transform is called again",
                        first.tolist(), keep.tolist()))
    except Exception:  # noqa: BLE001
        pass
    if ext.n_output_features_ != ref.shape[1]:
        bad.append((site + ":n_output_features_", "n_output_features_ after a refit is not the number of columns",
                    int(ext.n_output_features_), int(ref.shape[1])))
    if out.shape != ref.shape or not numpy.array_equal(out, ref):
        bad.append((site + ":matrix-differs", "transform after a refit differs from PolynomialFeatures",
                    out.tolist(), ref.tolist()))
    return bad


def _matrix(rng, n, rows, kind):
    import numpy
    if kind == "int":
        return numpy.array([[rng.randint(-3, 3) for _ in range(n)] for _ in range(rows)], dtype=numpy.int64)
    # dyadic floats with one fractional bit: every product of <= 8 factors is exact in binary64
    return numpy.array([[rng.randint(-6, 6) / 2.0 for _ in range(n)] for _ in range(rows)], dtype=float)


#: row counts around the block sizes a vectorised implementation would use ("all input matrices" includes tall ones)
TALL_ROWS = (255, 257, 1023, 1025, 2047, 2049, 4095, 4097, 8191, 8193, 10000, 16385)


WIDE = ((1025, False), (1026, True), (1024, False), (1025, True), (2049, False), (1027, True))


def _check_wide(n, io):
    """"every number of input columns": a wide table (more columns than the block sizes a vectorised implementation
    would use), degree 2, two rows; values of kind 'poly' against PolynomialFeatures (exact integer products)"""
    import numpy
    from mlinsights.mlmodel.extended_features import ExtendedFeatures
    from sklearn.preprocessing import PolynomialFeatures
    X = _tall(2, n, "int").astype(float)
    X[1] = X[1] + 1.0
    ref = numpy.asarray(PolynomialFeatures(degree=2, interaction_only=io, include_bias=True).fit_transform(X))
    site = "ExtendedFeatures[poly,%s]" % ("interaction_only" if io else "all")
    try:
        # the output buffer of `transform` is uninitialised memory: fill the allocator's free list with a recognisable
        # value first, so that a column the code never writes does not hold the right numbers by accident
        junk = numpy.full(ref.shape, 12345.0)
        del junk
        ext = ExtendedFeatures(kind="poly", poly_degree=2, poly_interaction_only=io, poly_include_bias=True)
        out = numpy.asarray(ext.fit(X).transform(X))
    except Exception as e:  # noqa: BLE001
        return [(site + ".transform:raises", "transform raises %s on %d input columns" % (type(e).__name__, n),
                 "%s: %s" % (type(e).__name__, e), "the %d columns of PolynomialFeatures" % ref.shape[1])]
    if out.shape != ref.shape or int(ext.n_output_features_) != ref.shape[1]:
        return [(site + ".n_output_features_", "number of output columns for %d input columns" % n,
                 [int(ext.n_output_features_), list(out.shape)], list(ref.shape))]
    neq = numpy.argwhere(~(out == ref))
    if len(neq):
        r, j = (int(v) for v in neq[0])
        return [(site + ".transform:column-differs", "column %d of %d differs from PolynomialFeatures for %d input columns "
                 "(%d cells differ)" % (j, ref.shape[1], n, len(neq)), out[:, j].tolist(), ref[:, j].tolist())]
    return []


def _tall(rows, n, kind):
    """deterministic exact matrix with `rows` rows (not stored in replays: rebuilt from (rows, n, kind))"""
    import numpy
    r = numpy.arange(rows).reshape(-1, 1)
    j = numpy.arange(n).reshape(1, -1)
    X = ((r * 7 + j * 3 + (r // 5)) % 7) - 3
    return X.astype(numpy.int64) if kind == "int" else X.astype(float) / 2.0


def search(ctx, hints):
    ctx.shadow(need_cython=True)
    rng = ctx.rng
    vs, evals, nontriv, samples = [], 0, set(), []
    for t, rows in enumerate(TALL_ROWS if ctx.thorough else TALL_ROWS[1::2]):
        n, degree = (2, 2) if t % 2 else (3, 3)
        for io, bias in ((False, True), (True, False)):
            kind = ("int", "float")[(t + io) % 2]
            bad = _check_config(n, degree, io, bias, _tall(rows, n, kind), "bool")
            evals += 1
            nontriv.add(("tall", rows, n, degree, io, bias, kind))
            for key, what, obs, req in bad:
                vs.append(Violation(key, what, {"n": n, "degree": degree, "interaction_only": io, "flag": "bool",
                                                "include_bias": bias, "X": [], "tall_rows": rows, "dtype": kind}, obs, req))
    for n, io in (WIDE if ctx.thorough else WIDE[:2]):
        evals += 1
        nontriv.add(("wide", n, io))
        for key, what, obs, req in _check_wide(n, io):
            vs.append(Violation(key, what, {"n": n, "degree": 2, "interaction_only": io, "include_bias": True, "X": [],
                                            "wide": True}, obs, req))
    todo = []
    # the configurations on which the correspondence disagreed come first
    for h in hints or []:
        inp = h.get("input") or []
        if len(inp) >= 4 and isinstance(inp[0], int) and inp[0] >= 1:
            todo.append((inp[0], inp[1], bool(inp[2]), bool(inp[3])))
    nmax, dmax = ctx.pick((6, 5), (9, 7))
    todo += [c for c in configs(ctx, nmax, dmax) if c[0] >= 1]
    seen = set()
    for n, degree, io, bias in todo:
        if (n, degree, io, bias) in seen or (degree == 0 and not bias):
            continue
        seen.add((n, degree, io, bias))
        for kind in ("int", "float"):
            rows = rng.randint(1, 3)
            X = _matrix(rng, n, rows, kind)
            flag = ("bool", "numpy", "int")[(n + degree + (kind == "float")) % 3]
            bad = _check_config(n, degree, io, bias, X, flag)
            evals += 1
            if n >= 2 and degree >= 2:
                nontriv.add((n, degree, io, bias, kind))
            if len(samples) < 2 and n == 2 and degree == 2:
                samples.append({"n": n, "degree": degree, "interaction_only": io, "include_bias": bias,
                                "X": X.tolist()})
            for key, what, obs, req in bad:
                vs.append(Violation(key, what, {"n": n, "degree": degree, "interaction_only": io, "flag": flag,
                                                "include_bias": bias, "X": X.tolist(), "dtype": kind}, obs, req))
    # histories: the SAME instance refitted after set_params (every configuration is reached through fit)
    for t in range(ctx.pick(40, 400)):
        n = rng.randint(1, 4)
        c1 = (rng.randint(1, 4), rng.random() < 0.5, rng.random() < 0.5)
        c2 = (rng.randint(1, 4), rng.random() < 0.5, rng.random() < 0.5)
        if c2[0] == 0 and not c2[2]:
            continue
        kind = ("poly", "poly-slow")[t % 2]
        X = _matrix(rng, n, rng.randint(1, 3), "int")
        bad = _check_refit(n, kind, c1, c2, X)
        evals += 1
        nontriv.add(("refit", n, kind, c1, c2))
        for key, what, obs, req in bad:
            vs.append(Violation(key, what, {"n": n, "degree": c2[0], "interaction_only": c2[1], "include_bias": c2[2],
                                            "X": X.tolist(), "dtype": "int", "refit_from": list(c1), "kind": kind},
                                obs, req))
    best = {}
    for v in vs:
        size = (v.input["n"] + v.input["degree"], v.input.get("tall_rows") or len(v.input["X"]))
        if v.key not in best or size < best[v.key][0]:
            best[v.key] = (size, v)
    return [v for _, v in best.values()], {"evaluations": evals, "distinct_nontrivial": len(nontriv),
                                           "samples": samples}


def replay(ctx, item):
    ctx.shadow(need_cython=True)
    import numpy
    inp = item["input"]
    if inp.get("wide"):
        return [Violation(k, w, inp, o, r) for k, w, o, r in _check_wide(inp["n"], inp["interaction_only"])]
    if inp.get("tall_rows"):
        X = _tall(inp["tall_rows"], inp["n"], inp.get("dtype", "int"))
    else:
        X = numpy.array(inp["X"], dtype=numpy.int64 if inp.get("dtype") == "int" else float)
        X = X.reshape(len(inp["X"]), inp["n"])
    if "refit_from" in inp:
        bad = _check_refit(inp["n"], inp["kind"], tuple(inp["refit_from"]),
                           (inp["degree"], inp["interaction_only"], inp["include_bias"]), X)
    else:
        bad = _check_config(inp["n"], inp["degree"], inp["interaction_only"], inp["include_bias"], X,
                            inp.get("flag", "bool"))
    best = {}
    for key, what, obs, req in bad:
        best.setdefault(key, Violation(key, what, inp, obs, req))
    return list(best.values())
