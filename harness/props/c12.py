"""C12 — tree utilities are faithful to the tree's decision function
(digitize2tree, tree_leave_index, tree_node_parents/tree_find_path_to_root, tree_node_range, predict_leaves)."""
import ast
from fractions import Fraction

from core import Corr, Violation, run_driver
from extract import pyexpr

ID = "C12"
#: functions the hand-written model transcribes: their control skeleton (extract/shape.py) is regenerated into
#: Gen/C12.lean and compared with the literal in Properties/C12.lean (`modelled_functions_have_the_transcribed_shape`)
SHAPES = [
    ("shapeDigitize2tree", "mlinsights/mltree/tree_digitize.py", "digitize2tree", "full"),
    ("shapeTreeLeaveIndex", "mlinsights/mltree/tree_structure.py", "tree_leave_index", "full"),
    ("shapeTreeNodeRange", "mlinsights/mltree/tree_structure.py", "tree_node_range"),
    ("shapePredictLeaves", "mlinsights/mltree/tree_structure.py", "predict_leaves", "full"),
    ("shapeTreeNodeParents", "mlinsights/mltree/tree_structure.py", "tree_node_parents"),
]
SRC_DIG = "mlinsights/mltree/tree_digitize.py"
SRC_STR = "mlinsights/mltree/tree_structure.py"
LEAN_TARGETS = ["MlVerif.Gen.C12", "MlVerif.Model.TreeStruct", "MlVerif.Model.Digitize",
                "MlVerif.Lemmas.Digitize", "MlVerif.Lemmas.TreeStruct", "MlVerif.Lemmas.DigitizeWF",
                "MlVerif.Properties.C12"]
PROPERTY_FILE = "MlVerif/Properties/C12.lean"
DRIVER = "Drivers/C12.lean"
KEY_F32 = "digitize2tree:float32-cast-of-x"
TRUSTED = [
    "scikit-learn's Tree: _add_node appends a node and hooks it under `parent` on the side `is_left` (so the call "
    "order of add_nodes numbers nodes in preorder); Tree.apply / decision_path descend with `X[feature] <= threshold` "
    "-> children_left, after casting X to float32; predict returns value[apply(x)]. The model's traversal `descend` "
    "and the preorder numbering `flatten` are transcriptions of that behaviour, validated against the real arrays, "
    "apply() and decision_path() on every run",
    "trees produced by scikit-learn's builders satisfy the well-formedness predicate WF (child id > parent id, one "
    "parent per node, every node reachable, split features < n_features, leaves carry -1/-1/-2); `wfb` is evaluated "
    "on every real tree of the correspondence run",
    "the float64 thresholds and the float32 value of x are treated as the exact rationals they denote (no rounding "
    "occurs in a comparison)",
    "numpy.digitize(x, bins, right=True) is #{k : bins[k] < x} for increasing and #{k : bins[k] >= x} for decreasing "
    "bins (its documented definition); numpy.argmax returns the first maximum; a Python dict keeps the last value "
    "assigned to a key",
]
ASSUMPTIONS = [
    "digitize_asc/digitize_desc are stated over the value the tree actually compares, float32(x): scikit-learn casts X "
    "to float32, so for an x that float32 rounding moves across a bin edge the prediction differs from "
    "numpy.digitize(x, bins) (known finding %s, not repairable inside mlinsights)" % KEY_F32,
    "x is a number within float32 range (scikit-learn rejects infinities); the proofs speak about finite x; x = NaN "
    "(which numpy.digitize places beyond the last edge and the tree routes by `missing_go_to_left`) is covered by the search only",
    "query points of the tree utilities are float32-representable (the box of tree_node_range is compared with the "
    "routing of the same values the tree sees)",
    "a feature without a row in the array returned by tree_node_range is read as unbounded (like a nan entry)",
    "'fitted tree' = a tree built by scikit-learn's builders (fit); hand-assembled or corrupted Tree objects are out "
    "of scope. In particular digitize2tree leaves tree_.max_depth = 0, so scikit-learn's decision_path (hence "
    "predict_leaves) writes out of bounds on its result; tree_leave_index/tree_node_range/apply are still compared on it",
]
RULE = ("digitize: every bins length 1..40 (thorough: ..120), both directions, strictly monotone dyadic edges; query "
        "values on every edge, between consecutive edges and beyond both ends; the five scikit-learn arrays and all "
        "predictions are compared with the model's preorder tree. trees: DecisionTreeRegressor/Classifier fitted on "
        "random small grids (1-4 features, depth-first and best-first builders, best/random splitter) -> arrays into "
        "the model -> wf, leaves, parents, apply, decision path, predict_leaves, path to root and box of every leaf and "
        "some split nodes, box membership of every point. Non-trivial = a tree with at least one split / bins of "
        "length >= 2; distinct = distinct (bins) or distinct node arrays")
LEVEL_TEXT = ("Lean 4 theorems, for every bins length >= 1, every strictly monotone bins (both directions) and every x: "
              "the tree built by the add_root/add_nodes recursion as the source writes it now (regenerated step "
              "function) evaluates to numpy.digitize(x, bins, right=True), also through scikit-learn's array form "
              "(preorder numbering + apply). For every well-formed array tree and every point: tree_leave_index lists "
              "exactly the leaves, predict_leaves equals apply, and a point is routed to leaf l iff it lies in "
              "tree_node_range(l). Tied to the source by the regenerated Gen/C12.lean and a differential run against "
              "the real Cython-built code.")
LEVEL_NOTE = ("scikit-learn's Tree (node insertion, apply, decision_path, float32 cast of X) is modelled, not verified; "
              "floats are the rationals they denote; the float32 cast of x is a known finding")
TECHNIQUE = ("Lean 4 proof (induction over the add_nodes recursion / over parent chains of array trees) + "
             "AST-regenerated step function + differential correspondence on the Cython build")


# ------------------------------------------------------------------------------ extractor

def _unk(msg):
    return 'Act.unknown "%s"' % msg.replace('"', "'").replace("\\", "/")[:160]


def _call_lean(tr, call):
    """add_nodes(n, a, b, Flag) -> Lean `Call` literal, or None."""
    if len(call.args) != 4 or call.keywords:
        return None
    flag = call.args[3]
    if not (isinstance(flag, ast.Constant) and isinstance(flag.value, bool)):
        return None
    return "⟨%s, %s, %s⟩" % (tr.int_expr(call.args[1]), tr.int_expr(call.args[2]), "true" if flag.value else "false")


def _branch_action(body, table, parent_name="n"):
    """Translate the body of one `if cond:` of add_nodes into a Lean `Act` term."""
    table = dict(table)
    src = "; ".join(ast.unparse(s) for s in body)
    appended, th_index, add = [], None, None
    rec, order = [], []
    if not body or not isinstance(body[-1], ast.Return):
        return _unk("branch does not end in return: " + src)
    for pos, st in enumerate(body[:-1]):
        tr = pyexpr.Tr(table)
        if isinstance(st, ast.Assign) and len(st.targets) == 1 and isinstance(st.targets[0], ast.Name):
            name, val = st.targets[0].id, st.value
            if name == "index":
                table["index"] = (tr.int_expr(val), "int")
                continue
            if name == "th":
                if isinstance(val, ast.Subscript) and ast.unparse(val.value) == "bins":
                    th_index = tr.int_expr(val.slice)
                    continue
                return _unk("th is not bins[...]: " + ast.unparse(st))
            if name == parent_name and isinstance(val, ast.Call) and ast.unparse(val.func) == "tree_add_node":
                a = val.args
                if len(a) != 10 or val.keywords or [ast.unparse(v) for v in a[:3]] != ["tree", "parent", "is_left"]:
                    return _unk("tree_add_node arguments: " + ast.unparse(st))
                if not (isinstance(a[3], ast.Constant) and isinstance(a[3].value, bool)):
                    return _unk("is_leaf not a constant: " + ast.unparse(st))
                if ast.unparse(a[4]) != "0" or ast.unparse(a[9]) != "0":
                    return _unk("feature/missing_go_to_left not 0: " + ast.unparse(st))
                add = (a[3].value, ast.unparse(a[5]))
                order.append(("add", pos))
                continue
            return _unk("assignment not understood: " + ast.unparse(st))
        if isinstance(st, ast.Expr) and isinstance(st.value, ast.Call):
            fn = ast.unparse(st.value.func)
            if fn == "values.append" and len(st.value.args) == 1:
                appended.append(st.value.args[0])
                continue
            if fn == "n_nodes.append":
                continue
            if fn == "add_nodes":
                if ast.unparse(st.value.args[0]) != parent_name:
                    return _unk("recursive call under another parent: " + ast.unparse(st))
                c = _call_lean(tr, st.value)
                if c is None:
                    return _unk("recursive call not understood: " + ast.unparse(st))
                rec.append(c)
                order.append(("rec", pos))
                continue
        return _unk("statement not understood: " + ast.unparse(st))
    if ast.unparse(body[-1].value) != parent_name or add is None or len(appended) != 1:
        return _unk("branch shape: " + src)
    if order and order[0][0] != "add":
        return _unk("recursive call before the node is added: " + src)
    is_leaf, th_arg = add
    tr = pyexpr.Tr(table)
    if is_leaf:
        if rec or ast.unparse(appended[0]) == "UNUSED":
            return _unk("leaf branch shape: " + src)
        return "Act.leaf %s" % tr.int_expr(appended[0])
    if ast.unparse(appended[0]) != "UNUSED" or len(rec) != 2 or th_arg != "th" or th_index is None:
        return _unk("split branch shape: " + src)
    return "Act.split %s %s %s" % (th_index, rec[0], rec[1])


def _if_chain(stmts, table):
    """[if c1: ..., if c2: ...] (each returning) -> nested Lean if; falls through to Act.raise."""
    out, n_open = "", 0
    for st in stmts:
        if not (isinstance(st, ast.If) and not st.orelse):
            return _unk("not a plain if: " + ast.unparse(st)[:80])
        cond, ty = pyexpr.Tr(table).expr(st.test)
        if ty != "bool":
            return _unk("condition: " + ast.unparse(st.test))
        out += "(if %s then %s else " % (cond, _branch_action(st.body, table))
        n_open += 1
    return out + "Act.raise" + ")" * n_open


GEN_HEAD = pyexpr.HEADER + """import MlVerif.Gen.Base
set_option linter.unusedVariables false
namespace MlVerif.Gen.C12
open MlVerif.Gen

/-- one recursive call `add_nodes(n, i, j, is_left)` -/
structure Call where
  i : Int
  j : Int
  isLeft : Bool
deriving Repr, DecidableEq

/-- what one activation of `add_nodes(parent, i, j, is_left)` does -/
inductive Act where
  /-- `tree_add_node(tree, parent, is_left, True, ...)` and `values.append(value)` -/
  | leaf (value : Int)
  /-- `values.append(UNUSED)`, `tree_add_node(..., False, 0, bins[thIndex], ...)`, then the two recursive calls in source order -/
  | split (thIndex : Int) (first second : Call)
  /-- no branch returns: `raise NotImplementedError` -/
  | raise
  /-- source the extractor cannot classify -/
  | unknown (src : String)
deriving Repr, DecidableEq

"""


def extract(ctx):
    tree = ast.parse(ctx.source(SRC_DIG))
    fn = pyexpr.find_function(tree, "digitize2tree")
    body = [s for s in fn.body if not (isinstance(s, ast.Expr) and isinstance(s.value, ast.Constant))]
    ubool = lambda m: '(MlVerif.Gen.unknownBool "%s")' % m  # noqa: E731
    uint = lambda m: '(MlVerif.Gen.unknownInt "%s")' % m  # noqa: E731

    # `if not right: raise RuntimeError`
    right_req = "false"
    if body and isinstance(body[0], ast.If) and ast.unparse(body[0].test) == "not right" \
            and len(body[0].body) == 1 and isinstance(body[0].body[0], ast.Raise):
        right_req = "true"
    # ascending
    asc = [s for s in body if isinstance(s, ast.Assign) and ast.unparse(s.targets[0]) == "ascending"]
    t_asc = {"len(bins)": ("n", "int"), "bins[0]": ("b0", "rat"), "bins[1]": ("b1", "rat")}
    if len(asc) == 1:
        asc_l, ty = pyexpr.Tr(t_asc).expr(asc[0].value)
        if ty != "bool":
            asc_l = ubool("ascending")
        asc_src = ast.unparse(asc[0].value)
    else:
        asc_l, asc_src = ubool("ascending: %d assignments" % len(asc)), "?"
    # descending branch
    desc = [s for s in body if isinstance(s, ast.If) and ast.unparse(s.test) == "not ascending"]
    rev, dval, dsrc = "false", uint("descending branch not found"), "?"
    if len(desc) == 1:
        d = desc[0]
        a2 = pyexpr.assignments(d, "bins2")
        c2 = pyexpr.calls(d, "digitize2tree")
        if len(a2) == 1 and ast.unparse(a2[0].value) == "bins[::-1]" and len(c2) == 1 \
                and ast.unparse(c2[0]) == "digitize2tree(bins2, right=right)":
            rev = "true"
        loops = [s for s in d.body if isinstance(s, ast.For)]
        nn = pyexpr.assignments(d, "n")
        if len(loops) == 1 and ast.unparse(loops[0].iter) == "range(cl.tree_.value.shape[0])" \
                and len(loops[0].body) == 1 and isinstance(loops[0].body[0], ast.Assign) \
                and ast.unparse(loops[0].body[0].targets[0]) == "cl.tree_.value[i, 0, 0]" \
                and len(nn) == 1 and ast.unparse(nn[0].value) == "len(bins)" \
                and isinstance(d.body[-1], ast.Return) and ast.unparse(d.body[-1].value) == "cl":
            t_d = {"n": ("n", "int"), "len(bins)": ("n", "int"), "cl.tree_.value[i, 0, 0]": ("v", "int")}
            dval = pyexpr.Tr(t_d).int_expr(loops[0].body[0].value)
            dsrc = ast.unparse(loops[0].body[0].value)
        else:
            dval = uint("descending remap loop not in the expected form")
    # root
    t_root = {"len(bins)": ("n", "int"), "index": ("index", "int")}
    idx = [s for s in body if isinstance(s, ast.Assign) and ast.unparse(s.targets[0]) == "index"]
    root_index = pyexpr.Tr({"len(bins)": ("n", "int")}).int_expr(idx[0].value) if len(idx) == 1 \
        else uint("index: %d assignments" % len(idx))
    top_calls = [s.value for s in body if isinstance(s, ast.Expr) and isinstance(s.value, ast.Call)]
    names = [ast.unparse(c.func) for c in top_calls]
    first = second = "⟨%s, %s, false⟩" % (uint("root calls"), uint("root calls"))
    if names == ["add_root", "add_nodes", "add_nodes"] and ast.unparse(top_calls[0]) == "add_root(index)" \
            and all(ast.unparse(c.args[0]) == "0" for c in top_calls[1:]):
        f1 = _call_lean(pyexpr.Tr(t_root), top_calls[1])
        f2 = _call_lean(pyexpr.Tr(t_root), top_calls[2])
        if f1 and f2:
            first, second = f1, f2
    add_root = pyexpr.find_function(fn, "add_root")
    asserts = [s for s in add_root.body if isinstance(s, ast.Assert)]
    if len(asserts) == 1:
        root_assert, ty = pyexpr.Tr(t_root).expr(asserts[0].test)
        if ty != "bool":
            root_assert = ubool("add_root assert")
    elif not asserts:
        root_assert = "true"
    else:
        root_assert = ubool("add_root: several asserts")
    th = pyexpr.assignments(add_root, "threshold")
    adds = pyexpr.calls(add_root, "tree_add_node")
    root_th = uint("add_root threshold")
    if len(th) == 1 and isinstance(th[0].value, ast.Subscript) and ast.unparse(th[0].value.value) == "bins" \
            and len(adds) == 1 and len(adds[0].args) == 10 \
            and [ast.unparse(a) for a in adds[0].args[:6]] == ["tree", "parent", "is_left", "is_leaf", "0", "threshold"] \
            and [ast.unparse(s.value) for s in pyexpr.assignments(add_root, "parent")] == ["-1"] \
            and [ast.unparse(s.value) for s in pyexpr.assignments(add_root, "is_leaf")] == ["False"]:
        root_th = pyexpr.Tr(t_root).int_expr(th[0].value.slice)
    # add_nodes
    add_nodes = pyexpr.find_function(fn, "add_nodes")
    t_an = {"i": ("i", "int"), "j": ("j", "int")}
    an_body = [s for s in add_nodes.body if not (isinstance(s, ast.Expr) and isinstance(s.value, ast.Constant))]
    if [a.arg for a in add_nodes.args.args] == ["parent", "i", "j", "is_left"] and len(an_body) == 2 \
            and isinstance(an_body[0], ast.If) and ast.unparse(an_body[0].test) == "is_left" \
            and isinstance(an_body[1], ast.Raise):
        an = "if isLeft then\n    %s\n  else\n    %s" % (_if_chain(an_body[0].body, t_an),
                                                          _if_chain(an_body[0].orelse, t_an))
    else:
        an = _unk("add_nodes is not `if is_left: ... else: ...; raise`")
    # tree_node_range: rows of the box
    tree2 = ast.parse(ctx.source(SRC_STR))
    tnr = pyexpr.find_function(tree2, "tree_node_range")
    res = pyexpr.assignments(tnr, "res")
    rows, rows_src, uses_mx = uint("tree_node_range: res"), "?", "false"
    if len(res) == 1 and isinstance(res[0].value, ast.Call) and ast.unparse(res[0].value.func) == "numpy.full" \
            and len(res[0].value.args) == 2 and isinstance(res[0].value.args[0], ast.Tuple) \
            and len(res[0].value.args[0].elts) == 2 and ast.unparse(res[0].value.args[0].elts[1]) == "2" \
            and ast.unparse(res[0].value.args[1]) == "numpy.nan":
        t_r = {"tree.n_features": ("nFeatures", "int")}
        mx = pyexpr.assignments(tnr, "mx")
        if len(mx) == 1 and ast.unparse(mx[0].value) == "max([tree.feature[p] for p in path])":
            t_r["mx"] = ("mx", "int")
            uses_mx = "true"
        elif mx:
            uses_mx = '(MlVerif.Gen.unknownBool "mx is not max([tree.feature[p] for p in path])")'
        rows = pyexpr.Tr(t_r).int_expr(res[0].value.args[0].elts[0])
        rows_src = ast.unparse(res[0].value.args[0].elts[0])
    text = GEN_HEAD + """/-- `if not right: raise RuntimeError` is the first statement of digitize2tree -/
def rightRequired : Bool := %s
/-- `ascending = %s` -/
def ascending (n : Int) (b0 b1 : Rat) : Bool := %s
/-- descending case: `bins2 = bins[::-1]`, recursive call `digitize2tree(bins2, right=right)` -/
def descReversesBins : Bool := %s
/-- descending case, for every node: `cl.tree_.value[i, 0, 0] = %s` with `n = len(bins)` -/
def descValue (n : Int) (v : Int) : Int := %s
/-- `index = len(bins) // 2` -/
def rootIndex (n : Int) : Int := %s
/-- add_root: the assert on `index` -/
def rootAssert (n index : Int) : Bool := %s
/-- add_root: `threshold = bins[...]` -/
def rootThIndex (index : Int) : Int := %s
/-- the two top-level `add_nodes(0, i, j, is_left)` calls, in source order -/
def rootFirst (n index : Int) : Call := %s
def rootSecond (n index : Int) : Call := %s

/-- body of `add_nodes(parent, i, j, is_left)` -/
def addNodes (i j : Int) (isLeft : Bool) : Act :=
  %s

/-- tree_node_range: number of rows of `res = numpy.full((%s, 2), numpy.nan)`;
`mx = max([tree.feature[p] for p in path])` (computed iff `boxUsesMx`), `nFeatures = tree.n_features` -/
def boxRows (mx nFeatures : Int) : Int := %s
def boxUsesMx : Bool := %s

end MlVerif.Gen.C12
""" % (right_req, asc_src, asc_l, rev, dsrc, dval, root_index, root_assert, root_th, first, second, an,
       rows_src, rows, uses_mx)
    return {"MlVerif/Gen/C12.lean": text}


# ------------------------------------------------------------------------------ helpers

def rat(v):
    fr = Fraction(float(v))
    return str(fr.numerator) if fr.denominator == 1 else "%d/%d" % (fr.numerator, fr.denominator)


def rats(vs):
    vs = list(vs)
    return ",".join(rat(v) for v in vs) if vs else "-"


def ints(vs):
    vs = list(vs)
    return ",".join(str(int(v)) for v in vs) if vs else "-"


def mat(rows):
    rows = list(rows)
    return ";".join(rats(r) for r in rows) if rows else "-"


def val_tok(v):
    import math
    if isinstance(v, float) and math.isnan(v):
        return "nan"
    return str(int(v)) if float(v) == int(v) else repr(float(v))


def tree_tokens(tr):
    return "%s %s %s %s" % (ints(tr.children_left), ints(tr.children_right), ints(tr.feature), rats(tr.threshold))


def gen_bins(rng, n, desc, denom=4):
    """strictly monotone, float32-representable (dyadic) edges"""
    vals = sorted(rng.sample(range(-3 * n - 5, 3 * n + 6), n))
    b = [v / denom for v in vals]
    return b[::-1] if desc else b


def query_values(bins):
    s = sorted(bins)
    xs = [s[0] - 1.0, s[0] - 0.125, s[-1] + 0.125, s[-1] + 5.0]
    xs += s
    xs += [(a + b) / 2 for a, b in zip(s, s[1:])]
    return xs


def run_digitize(bins, right, xs):
    """real code -> canonical string (same layout as the driver's `digitize` answer)"""
    import numpy
    from mlinsights.mltree import digitize2tree
    try:
        cl = digitize2tree(numpy.array(bins, dtype=numpy.float64), right=right)
    except Exception as e:  # canonical error kind
        return "error:" + type(e).__name__, None
    tr = cl.tree_
    vals = ",".join(val_tok(float(v)) for v in tr.value[:, 0, 0])
    pred = cl.predict(numpy.array(xs, dtype=numpy.float64).reshape((-1, 1)))
    ps = ",".join(val_tok(float(p)) for p in pred)
    return "%s|%s|%s|%s|%s|%s|%s" % (ints(tr.children_left), ints(tr.children_right), ints(tr.feature),
                                     rats(tr.threshold), vals, ps, ps), cl


def gen_tree_case(rng, small=False):
    """a random small data set + estimator parameters (everything needed to refit deterministically)"""
    d = rng.randint(1, 4)
    n = rng.randint(1, 6) if small else rng.randint(1, 30)
    grid = rng.choice([2, 3, 5, 9])
    off = rng.choice([0, 0, 0, -1, -3, -5])        # "all fitted trees": features (hence thresholds) of either sign
    X = [[rng.randint(0, grid) / rng.choice([1, 2, 4]) + off for _ in range(d)] for _ in range(n)]
    if rng.random() < 0.25:
        # real-valued features (thirds, tenths): midpoints between them are thresholds float32 cannot hold
        X = [[rng.randint(0, 3 * grid) / rng.choice([3.0, 10.0, 7.0]) + off for _ in range(d)] for _ in range(n)]
    kind = rng.choice(["reg", "clf"])
    if kind == "reg":
        y = [rng.randint(-8, 8) / 2 for _ in range(n)]
    else:
        y = [rng.randint(0, 3) for _ in range(n)]
    if rng.random() < 0.08:
        y = [y[0]] * n                                   # constant target: single-leaf tree
    params = {"max_depth": rng.choice([None, None, 1, 2, 3, 5]),
              "min_samples_leaf": rng.choice([1, 1, 2, 3]),
              "max_leaf_nodes": rng.choice([None, None, None, 2, 3, 6]),     # not None: best-first builder
              "splitter": rng.choice(["best", "best", "random"]),
              "random_state": rng.randrange(1 << 20)}
    return {"kind": kind, "X": X, "y": y, "params": params}


def fit_case(case):
    import numpy
    from sklearn.tree import DecisionTreeClassifier, DecisionTreeRegressor
    cls = DecisionTreeRegressor if case["kind"] == "reg" else DecisionTreeClassifier
    m = cls(**case["params"])
    m.fit(numpy.array(case["X"], dtype=numpy.float64), numpy.array(case["y"]))
    return m


def true_depth(tr):
    """depth of the node arrays (children ids are larger than their parent's)"""
    depth = [0] * tr.node_count
    for i in range(tr.node_count):
        if tr.children_left[i] != -1:
            depth[tr.children_left[i]] = depth[tr.children_right[i]] = depth[i] + 1
    return max(depth) if depth else 0


def f32ok(v):
    import numpy
    return float(numpy.float32(v)) == float(v)


def gen_points(rng, case, model, k):
    """float32-representable query points: training rows, thresholds (when representable), neighbours, far away"""
    import numpy
    d = len(case["X"][0])
    tr = model.tree_
    ths = {}
    for f, t in zip(tr.feature, tr.threshold):
        if f >= 0 and f32ok(t):
            ths.setdefault(int(f), []).append(float(t))
        elif f >= 0:
            # a threshold float32 cannot hold: its float32 rounding and the two float32 neighbours are the query values
            # closest to it (scikit-learn compares float32(x) with the float64 threshold)
            t32 = numpy.float32(t)
            ths.setdefault(int(f), []).extend([float(t32), float(numpy.nextafter(t32, numpy.float32(numpy.inf))),
                                                float(numpy.nextafter(t32, numpy.float32(-numpy.inf)))])
    pts = []
    for _ in range(k):
        r = rng.random()
        if r < 0.25:
            p = list(rng.choice(case["X"]))
        else:
            p = [rng.randint(-8, 80) / 8 for _ in range(d)]
        for f in range(d):
            q = rng.random()
            if f in ths and q < 0.45:
                t = rng.choice(ths[f])
                p[f] = t + rng.choice([0.0, 0.0, 0.0, 0.125, -0.125])
            elif q < 0.5:
                p[f] = rng.choice([-100.0, 100.0])
        # every coordinate is made exactly float32-representable (t ± 1/8 need not be for a random-splitter threshold)
        pts.append([float(numpy.float32(v)) for v in p])
    return pts


def box_tok(res):
    import numpy
    if res.shape[0] == 0:
        return "-"
    return ";".join("%s,%s" % ("nan" if numpy.isnan(a) else rat(a), "nan" if numpy.isnan(b) else rat(b))
                    for a, b in res)


# ------------------------------------------------------------------------------ correspondence

def correspond(ctx):
    ctx.shadow(need_cython=True)
    import numpy
    from mlinsights.mltree import tree_leave_index, tree_node_range, predict_leaves
    from mlinsights.mltree.tree_structure import tree_node_parents, tree_find_path_to_root
    corr = Corr()
    corr.rule = RULE
    rng = ctx.rng
    lines, expect = [], []

    # ---- digitize2tree
    def dig(bins, right, xs, tag):
        impl, _ = run_digitize(bins, right, xs)
        lines.append("digitize %s %d %s" % (rats(bins), 1 if right else 0, rats(xs)))
        expect.append(("digitize", {"bins": bins, "right": right, "xs": xs}, impl))
        corr.case(("dig", tuple(bins), right), nontrivial=len(bins) >= 2 and right,
                  sample={"op": "digitize", "bins": bins, "impl": impl[:160]} if len(bins) == 3 and len(corr.samples) < 2 else None)
        corr.hit(tag)
        if impl.startswith("error:"):
            corr.hit("digitize-" + impl)

    nmax = ctx.pick(40, 120)
    for n in range(1, nmax + 1):
        for desc in (False, True):
            for rep in range(ctx.pick(2, 3) if n <= 40 else 1):
                bins = gen_bins(rng, n, desc, denom=rng.choice([1, 2, 4, 8]))
                dig(bins, True, query_values(bins), "digitize-desc" if desc and n > 1 else "digitize-asc")
                corr.hit("digitize-len-%s" % ("1" if n == 1 else "2-3" if n <= 3 else "4-15" if n <= 15 else "16+"))
    # error paths and inputs outside the precondition (the model mimics the code there too)
    dig([], True, [0.0], "digitize-empty")
    dig([1.0, 2.0], False, [0.0], "digitize-right-false")
    dig([1.0, 1.0, 2.0], True, [0.0], "digitize-not-strict")
    dig([2.0, 2.0], True, [0.0], "digitize-not-strict")
    for _ in range(ctx.pick(6, 30)):
        n = rng.randint(3, 9)
        bins = [rng.randint(-9, 9) / 2 for _ in range(n)]
        if bins[0] == bins[1]:
            bins[1] += 1
        dig(bins, True, query_values(bins), "digitize-non-monotone")

    # ---- tree utilities on fitted trees (and on the trees digitize2tree returns)
    def add_tree(m, pts, inp, origin):
        tr = m.tree_
        d = int(tr.n_features)
        Xq = numpy.array(pts, dtype=numpy.float64).reshape((-1, d))
        toks = tree_tokens(tr)
        leaves = tree_leave_index(m)
        parents = tree_node_parents(m)
        app = m.apply(Xq)
        if origin == "fit" or int(tr.max_depth) >= true_depth(tr):
            pl = ints(predict_leaves(m, Xq))
            dp = m.decision_path(Xq)
            dps = ";".join(ints(dp[r].indices[numpy.argsort(dp[r].indices)]) for r in range(Xq.shape[0]))
        else:
            # digitize2tree leaves tree_.max_depth at 0, and scikit-learn sizes the decision_path buffer
            # from it: decision_path / predict_leaves on such a tree write out of bounds. Only the
            # utilities that do not go through decision_path are exercised on these trees.
            pl = dps = "*"
        impl = "wf|%s|%s|%s|%s|%s" % (
            ints(leaves),
            ",".join("%d:%d" % (k, parents[k]) for k in sorted(parents)) if parents else "-",
            ints(app), pl, dps)
        lines.append("tree %d %s %s" % (d, toks, mat(pts)))
        expect.append(("tree", dict(inp, points=pts), impl))
        corr.case(("tree", toks), nontrivial=tr.node_count > 1,
                  sample={"op": "tree", "arrays": toks, "impl": impl[:200]}
                  if origin == "fit" and tr.node_count in (3, 5) and len(corr.samples) < 4 else None)
        corr.hit("tree-nodes-%s" % ("1" if tr.node_count == 1 else "3-7" if tr.node_count <= 7 else "9-21" if tr.node_count <= 21 else "23+"))
        corr.hit("tree-from-" + origin)
        # boxes: every leaf (capped), plus some split nodes
        nodes = list(leaves)
        if len(nodes) > 8:
            nodes = rng.sample(nodes, 8)
        inner = [i for i in range(tr.node_count) if tr.children_left[i] != -1]
        nodes += rng.sample(inner, min(2, len(inner)))
        for i in nodes:
            try:
                res = tree_node_range(m, i)
                path = tree_find_path_to_root(tr, i, parents)
                ins = ints(int(a == i) for a in app) if i in leaves else None
                impl = "%s|%s|%s" % (ints(path), box_tok(res), ins)
            except Exception as e:
                impl = "?|error:%s|-" % type(e).__name__
                corr.hit("range-" + type(e).__name__)
            lines.append("range %d %s %d %s" % (d, toks, i, mat(pts)))
            expect.append(("range", dict(inp, node=int(i), points=pts, leaf=i in leaves), impl))
            corr.case(("range", toks, int(i)), nontrivial=tr.node_count > 1)
            corr.hit("range-leaf" if i in leaves else "range-split-node")

    for n in list(range(1, 13)) + [20, 33]:
        for desc in (False, True):
            bins = gen_bins(rng, n, desc, denom=rng.choice([1, 2, 4]))
            _, cl = run_digitize(bins, True, [0.0])
            if cl is None:          # digitize2tree raised: already recorded by the digitize op above
                corr.hit("tree-from-digitize2tree-unavailable")
                continue
            add_tree(cl, [[x] for x in query_values(bins)], {"digitize_bins": bins}, "digitize2tree")
    ntrees = ctx.pick(140, 3000)
    for tcase in range(ntrees):
        case = gen_tree_case(rng, small=(tcase % 5 == 0))
        m = fit_case(case)
        pts = gen_points(rng, case, m, ctx.pick(10, 14))
        add_tree(m, pts, {"case": case}, "fit")
        corr.hit("tree-%s" % case["kind"])
        corr.hit("builder-best-first" if case["params"]["max_leaf_nodes"] else "builder-depth-first")
        corr.hit("features-%d" % int(m.tree_.n_features))

    out = run_driver(DRIVER, lines)
    for (op, inp, impl), got in zip(expect, out):
        if op == "range":
            g, i = got.split("|"), impl.split("|")
            if i[1].startswith("error:"):
                ok = g[1] == i[1]
            else:
                ok = g[0] == i[0] and g[1] == i[1] and (i[2] == "None" or g[2] == i[2])
            if not ok:
                corr.disagree(op, inp, got, impl)
        elif op == "tree":
            g, i = got.split("|"), impl.split("|")
            if len(g) != len(i) or any(a != b for a, b in zip(g, i) if b != "*"):
                corr.disagree(op, inp, got, impl)
        elif got != impl:
            corr.disagree(op, inp, got, impl)
    return corr


# ------------------------------------------------------------------------------ search (oracle from the statement)

def check_digitize(bins, xs, bins_dtype="float64"):
    """digitize2tree(bins, right=True).predict(x) == numpy.digitize(x, bins, right=True) for every x.
    `bins_dtype`: the container the bins come in ("every strictly monotonic bins array"): a NumPy dtype name, or "list".
    Returns [(key, what, input, observed, required)]."""
    import numpy
    from mlinsights.mltree import digitize2tree
    b = numpy.array(bins, dtype=numpy.float64)
    given = list(bins) if bins_dtype == "list" else numpy.array(bins, dtype=numpy.dtype(bins_dtype))
    out = []
    try:
        cl = digitize2tree(given, right=True)
        pred = cl.predict(numpy.array(xs, dtype=numpy.float64).reshape((-1, 1)))
    except Exception as e:
        return [("digitize2tree:raises", "digitize2tree/predict raises %s on strictly monotone bins" % type(e).__name__,
                 {"kind": "digitize", "bins": list(bins), "x": list(xs), "bins_dtype": bins_dtype},
                 "%s: %s" % (type(e).__name__, str(e)[:200]),
                 "a tree predicting numpy.digitize(x, bins, right=True)")]
    exp = numpy.digitize(numpy.array(xs, dtype=numpy.float64), b, right=True)
    # what the tree actually compares: float32(x) against its stored thresholds (the bins in the threshold dtype)
    stored = b.astype(cl.tree_.threshold.dtype).astype(numpy.float64)
    x32 = numpy.array(xs, dtype=numpy.float64).astype(numpy.float32).astype(numpy.float64)
    exp32 = numpy.digitize(x32, stored, right=True)
    for x, p, e, e32 in zip(xs, pred, exp, exp32):
        if float(p) != float(e):
            inp = {"kind": "digitize", "bins": list(bins), "x": [float(x)], "bins_dtype": bins_dtype}
            if float(p) == float(e32):
                out.append((KEY_F32,
                            "prediction differs from numpy.digitize because scikit-learn compares float32(x) with the edges",
                            inp, float(p), int(e)))
            else:
                out.append(("digitize2tree:prediction-differs-from-numpy-digitize",
                            "prediction differs from numpy.digitize(x, bins, right=True) (not explained by the float32 cast of x)",
                            inp, float(p), int(e)))
    return out


def check_tree(case, pts):
    """Oracles of the second sentence of the statement, on the real functions."""
    import numpy
    from mlinsights.mltree import tree_leave_index, tree_node_range, predict_leaves
    m = fit_case(case)
    tr = m.tree_
    d = int(tr.n_features)
    Xq = numpy.array(pts, dtype=numpy.float64).reshape((-1, d))
    inp = {"kind": "tree", "case": case, "points": pts}
    out = []
    app = m.apply(Xq)
    try:
        pl = predict_leaves(m, Xq)
        if list(map(int, pl)) != list(map(int, app)):
            out.append(("predict_leaves:differs-from-apply", "predict_leaves(model, X) != model.apply(X)", inp,
                        list(map(int, pl)), list(map(int, app))))
    except Exception as e:
        out.append(("predict_leaves:raises", "predict_leaves raises %s" % type(e).__name__, inp, str(e)[:200], "apply(X)"))
    # "all points": also many at once - row counts around the block sizes a vectorised implementation would use
    if len(pts) > 0:
        m_tall = (1025, 2049, 1024, 3073, 1023, 4097)[(len(pts) + int(tr.node_count)) % 6]
        Xt = Xq[numpy.arange(m_tall) % Xq.shape[0]]
        try:
            plt_, appt = predict_leaves(m, Xt), m.apply(Xt)
            neq = [i for i in range(m_tall) if int(plt_[i]) != int(appt[i])] if len(plt_) == m_tall else [-1]
            if neq:
                out.append(("predict_leaves:differs-from-apply:tall-batch", "predict_leaves(model, X) != model.apply(X) on a "
                            "batch of %d rows (the given points repeated; first at row %d)" % (m_tall, neq[0]),
                            dict(inp, rows=m_tall), [int(plt_[i]) for i in neq[:5]] if neq[0] >= 0 else len(plt_),
                            [int(appt[i]) for i in neq[:5]] if neq[0] >= 0 else m_tall))
        except Exception as e:  # noqa: BLE001
            out.append(("predict_leaves:raises", "predict_leaves raises %s on %d rows" % (type(e).__name__, m_tall), inp,
                        str(e)[:200], "apply(X)"))
    # leaves: nodes without children; scikit-learn counts them in n_leaves; every routed point ends in one
    true_leaves = [i for i in range(tr.node_count) if tr.children_left[i] == -1 and tr.children_right[i] == -1]
    try:
        leaves = [int(i) for i in tree_leave_index(m)]
        if leaves != true_leaves or len(leaves) != int(tr.n_leaves) or not set(map(int, app)) <= set(leaves):
            out.append(("tree_leave_index:not-the-leaves", "tree_leave_index does not list exactly the leaves", inp,
                        leaves, true_leaves))
    except Exception as e:
        out.append(("tree_leave_index:raises", "tree_leave_index raises %s" % type(e).__name__, inp, str(e)[:200],
                    true_leaves))
    # the box of a leaf contains exactly the points routed to it
    for leaf in true_leaves:
        try:
            res = tree_node_range(m, leaf)
        except Exception as e:
            key = "tree_node_range:single-node-tree-raises" if tr.node_count == 1 else "tree_node_range:raises"
            out.append((key, "tree_node_range(tree, leaf) raises %s" % type(e).__name__,
                        dict(inp, leaf=leaf), "%s: %s" % (type(e).__name__, str(e)[:200]),
                        "the box of the points routed to leaf %d" % leaf))
            continue
        if res.ndim != 2 or res.shape[1] != 2:
            out.append(("tree_node_range:shape", "tree_node_range does not return a (D, 2) array", dict(inp, leaf=leaf),
                        list(res.shape), "(D, 2)"))
            continue
        for r, x in enumerate(pts):
            inside = True
            for f in range(min(d, res.shape[0])):
                lo, hi = res[f]
                if not numpy.isnan(lo) and not (lo < x[f]):
                    inside = False
                if not numpy.isnan(hi) and not (x[f] <= hi):
                    inside = False
            if inside != (int(app[r]) == leaf):
                out.append(("tree_node_range:box-differs-from-routing",
                            "a point is %s the box of leaf %d but is %srouted to it"
                            % ("inside" if inside else "outside", leaf, "not " if inside else ""),
                            dict(inp, leaf=leaf, points=[x]), {"box": box_tok(res), "inside": inside},
                            {"apply": int(app[r])}))
                break
    return out


def _size(inp):
    if inp.get("kind") == "digitize":
        return (0, len(inp["bins"]), len(inp["x"]))
    return (1, len(inp["case"]["X"]) * len(inp["case"]["X"][0]), len(inp.get("points", [])))


def search(ctx, hints):
    ctx.shadow(need_cython=True)
    import numpy
    rng = ctx.rng
    found, evals, nontriv, samples = [], 0, set(), []
    big = bool(getattr(ctx, "broken", None))

    # (a) digitize: the documented example, the float32 witness, then generated edges (float64, NOT float32-representable)
    fixed = [([0.0, 1.0, 2.5, 4.0, 7.0], [0.2, 6.4, 3.0, 1.6]), ([0.1, 0.2, 0.7], [0.1, 0.2, 0.7, 0.15, 0.0, 1.0]),
             ([0.7, 0.2, 0.1], [0.1, 0.2, 0.7, 0.15, 0.0, 1.0]), ([1.0], [0.0, 1.0, 2.0])]
    for h in hints or []:
        inp = h.get("input") or {}
        if h.get("op") == "digitize" and inp.get("right") and inp.get("bins"):
            b = inp["bins"]
            if all(x < y for x, y in zip(b, b[1:])) or all(x > y for x, y in zip(b, b[1:])):
                fixed.append((b, inp["xs"]))
    cases = list(fixed)
    for _ in range(ctx.pick(120, 6000) * (3 if big else 1)):
        n = rng.randint(1, 40) if rng.random() < 0.8 else rng.randint(1, 6)
        mode = rng.random()
        if mode < 0.5:
            bins = gen_bins(rng, n, rng.random() < 0.5, denom=rng.choice([1, 2, 4, 8]))       # exact in float32
        else:
            vals = sorted({round(rng.uniform(-5, 5), rng.choice([1, 2, 6])) for _ in range(n)})
            bins = vals[::-1] if rng.random() < 0.5 and len(vals) > 1 else vals               # decimal edges
        xs = query_values(bins) + [rng.uniform(-6, 6) for _ in range(4)] + [float("nan")]   # numpy.digitize orders NaN last
        # the float32 roundings of the edges and their float32 neighbours: float32-representable points (so the cast of x
        # is harmless) that lie within one float32 ulp of an edge, on either side
        for b_ in bins[:12]:
            f = numpy.float32(b_)
            xs += [float(f), float(numpy.nextafter(f, numpy.float32(numpy.inf))),
                   float(numpy.nextafter(f, numpy.float32(-numpy.inf)))]
        cases.append((bins, xs))
    observations = []
    try:
        from mlinsights.mltree import digitize2tree
        t8 = digitize2tree(numpy.arange(8, dtype=numpy.float64), right=True).tree_
        if int(t8.max_depth) < true_depth(t8):
            observations.append("outside the statement (not a fitted tree): digitize2tree leaves tree_.max_depth = %d on a "
                                "tree of depth %d; scikit-learn sizes the decision_path buffer from max_depth, so "
                                "decision_path / predict_leaves on the returned estimator write out of bounds"
                                % (int(t8.max_depth), true_depth(t8)))
    except Exception:
        pass
    # integer edges in every integer container (signed, UNSIGNED, Python list), both directions
    typed = []
    for t in range(ctx.pick(40, 600)):
        n = rng.randint(1, 12)
        vals = sorted(rng.sample(range(0, 120), n))
        if rng.random() < 0.5:
            vals = vals[::-1]
        dt = rng.choice(["uint8", "uint16", "uint32", "uint64", "int8", "int32", "int64", "list", "float32"])
        typed.append((vals, [float(v) for v in query_values(vals)] + [rng.uniform(-3, 125) for _ in range(3)]
                      + [float("nan")], dt))
    for bins, xs, dt in typed:
        evals += len(xs)
        nontriv.add(("dig", tuple(bins), dt))
        found += check_digitize(bins, xs, dt)
    for bins, xs in cases:
        bad = check_digitize(bins, xs)
        evals += len(xs)
        nontriv.add(("dig", tuple(bins)))
        found += bad
        if len(samples) < 2:
            samples.append({"op": "digitize", "bins": bins[:6], "n_x": len(xs), "violations": len(bad)})
    # (b) tree utilities: single-leaf trees first (smallest fitted trees), then generated ones
    tcases = [{"kind": "clf", "X": [[-3.0], [-1.0], [-3.0], [-1.0], [1.0], [3.0]], "y": [0, 1, 0, 1, 2, 3],
               "params": {"random_state": 0}},      # split thresholds -2.0, 0.0, 2.0: the values scikit-learn uses as
              {"kind": "reg", "X": [[-2.0, 5.0], [0.0, 5.0], [-2.0, 7.0], [0.0, 7.0]], "y": [0.0, 1.0, 2.0, 3.0],
               "params": {"random_state": 0}},      # "undefined" (-2) and "leaf" (-1) markers are ordinary thresholds here
              {"kind": "reg", "X": [[0.0]], "y": [1.0], "params": {"random_state": 0}},
              {"kind": "clf", "X": [[0.0, 1.0], [1.0, 0.0]], "y": [1, 1], "params": {"random_state": 0}},
              {"kind": "clf", "X": [[0, 0], [0, 1], [0, 2], [1, 0], [1, 1], [1, 2], [2, 0], [2, 1], [2, 2]],
               "y": list(range(9)), "params": {"max_depth": 4, "random_state": 0}}]
    for h in hints or []:
        inp = h.get("input") or {}
        if h.get("op") in ("tree", "range") and "case" in inp:
            tcases.append(inp["case"])
    for t in range(ctx.pick(120, 4000) * (2 if big else 1)):
        tcases.append(gen_tree_case(rng, small=(t % 3 == 0)))
    for case in tcases[:ctx.pick(160, 8000)]:
        m = fit_case(case)
        pts = gen_points(rng, case, m, ctx.pick(12, 20))
        bad = check_tree(case, pts)
        evals += len(pts)
        nontriv.add(("tree", tree_tokens(m.tree_)))
        found += bad
    best = {}
    for key, what, inp, obs, req in found:
        if key not in best or _size(inp) < _size(best[key].input):
            best[key] = Violation(key, what, inp, obs, req)
    return list(best.values()), {"evaluations": evals, "distinct_nontrivial": len(nontriv), "samples": samples,
                                 "observations": observations}


def replay(ctx, item):
    ctx.shadow(need_cython=True)
    inp = item["input"]
    if inp.get("kind") == "digitize":
        bad = check_digitize(inp["bins"], inp["x"], inp.get("bins_dtype", "float64"))
    else:
        bad = check_tree(inp["case"], inp["points"])
    best = {}
    for key, what, i2, obs, req in bad:
        best.setdefault(key, Violation(key, what, i2, obs, req))
    return list(best.values())
