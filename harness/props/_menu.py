"""Menu of estimator configurations and small data sets used by the C02 / C03 dynamic sides
(failing-input search with the oracle of the property; validation of the skeleton extractor).

Every entry: name, class name, factory(inner=None) -> unfitted estimator, kind of data,
the observers to call after fit, and whether an inner estimator can be injected
(`inner` = a wrapper that raises on its k-th fit)."""
import numpy


class Entry:
    def __init__(self, name, cls, factory, data, observers, inner_kind=None, slow=False, seeded=True):
        self.name = name
        self.cls = cls
        self.factory = factory
        self.data = data              # key of DATA
        self.observers = observers    # method names taking X (or (X, y) for *_xy)
        self.inner_kind = inner_kind  # None | 'reg' | 'clf'
        self.slow = slow
        self.seeded = seeded          # fit is reproducible under numpy.random.seed


# --------------------------------------------------------------------------- failing inner estimators

class Counter:
    def __init__(self, fail_at=None):
        self.n = 0
        self.fail_at = fail_at


class InjectedFailure(RuntimeError):
    pass


def failing(base_cls, counter):
    """A scikit-learn compatible subclass of `base_cls` whose k-th `fit` (counted across clones
    through the shared counter) raises InjectedFailure."""
    class Failing(base_cls):
        _verif_counter = counter

        def fit(self, X, y=None, sample_weight=None):
            c = type(self)._verif_counter
            c.n += 1
            if c.fail_at is not None and c.n == c.fail_at:
                raise InjectedFailure("injected failure at inner fit #%d" % c.n)
            if sample_weight is None:
                return super().fit(X, y)
            return super().fit(X, y, sample_weight=sample_weight)
    Failing.__name__ = base_cls.__name__
    Failing.__qualname__ = base_cls.__qualname__
    return Failing


# --------------------------------------------------------------------------- data

def make_data(kind, rng, variant=0):
    """(X, y, sample_weight_or_None); values are small and fixed-seeded through rng (random.Random)."""
    r = numpy.random.RandomState(rng.randrange(1 << 30))
    n = [24, 31, 18][variant % 3]
    d = [2, 3, 2][variant % 3]
    if kind == "reg":
        X = r.randn(n, d)
        y = X[:, 0] * 2 - X[:, 1] + r.randn(n) * 0.1 + (variant % 3)
        return X, y, None
    if kind == "regw":
        X = r.randn(n, d)
        y = X[:, 0] * 2 - X[:, 1] + r.randn(n) * 0.1
        return X, y, r.randint(1, 4, n).astype(float)
    if kind == "regpos":
        X = r.rand(n, d) + 0.5
        y = X[:, 0] * 2 + X[:, 1] + 1.0 + r.rand(n) * 0.1
        return X, y, None
    if kind == "clf":
        X = r.randn(n, d)
        lab = [(0, 1), (3, 7), (-1, 1)][variant % 3]
        y = numpy.where(X[:, 0] + 0.3 * r.randn(n) > 0, lab[1], lab[0])
        y[0], y[1] = lab[0], lab[1]
        return X, y, None
    if kind == "clfw":      # binary labels with markedly non-uniform sample weights
        X = r.randn(n, d)
        y = numpy.where(X[:, 0] + 0.3 * r.randn(n) > 0, 1, 0)
        y[0], y[1] = 0, 1
        w = numpy.where(X[:, 1] > 0, 5.0, 0.25) + 0.01 * numpy.arange(n)
        return X, y, w
    if kind == "clf3":
        X = r.randn(n, d)
        y = (X[:, 0] > 0.4).astype(int) + (X[:, 0] > -0.4).astype(int) + 10 * (variant % 3)
        y[:3] = numpy.array([0, 1, 2]) + 10 * (variant % 3)
        return X, y, None
    if kind == "clus":
        k = n // 2 if variant % 3 != 1 else n // 3          # variant 1: two groups of different sizes
        X = numpy.vstack([r.randn(k, d) + 3, r.randn(n - k, d) - 3])
        return X, None, None
    if kind == "clusw":      # the same groups with a constant float sample weight (every row counts 2.5 times)
        k = n // 2 if variant % 3 != 1 else n // 3
        X = numpy.vstack([r.randn(k, d) + 3, r.randn(n - k, d) - 3])
        return X, None, numpy.full(n, 2.5)
    if kind == "clus2":
        X = numpy.vstack([r.randn(n // 2, 2) + 3, r.randn(n - n // 2, 2) - 3])
        return X, None, None
    if kind == "nonneg":
        X = r.rand(n, 4) + 0.1
        return X, None, None
    if kind == "frame":
        import pandas
        cats = [["a", "b", "c"], ["a", "b"], ["u", "v", "w", "x"]][variant % 3]
        df = pandas.DataFrame({
            "c1": pandas.Series([cats[i % len(cats)] for i in range(n)], dtype=object),
            "n1": r.randn(n),
            "c2": pandas.Series([["p", "q"][i % 2] for i in range(n)], dtype=object),
        })
        return df, None, None
    if kind == "frame2":
        import pandas
        cols = {"c1": pandas.Series([["a", "b", "c"][i % 3] for i in range(n)], dtype=object), "n1": r.randn(n)}
        if variant % 3 == 0:
            cols["c3"] = pandas.Series([["k", "l"][i % 2] for i in range(n)], dtype=object)
        if variant % 3 == 2:
            cols["c4"] = pandas.Series([["u", "v", "w"][i % 3] for i in range(n)], dtype=object)
        return pandas.DataFrame(cols), None, None
    if kind == "text":
        words = [["cat", "dog", "bird"], ["red", "blue", "green", "cat"], ["one", "two"]][variant % 3]
        X = [" ".join(words[r.randint(len(words))] for _ in range(r.randint(1, 6))) for _ in range(n)]
        return X, None, None
    if kind == "ts":
        y = numpy.cumsum(r.randn(n + 10)) + 5.0
        return None, y, None
    if kind == "tsx":
        y = numpy.cumsum(r.randn(n + 10)) + 5.0
        return r.randn(n + 10, 2), y, None
    if kind == "target":
        X = r.randn(n, d)
        y = numpy.abs(X[:, 0] * 2 + 5 + r.randn(n) * 0.1) + 1.0
        return X, y, None
    if kind == "labels":
        X = r.randn(n, d)
        k = 3 + variant % 3
        y = r.randint(0, k, n) * 2 + 10 * (variant % 3)
        y[:k] = numpy.arange(k) * 2 + 10 * (variant % 3)
        return X, y, None
    raise ValueError(kind)


# --------------------------------------------------------------------------- menu

def build_menu():
    from sklearn.linear_model import LinearRegression, LogisticRegression
    from sklearn.tree import DecisionTreeRegressor, DecisionTreeClassifier
    from sklearn.cluster import KMeans
    from sklearn.preprocessing import StandardScaler
    import mlinsights.mlmodel as M
    import mlinsights.sklapi as S
    from mlinsights.timeseries import ARTimeSeriesRegressor
    from mlinsights.timeseries.dummies import DummyTimeSeriesRegressor
    from mlinsights.timeseries.preprocessing import TimeSeriesDifference

    def reg(inner):
        return (inner or LinearRegression)()

    def clf(inner):
        return (inner or LogisticRegression)()

    E = []
    E.append(Entry("IntervalRegressor", "IntervalRegressor",
                   lambda inner=None: M.IntervalRegressor(reg(inner), n_estimators=3),
                   "regw", ["predict", "predict_sorted"], "reg"))
    E.append(Entry("PiecewiseRegressor[bins]", "PiecewiseRegressor",
                   lambda inner=None: M.PiecewiseRegressor("bins", estimator=reg(inner)),
                   "regw", ["predict", "transform_bins"], "reg"))
    E.append(Entry("PiecewiseRegressor[tree]", "PiecewiseRegressor",
                   lambda inner=None: M.PiecewiseRegressor(DecisionTreeRegressor(max_depth=2, random_state=0),
                                                           estimator=reg(inner)),
                   "reg", ["predict", "transform_bins"], "reg"))
    E.append(Entry("PiecewiseClassifier", "PiecewiseClassifier",
                   lambda inner=None: M.PiecewiseClassifier("bins", estimator=clf(inner), random_state=3),
                   "clf", ["predict", "predict_proba", "transform_bins"], "clf"))
    E.append(Entry("PiecewiseTreeRegressor[mselin]", "PiecewiseTreeRegressor",
                   lambda inner=None: M.PiecewiseTreeRegressor(criterion="mselin", max_depth=2, min_samples_leaf=5),
                   "reg", ["predict", "predict_leaves"]))
    E.append(Entry("PiecewiseTreeRegressor[simple]", "PiecewiseTreeRegressor",
                   lambda inner=None: M.PiecewiseTreeRegressor(criterion="simple", max_depth=2, min_samples_leaf=4),
                   "reg", ["predict"]))
    E.append(Entry("PiecewiseTreeRegressor[sklearn]", "PiecewiseTreeRegressor",
                   lambda inner=None: M.PiecewiseTreeRegressor(criterion="squared_error", max_depth=2),
                   "reg", ["predict"]))
    E.append(Entry("QuantileLinearRegression", "QuantileLinearRegression",
                   lambda inner=None: M.QuantileLinearRegression(quantile=0.3),
                   "regw", ["predict", "score_xy"]))
    # without intercept the design matrix handed to the inner solver IS the caller's X
    E.append(Entry("QuantileLinearRegression[no-intercept]", "QuantileLinearRegression",
                   lambda inner=None: M.QuantileLinearRegression(quantile=0.7, fit_intercept=False, max_iter=5),
                   "regw", ["predict", "score_xy"]))
    E.append(Entry("QuantileLinearRegression[median]", "QuantileLinearRegression",
                   lambda inner=None: M.QuantileLinearRegression(),
                   "reg", ["predict", "score_xy"]))
    # QuantileMLPRegressor: relies on private scikit-learn API (_backprop signature) that changed in 1.9: not runnable here
    E.append(Entry("KMeansL1L2[L1]", "KMeansL1L2",
                   lambda inner=None: M.KMeansL1L2(2, norm="L1", random_state=4, n_init=2),
                   "clus", ["predict", "transform"]))
    E.append(Entry("KMeansL1L2[L1,constant weights]", "KMeansL1L2",
                   lambda inner=None: M.KMeansL1L2(2, norm="L1", random_state=4, n_init=2),
                   "clusw", ["predict", "transform"]))
    E.append(Entry("KMeansL1L2[L1,init-array]", "KMeansL1L2",
                   lambda inner=None: M.KMeansL1L2(2, norm="L1", n_init=3, random_state=4,
                                                   init=numpy.array([[2.5, 2.5], [-2.5, -2.5]])),
                   "clus2", ["predict", "transform"]))
    E.append(Entry("KMeansL1L2[L2]", "KMeansL1L2",
                   lambda inner=None: M.KMeansL1L2(2, norm="L2", random_state=4, n_init=2),
                   "clus", ["predict", "transform"]))
    for strat in ("distance", "gain"):
        for k0 in (True, False):
            E.append(Entry("ConstraintKMeans[%s,kmeans0=%s]" % (strat, k0), "ConstraintKMeans",
                           lambda inner=None, strat=strat, k0=k0: M.ConstraintKMeans(
                               2, strategy=strat, kmeans0=k0, random_state=5, n_init=2, max_iter=41),
                           "clus", ["predict", "transform"]))
    E.append(Entry("ClassifierAfterKMeans", "ClassifierAfterKMeans",
                   lambda inner=None: M.ClassifierAfterKMeans(estimator=clf(inner),
                                                              clus=KMeans(2, random_state=0, n_init=2)),
                   "clf", ["predict", "predict_proba"], "clf"))
    from sklearn.cluster import Birch
    E.append(Entry("ClassifierAfterKMeans[KMeans,weights]", "ClassifierAfterKMeans",
                   lambda inner=None: M.ClassifierAfterKMeans(estimator=LogisticRegression(),
                                                              clus=KMeans(2, random_state=0, n_init=2)),
                   "clfw", ["predict", "predict_proba"]))
    E.append(Entry("ClassifierAfterKMeans[Birch,weights]", "ClassifierAfterKMeans",     # Birch.fit takes no sample_weight
                   lambda inner=None: M.ClassifierAfterKMeans(estimator=LogisticRegression(),
                                                              clus=Birch(n_clusters=2, threshold=0.2)),
                   "clfw", ["predict", "predict_proba"]))
    E.append(Entry("ClassifierAfterKMeans[warm_start]", "ClassifierAfterKMeans",
                   lambda inner=None: M.ClassifierAfterKMeans(estimator=LogisticRegression(warm_start=True, max_iter=4),
                                                              clus=KMeans(2, random_state=0, n_init=2)),
                   "clf", ["predict", "predict_proba"]))
    E.append(Entry("DecisionTreeLogisticRegression", "DecisionTreeLogisticRegression",
                   lambda inner=None: M.DecisionTreeLogisticRegression(estimator=clf(inner), max_depth=3,
                                                                       min_samples_leaf=3),
                   "clf", ["predict", "predict_proba", "decision_path"], "clf"))
    # strategy='perpendicular' raises NotImplementedError in fit_improve (unfinished upstream): not in the menu
    # a STATEFUL inner estimator (warm_start): anything fitted in place instead of on a clone shows in a refit
    E.append(Entry("DecisionTreeLogisticRegression[warm_start]", "DecisionTreeLogisticRegression",
                   lambda inner=None: M.DecisionTreeLogisticRegression(
                       estimator=LogisticRegression(warm_start=True, max_iter=4), max_depth=3, min_samples_leaf=3),
                   "clf", ["predict", "predict_proba"]))
    E.append(Entry("PiecewiseClassifier[warm_start]", "PiecewiseClassifier",
                   lambda inner=None: M.PiecewiseClassifier("bins", estimator=LogisticRegression(warm_start=True, max_iter=4),
                                                            random_state=3),
                   "clf", ["predict", "predict_proba"]))
    E.append(Entry("ExtendedFeatures", "ExtendedFeatures",
                   lambda inner=None: M.ExtendedFeatures(poly_degree=2),
                   "reg", ["transform"]))
    E.append(Entry("ExtendedFeatures[slow]", "ExtendedFeatures",
                   lambda inner=None: M.ExtendedFeatures(kind="poly-slow", poly_degree=2, poly_interaction_only=True),
                   "reg", ["transform"]))
    E.append(Entry("ApproximateNMFPredictor", "ApproximateNMFPredictor",
                   lambda inner=None: M.ApproximateNMFPredictor(n_components=2, random_state=0, max_iter=300),
                   "nonneg", ["predict"]))
    E.append(Entry("CategoriesToIntegers", "CategoriesToIntegers",
                   lambda inner=None: M.CategoriesToIntegers(columns=["c1", "c2"]),
                   "frame", ["transform"]))
    # auto-detected categorical columns; the training frames of successive fits have different columns
    E.append(Entry("CategoriesToIntegers[auto-columns]", "CategoriesToIntegers",
                   lambda inner=None: M.CategoriesToIntegers(),
                   "frame2", ["transform"]))
    E.append(Entry("CategoriesToIntegers[single]", "CategoriesToIntegers",
                   lambda inner=None: M.CategoriesToIntegers(columns=["c1", "c2"], single=True),
                   "frame", ["transform"]))
    E.append(Entry("TraceableCountVectorizer", "TraceableCountVectorizer",
                   lambda inner=None: M.TraceableCountVectorizer(ngram_range=(1, 2)),
                   "text", ["transform"]))
    E.append(Entry("TraceableTfidfVectorizer", "TraceableTfidfVectorizer",
                   lambda inner=None: M.TraceableTfidfVectorizer(ngram_range=(1, 2)),
                   "text", ["transform"]))
    E.append(Entry("FunctionReciprocalTransformer", "FunctionReciprocalTransformer",
                   lambda inner=None: M.FunctionReciprocalTransformer("log"),
                   "target", ["transform_xy"]))
    for closest in (False, True):
        E.append(Entry("PermutationReciprocalTransformer[closest=%s]" % closest, "PermutationReciprocalTransformer",
                       lambda inner=None, closest=closest: M.PermutationReciprocalTransformer(random_state=1,
                                                                                               closest=closest),
                       "labels", ["transform_xy"]))
    # random_state=0 is an integer seed like any other (and falsy)
    E.append(Entry("PermutationReciprocalTransformer[random_state=0]", "PermutationReciprocalTransformer",
                   lambda inner=None: M.PermutationReciprocalTransformer(random_state=0),
                   "labels", ["transform_xy"]))
    E.append(Entry("PiecewiseClassifier[random_state=0]", "PiecewiseClassifier",
                   lambda inner=None: M.PiecewiseClassifier("bins", estimator=LogisticRegression(), random_state=0),
                   "clf3", ["predict", "predict_proba"]))
    E.append(Entry("PiecewiseClassifier[random_state=numpy.int64]", "PiecewiseClassifier",     # a seed taken from an array
                   lambda inner=None: M.PiecewiseClassifier("bins", estimator=LogisticRegression(),
                                                            random_state=numpy.int64(7)),
                   "clf3", ["predict", "predict_proba"]))
    E.append(Entry("PermutationReciprocalTransformer[random_state=numpy.int32]", "PermutationReciprocalTransformer",
                   lambda inner=None: M.PermutationReciprocalTransformer(random_state=numpy.int32(5)),
                   "labels", ["transform_xy"]))
    E.append(Entry("TransformedTargetRegressor2", "TransformedTargetRegressor2",
                   lambda inner=None: M.TransformedTargetRegressor2(reg(inner), "log"),
                   "target", ["predict"], "reg"))
    E.append(Entry("TransformedTargetClassifier2", "TransformedTargetClassifier2",
                   lambda inner=None: M.TransformedTargetClassifier2(clf(inner),
                                                                     M.PermutationReciprocalTransformer(random_state=2)),
                   "clf3", ["predict", "predict_proba"], "clf"))
    E.append(Entry("TransferTransformer[trainable]", "TransferTransformer",
                   lambda inner=None: M.TransferTransformer(reg(inner), trainable=True),
                   "reg", ["transform"], "reg"))
    E.append(Entry("TransferTransformer[frozen]", "TransferTransformer",
                   lambda inner=None: M.TransferTransformer(
                       LinearRegression().fit(numpy.arange(8.0).reshape(4, 2), numpy.arange(4.0)), trainable=False),
                   "reg", ["transform"]))
    E.append(Entry("PredictableTSNE", "PredictableTSNE",
                   lambda inner=None: _tsne(M, reg(inner)),
                   "reg", ["transform"], "reg", slow=True))
    E.append(Entry("SkBaseTransformLearner", "SkBaseTransformLearner",
                   lambda inner=None: S.SkBaseTransformLearner(reg(inner)),
                   "reg", ["transform"], "reg"))
    E.append(Entry("SkBaseTransformStacking", "SkBaseTransformStacking",
                   lambda inner=None: S.SkBaseTransformStacking([reg(inner), DecisionTreeRegressor(max_depth=2,
                                                                                                 random_state=0)]),
                   "reg", ["transform"], "reg"))
    # ARTimeSeriesRegressor is not in the menu: its constructor only stores `estimator` when it is the string
    # "dummy" (AttributeError otherwise: a C01 matter) and with the dummy estimator fit applies build_ts_X_y twice
    # and raises; neither is a C02/C03 matter.
    E.append(Entry("DummyTimeSeriesRegressor", "DummyTimeSeriesRegressor",
                   lambda inner=None: DummyTimeSeriesRegressor(past=2),
                   "ts", ["predict_xy"]))
    E.append(Entry("DummyTimeSeriesRegressor[diff]", "DummyTimeSeriesRegressor",
                   lambda inner=None: DummyTimeSeriesRegressor(past=2, preprocessing=TimeSeriesDifference(1)),
                   "ts", ["predict_xy"]))
    E.append(Entry("TimeSeriesDifference", "TimeSeriesDifference",
                   lambda inner=None: TimeSeriesDifference(1),
                   "tsx", ["transform_xy"]))
    return E


def _tsne(M, est):
    from sklearn.manifold import TSNE
    try:
        t = TSNE(n_components=2, perplexity=3, max_iter=250, random_state=0, init="random")
    except TypeError:
        t = TSNE(n_components=2, perplexity=3, n_iter=250, random_state=0, init="random")
    return M.PredictableTSNE(transformer=t, estimator=est)


def inner_base(kind):
    from sklearn.linear_model import LinearRegression, LogisticRegression
    return LinearRegression if kind == "reg" else LogisticRegression


def call_fit(est, X, y, w):
    if X is None:                      # time series: fit(X=None, y)
        return est.fit(None, y)
    if y is None:
        if w is not None:
            try:
                return est.fit(X, sample_weight=w)
            except TypeError as e:
                if "sample_weight" not in str(e):
                    raise
        return est.fit(X)
    if w is not None:
        try:
            return est.fit(X, y, sample_weight=w)
        except TypeError as e:
            if "sample_weight" not in str(e):
                raise
            return est.fit(X, y)
    return est.fit(X, y)


def call_observer(est, name, X, y):
    """canonical (hashable/comparable) output of an observer"""
    if name.endswith("_xy"):
        m = getattr(est, name[:-3])
        out = m(X, y)
    else:
        out = getattr(est, name)(X)
    return canon(out)


def canon(out):
    import scipy.sparse
    if isinstance(out, tuple):
        return tuple(canon(o) for o in out)
    if out is None:
        return None
    if scipy.sparse.issparse(out):
        out = out.toarray()
    try:
        import pandas
        if isinstance(out, pandas.DataFrame):
            return ("frame", tuple(out.columns), canon(out.values))
    except ImportError:
        pass
    a = numpy.asarray(out)
    if a.dtype == object:
        return ("obj", a.shape, tuple(repr(v) for v in a.ravel()))
    return ("arr", a.shape, str(a.dtype), a.tobytes())


def buffers(X, y, w):
    """byte snapshots of the caller's data"""
    out = []
    for v in (X, y, w):
        if v is None:
            out.append(None)
        elif isinstance(v, list):
            out.append(("list", tuple(v)))
        elif hasattr(v, "values") and hasattr(v, "columns"):
            out.append(("frame", tuple(v.columns), tuple(v.index), tuple(map(repr, v.values.ravel()))))
        else:
            a = numpy.asarray(v)
            out.append(("arr", a.shape, str(a.dtype), a.tobytes()))
    return out


def params_snapshot(est, depth=0):
    """what get_params reports, canonically: atoms by repr, estimators by class + their own params
    (recursively) + identity, lists elementwise"""
    try:
        p = est.get_params(deep=False)
    except Exception as e:  # get_params itself fails: report it as a value
        return ("get_params-raises", type(e).__name__)
    out = []
    for k in sorted(p):
        out.append((k, _val(p[k], depth)))
    return tuple(out)


def _val(v, depth):
    if hasattr(v, "get_params") and not isinstance(v, type) and depth < 4:
        return ("est", type(v).__name__, id(v), params_snapshot(v, depth + 1))
    if isinstance(v, (list, tuple)):
        return (type(v).__name__, tuple(_val(x, depth) for x in v))
    if isinstance(v, numpy.ndarray):
        return ("arr", v.shape, v.tobytes())
    if callable(v):
        return ("callable", id(v))
    return ("atom", repr(v))
