"""C13 — Target transformations are undone exactly by their reciprocal."""
import ast
import math
from fractions import Fraction

from core import Corr, Violation, run_driver
from extract import pyexpr

ID = "C13"
#: functions the hand-written model transcribes: their control skeleton (extract/shape.py) is regenerated into
#: Gen/C13.lean and compared with the literal in Properties/C13.lean (`modelled_functions_have_the_transcribed_shape`)
SHAPES = [
    ("shapeFctFit", "mlinsights/mlmodel/sklearn_transform_inv_fct.py", "FunctionReciprocalTransformer.fit"),
    ("shapeFctTransform", "mlinsights/mlmodel/sklearn_transform_inv_fct.py", "FunctionReciprocalTransformer.transform", "full"),
    ("shapeFctInv", "mlinsights/mlmodel/sklearn_transform_inv_fct.py", "FunctionReciprocalTransformer.get_fct_inv"),
    ("shapePermFit", "mlinsights/mlmodel/sklearn_transform_inv_fct.py", "PermutationReciprocalTransformer.fit"),
    ("shapePermTransform", "mlinsights/mlmodel/sklearn_transform_inv_fct.py", "PermutationReciprocalTransformer.transform"),
    ("shapePermInv", "mlinsights/mlmodel/sklearn_transform_inv_fct.py", "PermutationReciprocalTransformer.get_fct_inv"),
    ("shapeRegFit", "mlinsights/mlmodel/target_predictors.py", "TransformedTargetRegressor2.fit", "full"),
    ("shapeRegPredict", "mlinsights/mlmodel/target_predictors.py", "TransformedTargetRegressor2.predict", "full"),
    ("shapeClfFit", "mlinsights/mlmodel/target_predictors.py", "TransformedTargetClassifier2.fit", "full"),
    ("shapeClfApply", "mlinsights/mlmodel/target_predictors.py", "TransformedTargetClassifier2._apply", "full"),
    ("shapeClfClasses", "mlinsights/mlmodel/target_predictors.py", "TransformedTargetClassifier2.classes_", "full"),
    ("shapeClfPredict", "mlinsights/mlmodel/target_predictors.py", "TransformedTargetClassifier2.predict"),
    ("shapeClfPredictProba", "mlinsights/mlmodel/target_predictors.py", "TransformedTargetClassifier2.predict_proba"),
]
SRC_FCT = "mlinsights/mlmodel/sklearn_transform_inv_fct.py"
SRC_TGT = "mlinsights/mlmodel/target_predictors.py"
LEAN_TARGETS = ["MlVerif.Model.FctTable", "MlVerif.Gen.C13", "MlVerif.Model.Perm",
                "MlVerif.Lemmas.FctTable", "MlVerif.Lemmas.Perm", "MlVerif.Properties.C13"]
PROPERTY_FILE = "MlVerif/Properties/C13.lean"
DRIVER = "Drivers/C13.lean"


# ------------------------------------------------------------------------------ extractor

def _lean_str(s):
    return '"' + s.replace("\\", "\\\\").replace('"', '\\"').replace("\n", "\\n") + '"'


def _unknown(node):
    return ['.unknown %s' % _lean_str(ast.unparse(node)[:80])]


_NUMPY_PRIMS = {"numpy.log": ".log", "numpy.exp": ".exp", "numpy.log1p": ".log1p", "numpy.expm1": ".expm1",
                "np.log": ".log", "np.exp": ".exp", "np.log1p": ".log1p", "np.expm1": ".expm1"}


def _int_const(node):
    if isinstance(node, ast.Constant) and not isinstance(node.value, bool):
        v = node.value
        if isinstance(v, int):
            return v
        if isinstance(v, float) and v == int(v):
            return int(v)
    if isinstance(node, ast.UnaryOp) and isinstance(node.op, ast.USub):
        c = _int_const(node.operand)
        return None if c is None else -c
    return None


def _chain_of_body(node, var):
    """chain (innermost first) of a lambda body in the variable `var`; unknown if outside the language"""
    if isinstance(node, ast.Name) and node.id == var:
        return []
    if isinstance(node, ast.Call) and len(node.args) == 1 and not node.keywords:
        fn = ast.unparse(node.func)
        if fn in _NUMPY_PRIMS:
            return _chain_of_body(node.args[0], var) + [_NUMPY_PRIMS[fn]]
        return _unknown(node)
    if isinstance(node, ast.BinOp):
        cl, cr = _int_const(node.left), _int_const(node.right)
        if isinstance(node.op, ast.Add):
            if cr is not None:
                return _chain_of_body(node.left, var) + ["(.addC (%d))" % cr]
            if cl is not None:
                return _chain_of_body(node.right, var) + ["(.addC (%d))" % cl]
        if isinstance(node.op, ast.Sub) and cr is not None:
            return _chain_of_body(node.left, var) + ["(.addC (%d))" % (-cr)]
    return _unknown(node)


def _chain_of_function(node):
    src = ast.unparse(node)
    if src in _NUMPY_PRIMS:
        return [_NUMPY_PRIMS[src]]
    if isinstance(node, ast.Lambda):
        a = node.args
        if len(a.args) == 1 and not (a.vararg or a.kwarg or a.kwonlyargs or a.defaults or a.posonlyargs):
            return _chain_of_body(node.body, a.args[0].arg)
    return _unknown(node)


def extract_entries(source):
    """[(name, [lean prim terms], inverse name)] from the dict literal returned by available_fcts()."""
    tree = ast.parse(source)
    fn = pyexpr.find_function(tree, "FunctionReciprocalTransformer.available_fcts")
    rets = [n for n in ast.walk(fn) if isinstance(n, ast.Return)]
    if len(rets) != 1 or not isinstance(rets[0].value, ast.Dict):
        return [("?", _unknown(rets[0].value if rets and rets[0].value is not None else fn), "?")]
    out = []
    for k, v in zip(rets[0].value.keys, rets[0].value.values):
        if not (isinstance(k, ast.Constant) and isinstance(k.value, str)):
            out.append(("?", _unknown(k if k is not None else v), "?"))
            continue
        if not (isinstance(v, ast.Tuple) and len(v.elts) == 2 and isinstance(v.elts[1], ast.Constant)
                and isinstance(v.elts[1].value, str)):
            out.append((k.value, _unknown(v), "?"))
            continue
        out.append((k.value, _chain_of_function(v.elts[0]), v.elts[1].value))
    return out


def extract(ctx):
    entries = extract_entries(ctx.source(SRC_FCT))
    rows = ",\n".join("  ⟨%s, [%s], %s⟩" % (_lean_str(n), ", ".join(c), _lean_str(i)) for n, c, i in entries)
    body = pyexpr.HEADER + """import MlVerif.Model.FctTable
namespace MlVerif.Gen.C13
open MlVerif.FctTable

/-- `FunctionReciprocalTransformer.available_fcts()`: name, function (chain of primitives applied to
the argument, innermost first), name of the inverse — in the order of the dictionary literal -/
def table : Table := [
%s
]

end MlVerif.Gen.C13
""" % rows
    return {"MlVerif/Gen/C13.lean": body}


TRUSTED = [
    "numpy.log / numpy.exp are the real log / exp on their domains; numpy.log1p(x) is identified with log(1+x) and "
    "numpy.expm1(x) with exp(x)-1 (Mathlib Real.log / Real.exp); floats are read as reals (rounding is covered only "
    "by the tolerance of the search oracle)",
    "numpy.random.permutation / RandomState.permutation return a permutation of their argument (the drawn `lin` is "
    "recorded and given to the model; theorems quantify over every permutation)",
    "the inner estimator is a parameter: scikit-learn's classes_ are the sorted distinct training targets, predict "
    "returns training classes; its predict / predict_proba outputs are recorded and given to the model",
    "python dict semantics (insertion order, one value per key), list.sort on tuples (first then second component), "
    "numpy column assignment yp[:, j] = y[:, i], numpy.sort on one kind of label",
]
ASSUMPTIONS = [
    "'targets in their domain' = reals where the predefined function is defined: log on y>0, log(1+x)/log1p on y>-1, "
    "exp/exp(x)-1/expm1 everywhere; the float round trip is checked on |y| <= 5 within 64 ulp * (1+|y|) * (1+|f(y)|)",
    "'all label sets' = one kind of label per array: integers, floats (NaN allowed for the transformer; scikit-learn "
    "classifiers reject NaN targets), strings; `closest=False` and `closest=True` (the nearest-neighbour fallback; its search "
    "`_find_closest` is a parameter of the model, and the real code is compared with the model only on arrays of "
    "fitted labels: on an unseen label the installed numpy refuses float()/int() of the (1, 1) array the search "
    "returns, so the code raises TypeError there, outside the round trip the statement quantifies over)",
    "'classes_[j] is the label of probability column j' is tested on the real code as classes_[argmax proba] == "
    "predict on rows whose maximum is unique, and column j == inner column of the code of classes_[j]",
    "'label-permutation-equivariant learners': DecisionTreeClassifier (exact agreement on rows without leaf ties) and "
    "LogisticRegression with tol=1e-10 (strictly convex objective, agreement within 1e-4)",
    "a callable fct / fct_inv pair given by the user is outside 'predefined function name' for the TABLE theorems; the "
    "search still runs the round trip and TransformedTargetRegressor2 on two such pairs and on what get_fct_inv returns "
    "for them (check_user_pair)",
]
RULE = ("table: every entry of available_fcts() (name, chain evaluated bit-exactly against the real callable on a grid, "
        "inverse name, get_fct_inv() result, regressor train/predict chains); permutations: label kind (int/float+NaN/str)"
        " x k distinct labels x target list x recorded lin (seeds re-drawn until lin is not the identity) x query list "
        "(training targets, subsets, unseen label); classifiers: LogisticRegression / DecisionTreeClassifier x label "
        "kind x non-monotone permutation, inner classes_/predict/predict_proba recorded and fed to the model. "
        "Non-trivial = lin differs from the identity and k >= 2 (table rows: always)")
LEVEL_TEXT = ("Proved in Lean for all inputs: every entry of the regenerated available_fcts table names an entry whose "
              "real function undoes it on its whole domain (and back); for every target list, every drawn permutation "
              "and every query in the fitted label set the permutation transformer followed by get_fct_inv is the "
              "identity with NaN and X untouched, with closest=False and with closest=True whatever the nearest-"
              "neighbour search returns (which then also projects unseen labels on the fitted set when the search "
              "returns fitted labels); TransformedTargetClassifier2 returns original labels, classes_ is the "
              "sorted label list aligned with the probability columns, and it coincides with the plain classifier for "
              "every equivariant learner. The tie to the code is the regenerated table plus an exact differential run.")
LEVEL_NOTE = ("models are hand transcriptions validated by exact comparison; floats are reals; scikit-learn estimators, "
              "the kd-tree search of closest=True and numpy's RNG are parameters")
TECHNIQUE = ("Lean 4 proof (reflection: decidable syntactic-inverse check on the AST-regenerated table + soundness over "
             "Mathlib reals; induction over association lists / sorted lists for the permutation model) + differential "
             "correspondence through a Lean driver")

EPS = 2.220446049250313e-16


# ------------------------------------------------------------------------------ canonical forms

def lab_tok(v):
    """label -> wire token (`n:<exact rational>`, `s:<string>`, `nan`)"""
    import numpy
    if isinstance(v, (str, numpy.str_)):
        return "s:" + str(v)
    if isinstance(v, (bool, numpy.bool_)):
        return "?bool"
    if isinstance(v, (int, numpy.integer)):
        return "n:%d" % int(v)
    if isinstance(v, (float, numpy.floating)):
        if math.isnan(float(v)):
            return "nan"
        fr = Fraction(float(v))
        return "n:%d" % fr.numerator if fr.denominator == 1 else "n:%d/%d" % (fr.numerator, fr.denominator)
    return "?" + type(v).__name__


def code_tok(v):
    """code (what the forward transform writes) -> wire token; strings are NOT read as numbers"""
    import numpy
    if isinstance(v, (str, numpy.str_)):
        return "s:" + str(v)
    if isinstance(v, (int, numpy.integer)) and not isinstance(v, (bool, numpy.bool_)):
        return str(int(v))
    if isinstance(v, (float, numpy.floating)):
        f = float(v)
        if math.isnan(f):
            return "nan"
        if f == int(f) and f >= 0:
            return str(int(f))
        return "f:%r" % f
    return "?" + type(v).__name__


def tok_val(kind, tok):
    """inverse of lab_tok for one kind of label"""
    if tok == "nan":
        return float("nan")
    if tok.startswith("s:"):
        return tok[2:]
    fr = Fraction(tok[2:])
    return int(fr) if kind == "int" else float(fr)


def jl(toks):
    toks = list(toks)
    return ",".join(toks) if toks else "-"


def frac_tok(x):
    fr = Fraction(float(x))
    return "%d/%d" % (fr.numerator, fr.denominator)


def interp_chain(chain, x):
    """numpy interpretation of a chain printed by the driver (independent of the repo's callables)"""
    import numpy
    if chain == "id":
        return x
    out = x
    for tok in chain.split(">"):
        if tok == "log":
            out = numpy.log(out)
        elif tok == "exp":
            out = numpy.exp(out)
        elif tok == "log1p":
            out = numpy.log1p(out)
        elif tok == "expm1":
            out = numpy.expm1(out)
        elif tok.startswith("add:"):
            out = out + int(tok[4:])
        else:
            raise ValueError("chain token %r" % tok)
    return out


def same_bits(a, b):
    import numpy
    a = numpy.asarray(a, dtype=float)
    b = numpy.asarray(b, dtype=float)
    return a.shape == b.shape and bool(numpy.array_equal(a, b, equal_nan=True))


class PermRecorder:
    """records what numpy.random.permutation / RandomState(...).permutation return, for the duration of
    PermutationReciprocalTransformer.fit only (harness-side patch, nothing in the repo is touched)"""

    def __init__(self):
        self.calls = []

    def __enter__(self):
        import numpy
        from mlinsights.mlmodel import sklearn_transform_inv_fct as mod
        self.numpy, self.mod = numpy, mod
        self.orig_fit = mod.PermutationReciprocalTransformer.fit
        rec = self

        def fit(this, X=None, y=None, sample_weight=None):
            orig_perm, orig_rs = numpy.random.permutation, numpy.random.RandomState

            def perm(x):
                r = orig_perm(x)
                rec.calls.append([int(v) for v in r])
                return r

            class RS:
                def __init__(self, *a, **k):
                    self._rs = orig_rs(*a, **k)

                def permutation(self, x):
                    r = self._rs.permutation(x)
                    rec.calls.append([int(v) for v in r])
                    return r

                def __getattr__(self, n):
                    return getattr(self._rs, n)
            numpy.random.permutation, numpy.random.RandomState = perm, RS
            try:
                return rec.orig_fit(this, X, y, sample_weight)
            finally:
                numpy.random.permutation, numpy.random.RandomState = orig_perm, orig_rs
        mod.PermutationReciprocalTransformer.fit = fit
        return self

    def __exit__(self, *a):
        self.mod.PermutationReciprocalTransformer.fit = self.orig_fit


# ------------------------------------------------------------------------------ generators

STR_POOL = ["a", "b", "c", "dd", "e1", "f", "gg", "h", "k2", "m", "zz", "Q", "B", "ab", "ba", "x10", "x9", "Zed", "n0", "p"]


def gen_labels(rng, kind, k):
    if kind == "int":
        return rng.sample(range(-5, 40), k)
    if kind == "float":
        return [v / 2.0 for v in rng.sample(range(-6, 40), k)]
    return rng.sample(STR_POOL, k)


def make_array(kind, values):
    import numpy
    if kind == "int":
        return numpy.array(values, dtype=numpy.int64)
    if kind == "float":
        return numpy.array(values, dtype=numpy.float64)
    return numpy.array(values)


def gen_targets(rng, kind, k, n, with_nan):
    labs = gen_labels(rng, kind, k)
    ys = list(labs) + [rng.choice(labs) for _ in range(max(0, n - k))]
    rng.shuffle(ys)
    if kind == "float" and with_nan:
        for _ in range(rng.randint(1, 3)):
            ys.insert(rng.randrange(len(ys) + 1), float("nan"))
    return labs, ys


def pick_seed(rng, k, want):
    """random_state whose drawn permutation of arange(k) satisfies `want` (re-drawn; never the identity for k>=2)"""
    import numpy
    for _ in range(200):
        s = rng.randrange(1 << 30)
        lin = [int(v) for v in numpy.random.RandomState(s).permutation(numpy.arange(k))]
        if want(lin):
            return s
    return None


def monotone_on_sorted(labels_first_occ, lin):
    """is label -> code increasing along the sorted labels?"""
    pairs = sorted(zip(labels_first_occ, lin))
    codes = [c for _, c in pairs]
    return codes == sorted(codes)


def first_occurrence(ys):
    out = []
    for v in ys:
        if isinstance(v, float) and math.isnan(v):
            continue
        if v not in out:
            out.append(v)
    return out


# ------------------------------------------------------------------------------ running the real code

def real_table_rows():
    """what the real FunctionReciprocalTransformer does for every predefined name (names, inverse names, callables)"""
    from mlinsights.mlmodel.sklearn_transform_inv_fct import FunctionReciprocalTransformer as F
    rows = []
    for name in F.available_fcts():
        t = F(name).fit()
        row = {"name": name, "fct": t.fct_, "inv": t.fct_inv_}
        try:
            g = t.get_fct_inv()
            row.update({"gname": g.fct, "gfct": g.fct_, "ginv": g.fct_inv_})
        except Exception as e:  # unknown inverse name
            row.update({"gname": type(e).__name__, "gfct": None, "ginv": type(e).__name__})
        rows.append(row)
    return rows


def make_recording_regressor():
    from sklearn.base import BaseEstimator, RegressorMixin
    import numpy

    class RecordingRegressor(BaseEstimator, RegressorMixin):
        """records the target it is trained on; predicts fixed values inside every predefined domain"""
        seen = []

        def fit(self, X, y, sample_weight=None):
            type(self).seen.append(numpy.array(y, dtype=float).copy())
            return self

        def predict(self, X):
            X = numpy.asarray(X, dtype=float)
            return 0.25 + (numpy.abs(X[:, 0]) % 7) / 4.0
    return RecordingRegressor


def run_perm_case(kind, ys, seed, q, use_global, closest=False):
    """fit / transform / get_fct_inv / transform on the real code; canonical strings + the recorded lin"""
    import numpy
    from mlinsights.mlmodel.sklearn_transform_inv_fct import PermutationReciprocalTransformer as P
    y = make_array(kind, ys)
    qa = make_array(kind, q)
    X = numpy.arange(2 * len(q), dtype=float).reshape(len(q), 2)
    if use_global:
        numpy.random.seed(seed)
        p = P(closest=closest)
    else:
        p = P(random_state=seed, closest=closest)
    with PermRecorder() as rec:
        p.fit(None, y)
    lin = rec.calls[0] if len(rec.calls) == 1 else None
    fwd = jl("%s=%s" % (lab_tok(k), code_tok(v)) for k, v in p.permutation_.items())
    info = {"x_same": True, "err": None}
    try:
        X2, qT = p.transform(X, qa)
        info["x_same"] = X2 is X
        qts = jl(code_tok(v) for v in qT)
    except Exception as e:
        qT, qts = None, type(e).__name__
    inv = p.get_fct_inv()
    invs = jl("%s=%s" % (code_tok(k), lab_tok(v)) for k, v in inv.permutation_.items())
    # theorem get_fct_inv_involutive: reversing twice gives the fitted dictionary back.  The oracle asks for the same
    # entries only (dictionary order and the `closest` flag are not observable through the round trip of the statement)
    inv2 = inv.get_fct_inv()
    info["inv2_same"] = (sorted("%s=%s" % (lab_tok(k), code_tok(v)) for k, v in inv2.permutation_.items())
                         == sorted("%s=%s" % (lab_tok(k), code_tok(v)) for k, v in p.permutation_.items()))
    if qT is None:
        back, backs = None, "-"
    else:
        try:
            X3, back = inv.transform(X, qT)
            info["x_same"] = info["x_same"] and X3 is X
            backs = jl(lab_tok(v) for v in back)
        except Exception as e:
            back, backs = None, type(e).__name__
            info["err"] = "%s: %s" % (type(e).__name__, str(e)[:120])
    return {"lin": lin, "impl": "%s|%s|%s|%s" % (fwd, qts, invs, backs), "back": back, "qT": qT, "info": info,
            "fit_returns": None}


def perm_line(kind, ys, lin, q, closest=False):
    k = "F" if kind == "float" else "P"
    return "%s %s %s %s %s" % ("permc" if closest else "perm", k, jl(lab_tok(v) for v in make_array(kind, ys)), jl(str(v) for v in lin),
                                 jl(lab_tok(v) for v in make_array(kind, q)))


def make_clf(which):
    from sklearn.linear_model import LogisticRegression
    from sklearn.tree import DecisionTreeClassifier
    if which == "tree":
        return DecisionTreeClassifier(random_state=0)
    if which == "tree3":
        return DecisionTreeClassifier(random_state=0, max_depth=2)
    return LogisticRegression(tol=1e-10, max_iter=5000)


def make_xy(rng, kind, k, n):
    """integer features loosely clustered by class so that classifiers have something to learn"""
    import numpy
    labs = gen_labels(rng, kind, k)
    rows, ys = [], []
    for i in range(n):
        c = i % k if i < 2 * k else rng.randrange(k)
        rows.append([4 * c + rng.randint(-1, 2), 3 * ((c * 5) % k) + rng.randint(-1, 1)])
        ys.append(labs[c])
    order = list(range(n))
    rng.shuffle(order)
    X = numpy.array([rows[i] for i in order], dtype=float)
    ys = [ys[i] for i in order]
    return labs, X, ys


def run_clf_case(kind, which, X, ys, seed, Xq):
    """TransformedTargetClassifier2 on the real code + everything recorded from the inner classifier"""
    import numpy
    from mlinsights.mlmodel.sklearn_transform_inv_fct import PermutationReciprocalTransformer as P
    from mlinsights.mlmodel.target_predictors import TransformedTargetClassifier2 as TC
    y = make_array(kind, ys)
    tc = TC(make_clf(which), P(random_state=seed))
    out = {"lin": None, "fit_err": None}
    with PermRecorder() as rec:
        try:
            tc.fit(X, y)
        except Exception as e:
            out["fit_err"] = "%s: %s" % (type(e).__name__, str(e)[:160])
    out["lin"] = rec.calls[0] if len(rec.calls) == 1 else None
    if out["fit_err"]:
        out["impl"] = "fit:" + out["fit_err"].split(":")[0]
        return out, tc
    inner = tc.classifier_
    out["icls"] = [code_tok(v) for v in inner.classes_]
    out["ipred"] = [code_tok(v) for v in inner.predict(Xq)]
    pr = inner.predict_proba(Xq)
    out["iproba"] = [[frac_tok(v) for v in row] for row in pr]

    def canon(f, g):
        try:
            return g(f())
        except Exception as e:
            return type(e).__name__
    ps = canon(lambda: tc.predict(Xq), lambda a: jl(lab_tok(v) for v in a))
    pps = canon(lambda: tc.predict_proba(Xq), lambda a: ";".join(jl(frac_tok(v) for v in row) for row in a) or "-")
    cs = canon(lambda: tc.classes_, lambda a: jl(lab_tok(v) for v in a))
    out["impl"] = "%s|%s|%s" % (ps, pps, cs)
    return out, tc


# ------------------------------------------------------------------------------ correspondence

def correspond(ctx):
    ctx.shadow(need_cython=True)
    import numpy
    from mlinsights.mlmodel.target_predictors import TransformedTargetRegressor2 as TR
    from sklearn.linear_model import LinearRegression
    corr = Corr()
    corr.rule = RULE
    rng = ctx.rng
    lines, expect = [], []     # expect: (op, input, impl string or callable(model_line)->(model, impl) or None)

    # ---- A. the table, through the generated Lean data
    lines.append("table")
    rows = real_table_rows()
    grid = numpy.array([0.125, 0.25, 0.5, 0.75, 1.0, 1.5, 2.0, 3.0, 4.5])
    X = numpy.arange(len(grid), dtype=float).reshape(-1, 1)
    RR = make_recording_regressor()
    reg = {}
    with numpy.errstate(all="ignore"):
        for r in rows:
            RR.seen = []
            try:
                tr = TR(regressor=RR(), transformer=r["name"]).fit(X, grid)
                reg[r["name"]] = {"seen": RR.seen[-1], "inner": tr.regressor_.predict(X), "pred": tr.predict(X)}
                lr = TR(regressor=LinearRegression(), transformer=r["name"]).fit(X, grid)
                reg[r["name"]].update({"lr_inner": lr.regressor_.predict(X), "lr_pred": lr.predict(X)})
            except Exception as e:
                reg[r["name"]] = {"error": type(e).__name__}

    def check_table(got):
        ents = [e.split("|") for e in got.split(";")] if got else []
        bad = []
        if [e[0] for e in ents] != [r["name"] for r in rows]:
            return [("table-names", [r["name"] for r in rows], [e[0] for e in ents], [r["name"] for r in rows])]
        with numpy.errstate(all="ignore"):
            for e, r in zip(ents, rows):
                name, chain, inv, gname, gchain, ginv, rf, rg = e
                corr.case(("table", name, chain, inv), nontrivial=True,
                          sample={"op": "table", "entry": e} if name in ("log(1+x)", "exp(x)-1") else None)
                corr.hit("table-entry")
                impl = [r["name"], None, r["inv"], r["gname"], None, r["ginv"]]
                model = [name, chain, inv, gname, gchain, ginv]
                try:
                    ok_f = same_bits(interp_chain(chain, grid), r["fct"](grid))
                except ValueError:
                    ok_f = False
                ok_g = gchain == "none" and r["gfct"] is None
                if r["gfct"] is not None and gchain != "none":
                    try:
                        ok_g = same_bits(interp_chain(gchain, grid), r["gfct"](grid))
                    except ValueError:
                        ok_g = False
                if (name, inv, gname, ginv) != (r["name"], r["inv"], r["gname"], r["ginv"]) or not ok_f or not ok_g:
                    bad.append(("table-entry", name, "|".join(model) + " chain_ok=%s invchain_ok=%s" % (ok_f, ok_g),
                                "|".join(str(v) for v in impl)))
                    continue
                # regressor: trained on f(y), predicts g(inner)
                rr = reg[name]
                corr.case(("regressor", name), nontrivial=True)
                corr.hit("regressor")
                if "error" in rr or rf == "none":
                    if not ("error" in rr and rf == "none"):
                        bad.append(("regressor", name, "%s|%s" % (rf, rg), rr.get("error", "fits")))
                    continue
                ok = (same_bits(interp_chain(rf, grid), rr["seen"]) and
                      same_bits(interp_chain(rg, rr["inner"]), rr["pred"]) and
                      same_bits(interp_chain(rg, rr["lr_inner"]), rr["lr_pred"]))
                if not ok:
                    bad.append(("regressor", name, "train on %s, predict %s(inner)" % (rf, rg),
                                {"seen": rr["seen"].tolist(), "inner": rr["inner"].tolist(),
                                 "pred": rr["pred"].tolist()}))
        return bad
    expect.append(("table", None, check_table))

    # ---- B. permutations: fit / transform / get_fct_inv / transform
    n_perm = ctx.pick(150, 2500)
    for t in range(n_perm):
        kind = ("int", "float", "str")[t % 3]
        k = rng.randint(1, 3) if t % 11 == 0 else rng.randint(2, ctx.pick(7, 12))
        n = k + rng.randint(0, 2 * k + 2)
        labs, ys = gen_targets(rng, kind, k, n, with_nan=(t % 2 == 0))
        allow_identity = (t % 17 == 0) or k == 1
        seed = pick_seed(rng, k, (lambda lin: True) if allow_identity else (lambda lin: lin != sorted(lin)))
        mode = t % 5
        if mode == 0:
            q = list(ys)
        elif mode == 1:
            q = [v for v in ys if rng.random() < 0.6] or list(ys[:1])
        elif mode == 2:
            q = list(reversed(ys)) + list(ys[:2])
        elif mode == 3:
            q = list(ys)
            unseen = {"int": 1000 + t, "float": 1000.5 + t, "str": "unseen"}[kind]
            q.insert(rng.randrange(len(q) + 1), unseen)
        else:
            q = [ys[rng.randrange(len(ys))] for _ in range(rng.randint(1, 6))]
        use_global = (t % 7 == 3)
        # closest=True on arrays of fitted labels (model: transformPlainC / transformLabelsC with the driver's
        # search).  Unseen labels are not sent with closest=True: `_find_closest` converts a (1, 1) array with
        # float()/int(), which numpy >= 2.3 refuses (TypeError), so the real code has no output to compare there.
        closest = (mode != 3 and (t // 3) % 2 == 1)
        res = run_perm_case(kind, ys, seed, q, use_global, closest=closest)
        lin = res["lin"]
        if lin is None:
            corr.disagree("perm-recording", {"kind": kind, "y": [str(v) for v in ys]}, "one permutation call",
                          "no or several numpy permutation calls")
            continue
        lines.append(perm_line(kind, ys, lin, q, closest=closest))
        inp = {"kind": kind, "y": [lab_tok(v) for v in make_array(kind, ys)], "random_state": seed, "lin": lin,
               "q": [lab_tok(v) for v in make_array(kind, q)], "global_rng": use_global, "closest": closest}
        expect.append(("perm", inp, res["impl"]))
        ident = lin == sorted(lin)
        corr.case(("perm", kind, tuple(inp["y"]), tuple(lin), tuple(inp["q"])), nontrivial=(not ident and k >= 2),
                  sample={"op": "perm", "input": inp, "impl": res["impl"]} if t in (0, 1, 2, 3) else None)
        corr.hit("perm:" + kind)
        corr.hit("perm:k=%d" % k if k < 8 else "perm:k>=8")
        corr.hit("perm:identity" if ident else "perm:non-identity")
        if any(isinstance(v, float) and math.isnan(v) for v in ys):
            corr.hit("perm:y-has-NaN")
        if mode == 3:
            corr.hit("perm:unseen-label")
        if use_global:
            corr.hit("perm:random_state=None")
        corr.hit("perm:closest=True" if closest else "perm:closest=False")
        if not res["info"]["x_same"]:
            corr.disagree("perm-features", inp, "X returned as given", "X replaced")

    # ---- C. TransformedTargetClassifier2 around real classifiers
    n_clf = ctx.pick(36, 400)
    for t in range(n_clf):
        kind = ("int", "str", "float")[t % 3]
        which = ("tree", "logreg", "tree3")[(t // 3) % 3]
        k = rng.randint(2, ctx.pick(5, 7))
        n = 3 * k + rng.randint(0, 8)
        labs, X, ys = make_xy(rng, kind, k, n)
        focc = first_occurrence(ys)
        seed = pick_seed(rng, k, lambda lin: lin != sorted(lin) and (k == 2 or not monotone_on_sorted(focc, lin)))
        Xq = numpy.vstack([X[: min(n, 10)], numpy.array([[0.0, 0.0], [9.0, 2.0], [30.0, -3.0]])])
        out, _ = run_clf_case(kind, which, X, ys, seed, Xq)
        inp = {"kind": kind, "clf": which, "X": X.tolist(), "y": [lab_tok(v) for v in make_array(kind, ys)],
               "random_state": seed, "lin": out["lin"], "Xq": Xq.tolist()}
        if out["lin"] is None:
            corr.disagree("clf-recording", inp, "one permutation call", "no or several numpy permutation calls")
            continue
        corr.hit("clf:%s:%s" % (which, kind))
        corr.hit("clf:monotone" if monotone_on_sorted(focc, out["lin"]) else "clf:non-monotone")
        key = ("clf", which, kind, tuple(inp["y"]), tuple(out["lin"]))
        if out["fit_err"]:
            corr.case(key, nontrivial=True)
            corr.disagree("clf-fit", inp, "fit succeeds", out["fit_err"])
            continue
        bad_codes = [c for c in out["icls"] + out["ipred"] if not c.isdigit()]
        if bad_codes:
            corr.hit("clf:inner-codes-not-integers")
            corr.case(key, nontrivial=True)
            corr.disagree("clf-inner-codes", inp, "inner classifier trained on integer codes 0..k-1",
                          {"inner_classes": out["icls"], "impl": out["impl"][:200]})
            continue
        lines.append("clf %s %s %s %s %s" % (jl(inp["y"]), jl(str(v) for v in out["lin"]), jl(out["icls"]),
                                            jl(out["ipred"]), ";".join(jl(r) for r in out["iproba"])))
        expect.append(("clf", inp, out["impl"]))
        corr.case(key, nontrivial=out["lin"] != sorted(out["lin"]),
                  sample={"op": "clf", "y": inp["y"], "lin": out["lin"], "impl": out["impl"][:300]} if t < 2 else None)

    got = run_driver(DRIVER, lines)
    for (op, inp, impl), g in zip(expect, got):
        if callable(impl):
            for o, i, m, im in impl(g):
                corr.disagree(o, i, m, im)
            continue
        if op == "clf":
            g = "|".join(g.split("|")[:3])      # 4th field (classes_ in inner order) is informational
        if g != impl:
            corr.disagree(op, inp, g, impl)
    return corr


# ------------------------------------------------------------------------------ search (oracle from the statement)

def fct_domain_grid():
    import numpy
    return numpy.array([-0.875, -0.5, -0.25, 0.0, 0.125, 0.5, 1.0, 1.5, 2.0, 3.0, 5.0, -2.0, -5.0])


def check_fct(name, ys, dtype="float64"):
    """round trip of one predefined name on targets `ys` (list of numbers, held in an array of `dtype`: count targets
    are integer arrays): [(key, what, observed, required)]"""
    import numpy
    from mlinsights.mlmodel.sklearn_transform_inv_fct import FunctionReciprocalTransformer as F
    bad = []
    y = numpy.array(ys, dtype=numpy.dtype(dtype))
    y0 = y.astype(float)
    X = numpy.arange(2 * len(y), dtype=float).reshape(len(y), 2)
    X0 = X.copy()
    with numpy.errstate(all="ignore"):
        t = F(name).fit()
        X2, y2 = t.transform(X, y)
        indom = numpy.isfinite(y2)            # the function is defined (finite real) at y
        try:
            inv = t.get_fct_inv()
            X3, y3 = inv.transform(X2, y2)
        except Exception as e:
            return [("FunctionReciprocalTransformer[%s]:get_fct_inv-raises" % name, "get_fct_inv / transform raises",
                     "%s: %s" % (type(e).__name__, e), "a transformer undoing %s" % name)]
    if not (X2 is X and X3 is X and numpy.array_equal(X, X0)):
        bad.append(("FunctionReciprocalTransformer[%s]:features-touched" % name, "features are not returned untouched",
                    "X changed or replaced", "X"))
    if not numpy.array_equal(y.astype(float), y0):
        bad.append(("FunctionReciprocalTransformer[%s]:targets-mutated" % name, "caller's y was modified",
                    y.tolist(), y0.tolist()))
    tol = 64 * EPS * (1 + numpy.abs(y0)) * (1 + numpy.abs(numpy.where(indom, y2, 0.0)))
    with numpy.errstate(all="ignore"):
        wrong = indom & ~(numpy.abs(y3 - y0) <= tol)
    if wrong.any():
        i = int(numpy.argmax(wrong))
        bad.append(("FunctionReciprocalTransformer[%s]:roundtrip" % name,
                    "get_fct_inv().transform(transform(y)) differs from y for a target in the domain of %s" % name,
                    {"y": float(y0[i]), "transformed": float(y2[i]), "back": float(y3[i]),
                     "inverse_used": getattr(inv, "fct", None)}, "y = %r (tolerance %.3g)" % (float(y0[i]), tol[i])))
    return bad


def check_regressor(name, ys):
    """TransformedTargetRegressor2(name): trained on f(y); f(predict) == inner prediction"""
    import numpy
    from mlinsights.mlmodel.sklearn_transform_inv_fct import FunctionReciprocalTransformer as F
    from mlinsights.mlmodel.target_predictors import TransformedTargetRegressor2 as TR
    from sklearn.linear_model import LinearRegression
    bad = []
    f = F.available_fcts()[name][0]
    y = numpy.array(ys, dtype=float)
    X = numpy.array([[float(i), float((i * i) % 5)] for i in range(len(y))])
    RR = make_recording_regressor()
    with numpy.errstate(all="ignore"):
        fy = f(y)
        if not numpy.isfinite(fy).all():
            return []
        for regressor, wts in ((RR(), None), (LinearRegression(), None), (RR(), numpy.ones(len(y))),
                               (LinearRegression(), 1.0 + (numpy.arange(len(y)) % 3))):
            RR.seen = []
            try:
                tr = TR(regressor=regressor, transformer=name)
                tr = tr.fit(X, y) if wts is None else tr.fit(X, y, sample_weight=wts)
                inner = tr.regressor_.predict(X)
                pred = tr.predict(X)
            except Exception as e:
                bad.append(("TransformedTargetRegressor2[%s]:raises" % name, "fit/predict raises",
                            "%s: %s" % (type(e).__name__, e), "predictions"))
                continue
            if RR.seen and not numpy.array_equal(RR.seen[-1], fy):
                bad.append(("TransformedTargetRegressor2[%s]:trained-on" % name,
                            "inner regressor not trained on the transformed target", RR.seen[-1].tolist(), fy.tolist()))
            # predict = f^-1(inner)  <=>  f(predict) = inner, wherever predict is a finite real in f's domain;
            # inner predictions outside the range of f have no preimage and are skipped
            fp = f(pred)
            ok_rows = numpy.isfinite(pred) & numpy.isfinite(fp)
            tol = 64 * EPS * (1 + numpy.abs(inner)) * (1 + numpy.abs(numpy.where(ok_rows, pred, 0.0)))
            wrong = ok_rows & ~(numpy.abs(fp - inner) <= tol)
            # an inner prediction inside the range of f must get a finite preimage
            if isinstance(regressor, RR):
                in_range = numpy.ones(len(inner), dtype=bool)      # RR predicts in [0.25, 2): in every range
                wrong |= in_range & ~ok_rows
            if wrong.any():
                i = int(numpy.argmax(wrong))
                bad.append(("TransformedTargetRegressor2[%s]:predict-not-inverse-of-inner" % name,
                            "predict is not the inverse function of what the inner regressor predicts",
                            {"inner": float(inner[i]), "predict": float(pred[i]), "f(predict)": float(fp[i])},
                            "f(predict) == inner prediction"))
    return bad


def check_perm(kind, ys, seed, q, use_global=False, closest=False):
    """transform then get_fct_inv().transform gives q back; NaN stays NaN; X untouched"""
    import numpy
    res = run_perm_case(kind, ys, seed, q, use_global, closest=closest)
    bad = []
    qa = make_array(kind, q)
    tag = "PermutationReciprocalTransformer[%s labels%s]" % (kind, ", closest=True" if closest else "")
    if res["back"] is None:
        bad.append((tag + ":roundtrip-raises", "transform / get_fct_inv().transform raises on labels of the fitted set",
                    {"error": res["info"]["err"] or res["impl"].split("|")[1], "transformed": res["impl"].split("|")[1]},
                    "the original targets"))
        return bad, res
    back = res["back"]
    same = len(back) == len(qa)
    if same:
        for a, b in zip(back, qa):
            an = isinstance(a, (float, numpy.floating)) and math.isnan(float(a))
            bn = isinstance(b, (float, numpy.floating)) and math.isnan(float(b))
            if an != bn or (not an and not (a == b and lab_tok(a)[:2] == lab_tok(b)[:2])):
                same = False
                break
    if not same:
        bad.append((tag + ":roundtrip", "round trip does not give the original targets back",
                    [lab_tok(v) for v in back], [lab_tok(v) for v in qa]))
    if res["qT"] is not None and kind == "float":
        nan_in = [math.isnan(float(v)) for v in qa]
        nan_mid = [isinstance(v, (float, numpy.floating)) and math.isnan(float(v)) for v in res["qT"]]
        if nan_in != nan_mid:
            bad.append((tag + ":nan-moved", "NaN targets do not stay NaN", nan_mid, nan_in))
    if not res["info"].get("inv2_same", True):
        bad.append((tag + ":get_fct_inv-not-involutive", "get_fct_inv().get_fct_inv() is not the fitted transformer",
                    "different permutation_", res["impl"].split("|")[0]))
    if not res["info"]["x_same"]:
        bad.append((tag + ":features-touched", "features are not returned untouched", "X replaced", "X"))
    return bad, res


def check_clf(kind, which, X, ys, seed, Xq):
    """oracles of the statement for TransformedTargetClassifier2 on the real code"""
    import numpy
    from sklearn.base import clone
    X = numpy.array(X, dtype=float)
    Xq = numpy.array(Xq, dtype=float)
    out, tc = run_clf_case(kind, which, X, ys, seed, Xq)
    tag = "TransformedTargetClassifier2[%s labels]" % kind
    bad = []
    if out["fit_err"]:
        return [(tag + ":raises", "fit raises on a valid label set", out["fit_err"], "a fitted classifier")], out
    y = make_array(kind, ys)
    try:
        pred = tc.predict(Xq)
        proba = tc.predict_proba(Xq)
        classes = tc.classes_
        pred_train = tc.predict(X)
    except Exception as e:
        return [(tag + ":raises", "predict / predict_proba / classes_ raises on a valid label set",
                 "%s: %s" % (type(e).__name__, str(e)[:160]), "predictions in original labels")], out
    labels = set(lab_tok(v) for v in y)
    if not set(lab_tok(v) for v in pred) <= labels:
        bad.append((tag + ":predict-not-original-labels", "predict returns values that are not original labels",
                    [lab_tok(v) for v in pred], sorted(labels)))
    if which == "tree":
        # fully grown tree, distinct rows => training rows are predicted as their own label
        _, idx = numpy.unique(X, axis=0, return_index=True)
        if len(idx) == len(X) and [lab_tok(v) for v in pred_train] != [lab_tok(v) for v in y]:
            bad.append((tag + ":predict-not-original-labels", "a fully grown tree does not predict its training labels",
                        [lab_tok(v) for v in pred_train], [lab_tok(v) for v in y]))
    if proba.shape != (len(Xq), len(classes)):
        bad.append((tag + ":proba-shape", "predict_proba has not one column per class", list(proba.shape),
                    [len(Xq), len(classes)]))
        return bad, out
    srt = numpy.sort(proba, axis=1)
    unique_max = (srt[:, -1] - srt[:, -2] > 1e-9) if proba.shape[1] > 1 else numpy.ones(len(Xq), dtype=bool)
    am = proba.argmax(axis=1)
    mism = [i for i in range(len(Xq)) if unique_max[i] and lab_tok(classes[am[i]]) != lab_tok(pred[i])]
    if mism:
        i = mism[0]
        bad.append(("TransformedTargetClassifier2.classes_:not-aligned-with-proba-columns",
                    "classes_[argmax predict_proba] differs from predict (row with a unique maximum)",
                    {"classes_": [lab_tok(v) for v in classes], "proba_row": proba[i].tolist(),
                     "classes_[argmax]": lab_tok(classes[am[i]]), "predict": lab_tok(pred[i])},
                    "classes_[j] is the label of probability column j"))
    # comparison with the plain classifier (label-permutation-equivariant learners); plain scikit-learn
    # classifiers reject non-integer float labels
    if kind != "float":
        plain = clone(make_clf(which)).fit(X, y)
        pp, ppred = plain.predict_proba(Xq), plain.predict(Xq)
        if [lab_tok(v) for v in plain.classes_] != [lab_tok(v) for v in classes]:
            if not mism:
                bad.append(("TransformedTargetClassifier2.classes_:differs-from-plain-classifier",
                            "classes_ differs from the plain classifier's", [lab_tok(v) for v in classes],
                            [lab_tok(v) for v in plain.classes_]))
        tol = 0.0 if which.startswith("tree") else 1e-4
        if which.startswith("tree"):
            # leaf ties are broken by class order, which the permutation changes: compare tie-free rows
            ps = numpy.sort(pp, axis=1)
            rows = (ps[:, -1] - ps[:, -2] > 1e-9) if pp.shape[1] > 1 else numpy.ones(len(Xq), dtype=bool)
        else:
            ps = numpy.sort(pp, axis=1)
            rows = (ps[:, -1] - ps[:, -2] > 1e-2) if pp.shape[1] > 1 else numpy.ones(len(Xq), dtype=bool)
        if pp.shape == proba.shape:
            dp = numpy.abs(pp - proba).max(axis=1)
            wrong = [i for i in range(len(Xq)) if (dp[i] > tol and (not which.startswith("tree") or rows[i]))]
            if which.startswith("tree"):
                # probabilities of a tree do not depend on tie-breaking
                wrong = [i for i in range(len(Xq)) if dp[i] > 0]
            if wrong and not mism:
                i = wrong[0]
                bad.append(("TransformedTargetClassifier2.predict_proba:differs-from-plain-classifier",
                            "probabilities differ from the plain classifier's (equivariant learner)",
                            proba[i].tolist(), pp[i].tolist()))
            wp = [i for i in range(len(Xq)) if rows[i] and lab_tok(ppred[i]) != lab_tok(pred[i])]
            if wp:
                i = wp[0]
                bad.append(("TransformedTargetClassifier2.predict:differs-from-plain-classifier",
                            "predictions differ from the plain classifier's (equivariant learner, tie-free row)",
                            lab_tok(pred[i]), lab_tok(ppred[i])))
    return bad, out


def _pair_affine():
    return (lambda a: 2.0 * a + 1.0), (lambda a: (a - 1.0) / 2.0)


def _pair_cube():
    import numpy
    return (lambda a: numpy.asarray(a, dtype=float) ** 3), (lambda a: numpy.cbrt(numpy.asarray(a, dtype=float)))


def check_user_pair(seed):
    """A reciprocal transformer built by the CALLER (a pair of callables), and the ones `get_fct_inv` returns for it at
    the first and second level: each of them followed by ITS `get_fct_inv()` gives the targets back, and
    TransformedTargetRegressor2 given any of them predicts the inverse function of what its regressor predicts."""
    import random
    import numpy
    from sklearn.linear_model import LinearRegression
    from mlinsights.mlmodel.sklearn_transform_inv_fct import FunctionReciprocalTransformer as FRT
    from mlinsights.mlmodel.target_predictors import TransformedTargetRegressor2 as TTR2
    rng = random.Random(seed)
    f, g = (_pair_affine, _pair_cube)[seed % 2]()
    pair = ("affine", "cube")[seed % 2]
    n = rng.randint(8, 20)
    X = numpy.array([[rng.uniform(0.5, 3.0), rng.uniform(0.5, 3.0)] for _ in range(n)])
    y = 0.5 + X[:, 0] + 0.25 * X[:, 1]
    bad = []
    try:
        t0 = FRT(f, g).fit()
        t1 = t0.get_fct_inv().fit()
        t2 = t1.get_fct_inv().fit()
    except Exception as e:  # noqa: BLE001
        return [("FunctionReciprocalTransformer[callables]:get_fct_inv-raises", "get_fct_inv raises for a pair of callables",
                 "%s: %s" % (type(e).__name__, str(e)[:120]), "the reverse transformer")]
    for level, (t, fwd, inv) in enumerate(((t0, f, g), (t1, g, f), (t2, f, g))):
        tag = "FunctionReciprocalTransformer[callables,level %d]" % level
        try:
            _, mid = t.transform(X, y)
            _, back = t.get_fct_inv().transform(X, mid)
            if not numpy.allclose(mid, fwd(y), rtol=1e-12, atol=1e-12):
                bad.append((tag + ":applies-another-function", "the transformer does not apply the function it was given (%s "
                            "pair)" % pair, numpy.asarray(mid)[:4].tolist(), numpy.asarray(fwd(y))[:4].tolist()))
            elif not numpy.allclose(back, y, rtol=1e-9, atol=1e-9):
                bad.append((tag + ":roundtrip", "transform followed by get_fct_inv().transform does not give the targets back "
                            "(%s pair; level 0 = the caller's transformer, level k = get_fct_inv applied k times)" % pair,
                            numpy.asarray(back)[:4].tolist(), y[:4].tolist()))
            m = TTR2(LinearRegression(), transformer=t).fit(X, y)
            inner = m.regressor_.predict(X)
            got = numpy.asarray(m.predict(X)).ravel()
            want = numpy.asarray(inv(inner)).ravel()
            if not numpy.allclose(got, want, rtol=1e-9, atol=1e-9):
                bad.append(("TransformedTargetRegressor2[callables,level %d]:not-inverse-of-inner-prediction" % level,
                            "predict is not the inverse function of what the regressor trained on the transformed target "
                            "predicts (%s pair)" % pair, got[:4].tolist(), want[:4].tolist()))
        except Exception as e:  # noqa: BLE001
            bad.append((tag + ":raises", "transform / get_fct_inv / TransformedTargetRegressor2 raises for a pair of callables",
                        "%s: %s" % (type(e).__name__, str(e)[:120]), "the targets back"))
    return bad


def check_shared_transformer(seed):
    """fit model A with transformer object T, then model B with the SAME object on other labels: A must still
    predict its own original labels (and B its own) -- each model works on its own fitted copy of T."""
    import random
    import numpy
    from sklearn.tree import DecisionTreeClassifier
    from mlinsights.mlmodel import TransformedTargetClassifier2, PermutationReciprocalTransformer
    rng = random.Random(seed)
    X = numpy.array([[i % 7, (i * 3) % 5] for i in range(30)], dtype=float)
    ya = numpy.array([10 + 2 * ((i % 7) // 2) for i in range(30)])
    yb = numpy.array([100 + 5 * ((i * 3) % 5) for i in range(30)])
    T = PermutationReciprocalTransformer(random_state=rng.randrange(1, 1000))
    bad = []
    try:
        A = TransformedTargetClassifier2(DecisionTreeClassifier(random_state=0), transformer=T).fit(X, ya)
        pa0 = A.predict(X)
        B = TransformedTargetClassifier2(DecisionTreeClassifier(random_state=0), transformer=T).fit(X, yb)
        pa1, pb = A.predict(X), B.predict(X)
    except Exception as e:  # noqa: BLE001
        return [("TransformedTargetClassifier2[shared transformer object]:raises",
                 "predict raises after the same transformer object was used by another model",
                 "%s: %s" % (type(e).__name__, str(e)[:150]), "each model predicts its own original labels")]
    if not numpy.array_equal(pa0, pa1) or not set(pa1.tolist()) <= set(ya.tolist()):
        bad.append(("TransformedTargetClassifier2[shared transformer object]:predictions-change",
                    "predictions of a fitted model change (or leave its label set) after ANOTHER model was fitted with "
                    "the same transformer object", {"before": pa0.tolist()[:8], "after": pa1.tolist()[:8]},
                    "predictions in %s, unchanged" % sorted(set(ya.tolist()))))
    if not set(pb.tolist()) <= set(yb.tolist()):
        bad.append(("TransformedTargetClassifier2[shared transformer object]:labels-not-original",
                    "second model predicts labels outside its training labels", pb.tolist()[:8],
                    sorted(set(yb.tolist()))))
    return bad


def check_perm_history(seed):
    """(1) fit(y1); get_fct_inv(); fit(y2); get_fct_inv(): the reciprocal returned after the SECOND fit undoes the
    second permutation.  (2) float32 / float16 targets with NaN: NaN stays NaN and the round trip is exact."""
    import math
    import random
    import numpy
    from mlinsights.mlmodel import PermutationReciprocalTransformer
    rng = random.Random(seed)
    bad = []
    X = numpy.zeros((12, 1))
    y1 = numpy.array([rng.choice([3, 5, 8, 13]) for _ in range(12)])
    y2 = numpy.array([rng.choice([21, 34, 55, 89, 144]) for _ in range(12)])
    y1[:4], y2[:5] = [3, 5, 8, 13], [21, 34, 55, 89, 144]
    tag = "PermutationReciprocalTransformer[refit]"
    try:
        t = PermutationReciprocalTransformer(random_state=rng.randrange(1, 100))
        t.fit(X, y1)
        t.get_fct_inv()
        t.fit(X, y2)
        _, mid = t.transform(X, y2)
        _, back = t.get_fct_inv().transform(X, mid)
        if not numpy.array_equal(numpy.asarray(back), y2):
            bad.append((tag + ":roundtrip", "after a second fit, get_fct_inv() does not undo the transformer",
                        numpy.asarray(back).tolist(), y2.tolist()))
    except Exception as e:  # noqa: BLE001
        bad.append((tag + ":raises", "transform / get_fct_inv().transform raises after a second fit",
                    "%s: %s" % (type(e).__name__, str(e)[:120]), "the original targets"))
    # a table of labels (several targets per row) in either memory layout: cell (i, j) is permuted as a label, and
    # the reciprocal transformer gives the table back
    base = numpy.array([[rng.choice([3, 5, 8, 13]) for _ in range(3)] for _ in range(6)])
    base[:4, 0] = [3, 5, 8, 13]
    for layout, Y in (("C", numpy.ascontiguousarray(base)), ("F", numpy.asfortranarray(base)), ("T", base.T.copy().T)):
        tag = "PermutationReciprocalTransformer[label table, %s layout]" % layout
        try:
            t = PermutationReciprocalTransformer(random_state=rng.randrange(1, 100)).fit(numpy.zeros((6, 1)), Y)
            _, mid = t.transform(numpy.zeros((6, 1)), Y)
            mid = numpy.asarray(mid)
            want = numpy.array([[t.permutation_[v] for v in row] for row in Y.tolist()])
            if mid.shape != Y.shape or not numpy.array_equal(mid, want):
                bad.append((tag + ":cellwise", "transform of a table of labels is not the permutation applied cell by cell",
                            mid.tolist(), want.tolist()))
            else:
                _, back = t.get_fct_inv().transform(numpy.zeros((6, 1)), mid)
                if not numpy.array_equal(numpy.asarray(back), Y):
                    bad.append((tag + ":roundtrip", "round trip of a table of labels does not give the table back",
                                numpy.asarray(back).tolist(), Y.tolist()))
        except Exception as e:  # noqa: BLE001
            bad.append((tag + ":raises", "transform / get_fct_inv().transform raises on a table of labels",
                        "%s: %s" % (type(e).__name__, str(e)[:120]), "the permuted table"))
    for dt in (numpy.float32, numpy.float16):
        vals = [0.5, 1.5, 2.0, 4.0]
        yf = numpy.array([rng.choice(vals) for _ in range(10)] + vals, dtype=dt)
        yf[rng.randrange(10)] = numpy.nan
        tag = "PermutationReciprocalTransformer[%s labels]" % dt.__name__
        try:
            t = PermutationReciprocalTransformer(random_state=rng.randrange(1, 100)).fit(numpy.zeros((14, 1)), yf)
            _, mid = t.transform(numpy.zeros((14, 1)), yf)
            _, back = t.get_fct_inv().transform(numpy.zeros((14, 1)), mid)
            mid, back = numpy.asarray(mid, dtype=float), numpy.asarray(back, dtype=float)
            nan_in = [math.isnan(float(v)) for v in yf]
            if [math.isnan(v) for v in mid] != nan_in or [math.isnan(v) for v in back] != nan_in:
                bad.append((tag + ":nan-moved", "NaN targets do not stay NaN", [math.isnan(v) for v in mid], nan_in))
            elif not all(a == float(b) for a, b, n in zip(back, yf, nan_in) if not n):
                bad.append((tag + ":roundtrip", "round trip does not give the original targets back", back.tolist(),
                            [float(v) for v in yf]))
        except Exception as e:  # noqa: BLE001
            bad.append((tag + ":roundtrip-raises", "transform / get_fct_inv().transform raises on float targets with NaN",
                        "%s: %s" % (type(e).__name__, str(e)[:120]), "NaN stays NaN, other targets come back"))
    return bad


def check_failed_refit(seed):
    """History: a successful fit, then a refit on OTHER labels that fails inside the wrapped classifier (NaN feature)
    after the target transformer was refitted.  Afterwards the object either refuses to predict or still predicts
    ORIGINAL labels with `classes_[j]` naming probability column j - of the fit that succeeded or of a consistent
    model; it never decodes one fit's classifier with another fit's permutation."""
    import random
    import numpy
    from sklearn.linear_model import LogisticRegression
    from sklearn.tree import DecisionTreeClassifier
    from mlinsights.mlmodel import TransformedTargetClassifier2
    rng = random.Random(seed)
    bad = []
    n = 24
    X = numpy.array([[float(i % 6), float((i * 5) % 7)] for i in range(n)])
    la = [10, 20, 30]
    ya = numpy.array([la[int(X[i, 0]) % 3] for i in range(n)])
    lb = rng.choice([[30, 10, 20], [7, 8, 9], [20, 30, 10]])
    yb = numpy.array([lb[int(X[i, 1]) % 3] for i in range(n)])
    for which in ("logreg", "tree"):
        base = LogisticRegression(max_iter=200) if which == "logreg" else DecisionTreeClassifier(max_depth=3, random_state=0)
        tag = "TransformedTargetClassifier2[%s,failed-refit]" % which
        try:
            m = TransformedTargetClassifier2(base, transformer="permute")
            m.fit(X, ya)
            before = (numpy.asarray(m.predict(X)).tolist(), numpy.asarray(m.predict_proba(X)).tolist(),
                      numpy.asarray(m.classes_).tolist())
        except Exception:  # noqa: BLE001  (judged by the other oracles)
            continue
        Xbad = X.copy()
        Xbad[3, 0] = numpy.nan
        try:
            m.fit(Xbad, yb)
            continue            # this classifier accepts NaN: no failure, nothing to check
        except Exception:  # noqa: BLE001
            pass
        try:
            after = (numpy.asarray(m.predict(X)).tolist(), numpy.asarray(m.predict_proba(X)).tolist(),
                     numpy.asarray(m.classes_).tolist())
        except Exception:  # noqa: BLE001
            continue            # refusing to predict after a failed fit is fine
        if after != before:
            # a consistent model of the second label set would also do: labels among lb, columns named by classes_
            pred, proba, classes = after
            ok = set(pred) <= set(classes) and all(classes[int(numpy.argmax(r))] == p for r, p in zip(proba, pred)) \
                and sorted(classes) == sorted(set(yb.tolist()))
            # ... but such a model cannot exist: the classifier of the second fit never finished training
            bad.append((tag + ":mixed-state", "after a refit that failed inside the wrapped classifier the object predicts with "
                        "the first fit's classifier decoded by the second fit's permutation",
                        {"predict": pred[:8], "classes_": classes, "self_consistent": bool(ok)},
                        {"either": "raises", "or_predict": before[0][:8], "classes_": before[2]}))
    return bad


def _size(inp):
    return len(json_dumps(inp))


def json_dumps(o):
    import json
    return json.dumps(o, default=str, sort_keys=True)


def search(ctx, hints):
    ctx.shadow(need_cython=True)
    import numpy
    from mlinsights.mlmodel.sklearn_transform_inv_fct import FunctionReciprocalTransformer as F
    rng = ctx.rng
    found, evals, nontriv, samples = [], 0, set(), []

    def report(bad, inp):
        for key, what, obs, req in bad:
            found.append(Violation(key, what, inp, obs, req))

    # (0) first the inputs on which model and implementation disagreed in the correspondence run
    for h in (hints or [])[:25]:
        inp = h.get("input") if isinstance(h, dict) else None
        if not isinstance(inp, dict) or "kind" not in inp or "y" not in inp:
            continue
        try:
            kind = inp["kind"]
            ys = [tok_val(kind, t) for t in inp["y"]]
            if h.get("op") == "perm":
                q = [tok_val(kind, t) for t in inp["q"]]
                bad, _ = check_perm(kind, ys, inp["random_state"], q, inp.get("global_rng", False),
                                    closest=inp.get("closest", False))
                report(bad, {"kind": "perm", "labels": kind, "y": ys, "random_state": inp["random_state"], "q": q,
                             "global_rng": inp.get("global_rng", False), "closest": inp.get("closest", False)})
            elif h.get("op", "").startswith("clf"):
                bad, _ = check_clf(kind, inp["clf"], inp["X"], ys, inp["random_state"], inp["Xq"])
                report(bad, {"kind": "clf", "labels": kind, "clf": inp["clf"], "X": inp["X"], "y": ys,
                             "random_state": inp["random_state"], "Xq": inp["Xq"]})
            else:
                continue
            evals += 1
        except Exception:      # a hint that cannot be decoded is not a finding
            continue

    # (a) every predefined name x targets in its domain (the function decides its own domain: finite value)
    names = list(F.available_fcts())
    base = [float(v) for v in fct_domain_grid()]
    for name in names:
        extra = [round(rng.uniform(-0.99, 5.0), 3) for _ in range(ctx.pick(30, 400))]
        ys = base + extra
        bad = check_fct(name, ys)
        evals += len(ys)
        nontriv.add(("fct", name))
        # minimise: single smallest failing target
        for key, what, obs, req in bad:
            inp = {"kind": "fct", "name": name, "y": [obs["y"]] if isinstance(obs, dict) and "y" in obs else ys[:5]}
            found.append(Violation(key, what, inp, obs, req))
        for dt in ("int64", "int32"):
            ints = [1, 2, 3, 5, 7, 4, 0, -2]
            evals += 1
            for key, what, obs, req in check_fct(name, ints, dtype=dt):
                found.append(Violation(key + ":integer-targets", what + " (targets held in an %s array)" % dt,
                                       {"kind": "fct", "name": name, "y": ints, "dtype": dt}, obs, req))
        bad = check_regressor(name, [0.125, 0.5, 1.0, 2.0, 3.0, 4.5])
        evals += 1
        report(bad, {"kind": "reg", "name": name, "y": [0.125, 0.5, 1.0, 2.0, 3.0, 4.5]})
        if len(samples) < 2:
            samples.append({"kind": "fct", "name": name, "targets": ys[:6]})

    # (b) label sets x permutations (never the identity)
    for t in range(ctx.pick(90, 1500)):
        kind = ("int", "float", "str")[t % 3]
        k = rng.randint(2, ctx.pick(8, 14))
        labs, ys = gen_targets(rng, kind, k, k + rng.randint(0, k + 3), with_nan=(t % 2 == 1))
        seed = pick_seed(rng, k, lambda lin: lin != sorted(lin))
        q = list(ys) if t % 3 else [v for v in ys if rng.random() < 0.7] or list(ys)
        cl = (t // 3) % 2 == 1
        bad, res = check_perm(kind, ys, seed, q, use_global=(t % 9 == 4), closest=cl)
        evals += 1
        nontriv.add(("perm", kind, tuple(lab_tok(v) for v in make_array(kind, ys)), tuple(res["lin"] or [])))
        report(bad, {"kind": "perm", "labels": kind, "y": ys, "random_state": seed, "q": q,
                     "global_rng": (t % 9 == 4), "closest": cl})
        if t < 2:
            samples.append({"kind": "perm", "labels": kind, "y": [lab_tok(v) for v in make_array(kind, ys)],
                            "lin": res["lin"]})

    # (c) classifiers x label sets x non-monotone permutations
    for t in range(ctx.pick(30, 300)):
        kind = ("int", "str", "float")[t % 3]
        which = ("tree", "logreg", "tree3")[(t // 3) % 3]
        k = rng.randint(2, ctx.pick(5, 8))
        n = 3 * k + rng.randint(0, 6)
        labs, X, ys = make_xy(rng, kind, k, n)
        focc = first_occurrence(ys)
        seed = pick_seed(rng, k, lambda lin: lin != sorted(lin) and (k == 2 or not monotone_on_sorted(focc, lin)))
        Xq = numpy.vstack([X, numpy.array([[0.0, 0.0], [9.0, 2.0], [30.0, -3.0]])])
        bad, out = check_clf(kind, which, X, ys, seed, Xq)
        evals += 1
        nontriv.add(("clf", which, kind, tuple(lab_tok(v) for v in make_array(kind, ys)), tuple(out["lin"] or [])))
        report(bad, {"kind": "clf", "labels": kind, "clf": which, "X": X.tolist(), "y": ys, "random_state": seed,
                     "Xq": Xq.tolist()})
    # (d) histories: one transformer OBJECT handed to two models; each model must keep predicting its own labels
    for t in range(ctx.pick(6, 40)):
        s1 = rng.randrange(1 << 20)
        bad = check_shared_transformer(s1)
        evals += 1
        nontriv.add(("shared-transformer", s1))
        report(bad, {"kind": "shared", "seed": s1})
    for t in range(ctx.pick(4, 20)):
        s1 = rng.randrange(1 << 20)
        evals += 1
        nontriv.add(("user-pair", s1))
        report(check_user_pair(s1), {"kind": "user-pair", "seed": s1})
    # (e) refit histories of one transformer object, and float targets of every width
    for t in range(ctx.pick(8, 60)):
        s1 = rng.randrange(1 << 20)
        bad = check_perm_history(s1)
        evals += 1
        nontriv.add(("perm-history", s1))
        report(bad, {"kind": "perm-history", "seed": s1})
    # (f) a refit that fails inside the wrapped classifier after the target transformer was refitted
    for t in range(ctx.pick(3, 20)):
        s1 = rng.randrange(1 << 20)
        bad = check_failed_refit(s1)
        evals += 1
        nontriv.add(("failed-refit", s1))
        report(bad, {"kind": "failed-refit", "seed": s1})
    # dedupe by key, keep the smallest input
    best = {}
    for v in found:
        if v.key not in best or _size(v.input) < _size(best[v.key].input):
            best[v.key] = v
    return list(best.values()), {"evaluations": evals, "distinct_nontrivial": len(nontriv), "samples": samples}


def replay(ctx, item):
    ctx.shadow(need_cython=True)
    inp = item["input"]
    kind = inp["kind"]
    if kind == "fct":
        bad = check_fct(inp["name"], inp["y"], inp.get("dtype", "float64"))
        if inp.get("dtype"):
            bad = [(k + ":integer-targets", w, o, r) for k, w, o, r in bad]
    elif kind == "reg":
        bad = check_regressor(inp["name"], inp["y"])
    elif kind == "perm":
        ys = [float(v) for v in inp["y"]] if inp["labels"] == "float" else inp["y"]
        q = [float(v) for v in inp["q"]] if inp["labels"] == "float" else inp["q"]
        bad, _ = check_perm(inp["labels"], ys, inp["random_state"], q, inp.get("global_rng", False),
                            closest=inp.get("closest", False))
    elif kind == "clf":
        ys = [float(v) for v in inp["y"]] if inp["labels"] == "float" else inp["y"]
        bad, _ = check_clf(inp["labels"], inp["clf"], inp["X"], ys, inp["random_state"], inp["Xq"])
    elif kind == "shared":
        bad = check_shared_transformer(inp["seed"])
    elif kind == "perm-history":
        bad = check_perm_history(inp["seed"])
    elif kind == "user-pair":
        bad = check_user_pair(inp["seed"])
    elif kind == "failed-refit":
        bad = check_failed_refit(inp["seed"])
    else:
        raise ValueError("unknown replay kind %r" % kind)
    best = {}
    for key, what, obs, req in bad:
        best.setdefault(key, Violation(key, what, inp, obs, req))
    return list(best.values())
