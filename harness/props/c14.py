"""C14 — Traceable vectorizers equal scikit-learn's, n-grams kept as token tuples."""
import ast

from core import Corr, Violation, run_driver
from extract import pyexpr

ID = "C14"
#: functions the hand-written model transcribes: their control skeleton (extract/shape.py) is regenerated into
#: Gen/C14.lean and compared with the literal in Properties/C14.lean (`modelled_functions_have_the_transcribed_shape`)
SHAPES = [
    ("shapeMixinNgrams", "mlinsights/mlmodel/sklearn_text.py", "NGramsMixin._word_ngrams"),
    ("shapeCountNgrams", "mlinsights/mlmodel/sklearn_text.py", "TraceableCountVectorizer._word_ngrams"),
    ("shapeTfidfNgrams", "mlinsights/mlmodel/sklearn_text.py", "TraceableTfidfVectorizer._word_ngrams"),
]
SRC = "mlinsights/mlmodel/sklearn_text.py"
LEAN_TARGETS = ["MlVerif.Gen.C14", "MlVerif.Model.NGrams", "MlVerif.Lemmas.NGramsGen", "MlVerif.Lemmas.NGrams",
                "MlVerif.Lemmas.NGramsOrder", "MlVerif.Properties.C14"]
PROPERTY_FILE = "MlVerif/Properties/C14.lean"
DRIVER = "Drivers/C14.lean"
TRUSTED = [
    "scikit-learn's CountVectorizer/TfidfVectorizer machinery other than _word_ngrams (decode, preprocess, "
    "tokenize, _count_vocab, _sort_features = sorted(vocabulary.items()), _limit_features, idf, normalisation) is "
    "inherited unchanged by the Traceable classes and treats vocabulary keys only through hashing, equality and "
    "`sorted`; it is compared end to end on every run, not verified",
    "wordNgramsSK is a hand transcription of sklearn 1.9.1 _VectorizerMixin._word_ngrams, compared with the "
    "installed method on every run",
    "Python str order is lexicographic by code point (= `<` on List Char), tuple order is lexicographic over it "
    "(= `<` on List (List Char)); compared with Python's `sorted` on every run (op `order`)",
    "the default token_pattern (?u)\\b\\w\\w+\\b yields non-empty tokens made of word characters, all > ' '",
]
ASSUMPTIONS = [
    "ngram_range = (min_n, max_n) with natural numbers (scikit-learn documents 1 <= min_n <= max_n; the theorems "
    "also cover 0)",
    "default tokenizer / analyzer='word' (the statement's quantifier); custom tokenizers returning tuples are "
    "outside the statement",
    "stop_words_ (the set of pruned terms) is not compared: it holds tuples in one class and strings in the other "
    "by design",
]
RULE = ("correspondence: (token list, stop-word set or None, min_n, max_n) -> the real NGramsMixin._word_ngrams vs "
        "wordNgramsML (keys printed with their nesting) and the installed sklearn _word_ngrams vs wordNgramsSK; "
        "lists of tuples -> Python sorted() on tuples / on joined strings vs the model's orders. Non-trivial = at "
        "least 2 tokens and (max_n >= 2 or a stop word present in the document); distinct = distinct input")
LEVEL_TEXT = ("Machine-checked for every token list, stop-word set and (min_n, max_n): the override's output, "
              "joined, is scikit-learn's n-gram list item by item, every key is a flat tuple of tokens, no slice "
              "bound is negative or clipped, and ' '.join is an order isomorphism from tuples of space-free "
              "tokens to strings, so sorted vocabularies assign identical columns. The rest of the vectorizers "
              "(counting, idf, pruning) is inherited scikit-learn code: trusted, compared end to end on random "
              "corpora and options, not proved.")
LEVEL_NOTE = "; ".join(TRUSTED)
TECHNIQUE = ("Lean 4 proof (list induction; lexicographic-order lemmas) + AST-regenerated filter shape and index "
             "expressions + differential correspondence of both _word_ngrams + end-to-end oracle against "
             "CountVectorizer/TfidfVectorizer")


# ------------------------------------------------------------------------------ extractor

HEAD = '''import MlVerif.Gen.Base
set_option linter.unusedVariables false
namespace MlVerif.Gen.C14
open MlVerif.Gen

/-- a Python `str`: its sequence of code points -/
abbrev Tok := List Char

/-- a Python value occurring as a token / vocabulary key: a `str` or a (possibly nested) tuple -/
inductive Key where
  | str (s : Tok)
  | tup (ks : List Key)

/-- `w in stop_words` for a frozenset of `str`: a tuple never equals a string -/
def inStop (isStop : Tok → Bool) : Key → Bool
  | .str s => isStop s
  | .tup _ => false

/-- the local variables the index expressions of `_word_ngrams` range over -/
structure Env where
  minN : Int := 0
  maxN : Int := 0
  nTok : Int := 0
  n : Int := 0
  i : Int := 0

'''

WRAP_STD = """
if tokens is not None:
    new_tokens = []
    for token in tokens:
        new_tokens.append((token,) if isinstance(token, str) else token)
    tokens = new_tokens
"""

SPACE_JOIN_STD = """
def space_join(tokens):
    new_tokens = []
    for token in tokens:
        if isinstance(token, str):
            new_tokens.append(token)
        elif isinstance(token, tuple):
            new_tokens.extend(token)
        else:
            raise TypeError(f"Unable to build a n-grams out of {tokens}.")
    return tuple(new_tokens)
"""


def _dump(node):
    return ast.dump(node, annotate_fields=False, include_attributes=False)


def _ub(why):
    return '(MlVerif.Gen.unknownBool "%s")' % why.replace('"', "'")


def _ui(why):
    return '(MlVerif.Gen.unknownInt "%s")' % why.replace('"', "'")


def _range_args(call):
    if isinstance(call, ast.Call) and ast.unparse(call.func) == "range" and not call.keywords:
        if len(call.args) == 1:
            return ast.Constant(0), call.args[0]
        if len(call.args) == 2:
            return call.args[0], call.args[1]
    return None, None


def extract(ctx):
    tree = ast.parse(ctx.source(SRC))
    fn = pyexpr.find_function(tree, "NGramsMixin._word_ngrams")
    body = [s for s in fn.body if not (isinstance(s, ast.Expr) and isinstance(s.value, ast.Constant))]
    out = []

    def d(name, ty, term, src, args="(v : Env)"):
        out.append("/-- `%s` -/\ndef %s %s: %s := %s" % (src.replace("-/", "- /").replace("\n", " "), name,
                                                         args + " " if args else "", ty, term))

    # --- wrapping loop and stop-word filter: shape and relative position
    wrap_std = _dump(ast.parse(WRAP_STD).body[0])
    wrap_idx = [k for k, s in enumerate(body) if isinstance(s, ast.If) and _dump(s) == wrap_std]
    filt_idx = [k for k, s in enumerate(body) if isinstance(s, ast.If)
                and ast.unparse(s.test) == "stop_words is not None"]
    d("wrapStd", "Bool", "true" if len(wrap_idx) == 1 else "false", "the wrapping loop has its standard shape", "")
    sj = [n for n in ast.walk(fn) if isinstance(n, ast.FunctionDef) and n.name == "space_join"]
    sj_ok = len(sj) == 1 and _dump(sj[0]) == _dump(ast.parse(SPACE_JOIN_STD).body[0])
    d("spaceJoinStd", "Bool", "true" if sj_ok else "false", "space_join has its standard shape", "")
    keep = elt = None
    keep_src = elt_src = "?"
    before = _ub("stop-word filter or wrapping loop not found")
    if len(wrap_idx) == 1 and len(filt_idx) == 1:
        before = "true" if filt_idx[0] < wrap_idx[0] else "false"
        st = body[filt_idx[0]]
        if len(st.body) == 1 and not st.orelse and isinstance(st.body[0], ast.Assign) and \
                ast.unparse(st.body[0].targets[0]) == "tokens" and isinstance(st.body[0].value, ast.ListComp):
            lc = st.body[0].value
            if len(lc.generators) == 1 and ast.unparse(lc.generators[0].iter) == "tokens" and \
                    isinstance(lc.generators[0].target, ast.Name) and len(lc.generators[0].ifs) == 1:
                w = lc.generators[0].target.id
                cond = lc.generators[0].ifs[0]
                keep_src, elt_src = ast.unparse(cond), ast.unparse(lc.elt)
                if isinstance(cond, ast.Compare) and len(cond.ops) == 1 and isinstance(cond.ops[0], ast.NotIn) \
                        and ast.unparse(cond.comparators[0]) == "stop_words":
                    if ast.unparse(cond.left) == w:
                        keep = "(! (inStop isStop w))"
                    elif ast.unparse(cond.left) == w + "[0]":
                        keep = ("(match w with | Key.tup (k :: _) => (! (inStop isStop k)) | _ => %s)"
                                % _ub("w[0] of a value that is not a non-empty tuple"))
                if ast.unparse(lc.elt) == w:
                    elt = "w"
                elif ast.unparse(lc.elt) == "(%s,)" % w:
                    elt = "Key.tup [w]"
    d("filterBeforeWrap", "Bool", before, "the stop-word filter is applied before the tokens are wrapped", "")
    d("filterKeep", "Bool", keep or _ub("filter condition: " + keep_src), keep_src,
      "(isStop : Tok → Bool) (w : Key)")
    d("filterElt", "Key", elt or "(if %s then w else Key.tup [w])" % _ub("filter element: " + elt_src), elt_src,
      "(w : Key)")

    # --- n-gram loops
    table = {"min_n": ("v.minN", "int"), "max_n": ("v.maxN", "int"), "n_original_tokens": ("v.nTok", "int"),
             "n": ("v.n", "int"), "i": ("v.i", "int")}
    tr = pyexpr.Tr(table)

    def dint(name, node, why):
        if node is None:
            d(name, "Int", _ui(why), "?")
        else:
            d(name, "Int", tr.int_expr(node), ast.unparse(node))

    def dbool(name, node, why):
        if node is None:
            d(name, "Bool", _ub(why), "?")
            return
        t, ty = tr.expr(node)
        d(name, "Bool", t if ty == "bool" else _ub(ast.unparse(node)), ast.unparse(node))

    outer = [s for s in body if isinstance(s, ast.If) and "max_n" in ast.unparse(s.test)]
    outer = outer[0] if len(outer) == 1 else None
    dbool("needNgrams", outer.test if outer is not None else None, "`if max_n != 1` not found")
    inner = None
    if outer is not None:
        c = [s for s in outer.body if isinstance(s, ast.If) and "min_n" in ast.unparse(s.test)]
        inner = c[0] if len(c) == 1 else None
    dbool("copyUnigrams", inner.test if inner is not None else None, "`if min_n == 1` not found")
    inc = None
    if inner is not None:
        copies = any(isinstance(s, ast.Assign) and ast.unparse(s) == "tokens = list(original_tokens)"
                     for s in inner.body)
        empties = any(isinstance(s, ast.Assign) and ast.unparse(s) == "tokens = []" for s in inner.orelse)
        for s in inner.body:
            if isinstance(s, ast.AugAssign) and ast.unparse(s.target) == "min_n" and isinstance(s.op, ast.Add):
                inc = s.value
        if not (copies and empties):
            inc = None
    dint("minInc", inc, "`tokens = list(original_tokens); min_n += 1 / tokens = []` not found")
    fn_loop = fi_loop = None
    if outer is not None:
        for s in outer.body:
            if isinstance(s, ast.For) and ast.unparse(s.target) == "n":
                fn_loop = s
        if fn_loop is not None:
            for s in fn_loop.body:
                if isinstance(s, ast.For) and ast.unparse(s.target) == "i":
                    fi_loop = s
    lo, hi = _range_args(fn_loop.iter) if fn_loop is not None else (None, None)
    dint("nLo", lo, "for n in range(...) not found")
    dint("nHi", hi, "for n in range(...) not found")
    lo, hi = _range_args(fi_loop.iter) if fi_loop is not None else (None, None)
    dint("iLo", lo, "for i in range(...) not found")
    dint("iHi", hi, "for i in range(...) not found")
    slo = shi = None
    if fi_loop is not None and len(fi_loop.body) == 1 and isinstance(fi_loop.body[0], ast.Expr):
        call = fi_loop.body[0].value
        if isinstance(call, ast.Call) and ast.unparse(call.func) == "tokens_append" and len(call.args) == 1 and \
                isinstance(call.args[0], ast.Call) and ast.unparse(call.args[0].func) == "space_join" and \
                len(call.args[0].args) == 1:
            sub = call.args[0].args[0]
            if isinstance(sub, ast.Subscript) and ast.unparse(sub.value) == "original_tokens" and \
                    isinstance(sub.slice, ast.Slice) and sub.slice.step is None and \
                    sub.slice.lower is not None and sub.slice.upper is not None:
                slo, shi = sub.slice.lower, sub.slice.upper
    dint("sliceLo", slo, "tokens_append(space_join(original_tokens[i : i + n])) not found")
    dint("sliceHi", shi, "tokens_append(space_join(original_tokens[i : i + n])) not found")
    text = pyexpr.HEADER + HEAD + "\n".join(out) + "\n\nend MlVerif.Gen.C14\n"
    return {"MlVerif/Gen/C14.lean": text}


# ------------------------------------------------------------------------------ helpers

WORDS = ["the", "cat", "sat", "on", "mat", "dog", "and", "is", "it", "ab", "abc", "b2", "zz", "of", "a1",
         "The", "Cat", "IS", "été", "naïve", "straße", "日本", "x_y", "an"]
STOPS = [["the"], ["the", "is", "on"], ["cat", "dog", "and", "of"], [], ["zz", "nothere"], ["the", "The", "an"]]


def show_key(k):
    if isinstance(k, str):
        return k
    if isinstance(k, tuple):
        return "(" + " ".join(show_key(x) for x in k) + ")"
    return "<%s>" % type(k).__name__


def fl(xs):
    xs = list(xs)
    return ",".join(xs) if xs else "-"


def gen_tokens(rng, kmax):
    k = rng.choice([0, 0, 1, 1, 2, 3, 4, 5, 6, kmax])
    pool = rng.sample(WORDS, rng.randint(1, 6))
    return [rng.choice(pool) for _ in range(k)]


def gen_doc(rng):
    k = rng.choice([0, 0, 1, 2, 3, 4, 5, 7, 9])
    pool = rng.sample(WORDS, rng.randint(1, 6))
    toks = [rng.choice(pool) for _ in range(k)]
    seps = [" ", "  ", ", ", ". ", " - ", " a ", "! "]
    s = ""
    for t in toks:
        s += t + rng.choice(seps)
    return s.strip() if rng.random() < 0.5 else s


def gen_corpus(rng, nmax):
    n = rng.randint(1, nmax)
    docs = [gen_doc(rng) for _ in range(n)]
    if rng.random() < 0.4:
        docs.append("")
    if rng.random() < 0.3 and docs:
        docs.append(docs[0])
    return docs


def gen_options(rng):
    ngram = rng.choice([(1, 1), (1, 2), (2, 2), (1, 3), (2, 3), (3, 3), (1, 1), (1, 2)])
    stop = rng.choice([None, None, None, ["the"], ["the", "is", "on", "and"], ["cat", "dog", "of", "it"],
                       "english", []])
    return {
        "ngram_range": list(ngram), "stop_words": stop, "lowercase": rng.random() < 0.6,
        "min_df": rng.choice([1, 1, 1, 2, 0.5]), "max_df": rng.choice([1.0, 1.0, 1.0, 0.8, 3]),
        "max_features": rng.choice([None, None, None, 3, 10]), "binary": rng.random() < 0.3,
    }


def _kw(opts):
    kw = {k: v for k, v in opts.items() if not k.startswith("_")}
    kw["ngram_range"] = tuple(kw["ngram_range"])
    return kw


# ------------------------------------------------------------------------------ correspondence

def correspond(ctx):
    ctx.shadow(need_cython=True)
    from sklearn.feature_extraction.text import CountVectorizer
    from mlinsights.mlmodel.sklearn_text import TraceableCountVectorizer, TraceableTfidfVectorizer
    corr = Corr()
    corr.rule = RULE
    rng = ctx.rng
    lines, expect = [], []
    ranges = [(1, 1), (1, 2), (2, 2), (1, 3), (2, 3), (3, 3), (2, 4), (1, 5), (0, 1), (0, 2), (3, 2), (4, 4)]
    for t in range(ctx.pick(1500, 20000)):
        toks = gen_tokens(rng, ctx.pick(9, 14))
        stop = rng.choice([None, None] + STOPS)
        a, b = rng.choice(ranges) if t % 7 else (rng.randint(0, 4), rng.randint(0, 5))
        cls = TraceableCountVectorizer if t % 2 else TraceableTfidfVectorizer
        ml = cls(ngram_range=(a, b))
        sk = CountVectorizer(ngram_range=(a, b))
        sw = None if stop is None else frozenset(stop)
        try:
            got = [show_key(k) for k in ml._word_ngrams(list(toks), sw)]
            impl = "|".join(got) if got else "-"
        except Exception as e:
            impl = "raises:" + type(e).__name__
        try:
            got = sk._word_ngrams(list(toks), sw)
            impl_sk = "|".join(got) if got else "-"
        except Exception as e:
            impl_sk = "raises:" + type(e).__name__
        st = "none" if stop is None else fl(stop)
        nt = len(toks) >= 2 and (b >= 2 or (stop is not None and any(w in stop for w in toks)))
        for op, im in (("ml", impl), ("sk", impl_sk)):
            lines.append("%s %s %d %d %s" % (op, st, a, b, fl(toks)))
            expect.append((op, [st, a, b, toks], im))
            corr.case((op, st, a, b, tuple(toks)), nt,
                      sample={"op": lines[-1], "impl": im} if t in (3, 4) else None)
        corr.hit("stop_words=None" if stop is None else "stop_words=set")
        if stop is not None and any(w in stop for w in toks):
            corr.hit("stop word present in document")
        corr.hit("empty document" if not toks else ("document shorter than min_n" if len(toks) < a else
                                                     "document with >= min_n tokens"))
        corr.hit("max_n=1" if b == 1 else "max_n!=1")
        if len(set(toks)) < len(toks):
            corr.hit("repeated tokens")
    # order of tuples vs order of joined strings (validates the two orders used by the theorems)
    for t in range(ctx.pick(150, 1500)):
        k = rng.randint(1, 8)
        pool = rng.sample(WORDS, rng.randint(1, 5)) + ["a", "ab", "b", "a1"]
        tuples = []
        while len(tuples) < k:
            tup = tuple(rng.choice(pool) for _ in range(rng.randint(1, 3)))
            if tup not in tuples:
                tuples.append(tup)
        p1 = sorted(range(k), key=lambda j: tuples[j])
        p2 = sorted(range(k), key=lambda j: " ".join(tuples[j]))
        lines.append("order %s" % ";".join(fl(tp) for tp in tuples))
        expect.append(("order", [list(tp) for tp in tuples],
                       "%s|%s" % (",".join(map(str, p1)), ",".join(map(str, p2)))))
        corr.case(("order", tuple(tuples)), k >= 2)
        corr.hit("order: tuple order = string order" if p1 == p2 else "order: DIFFERENT")
    out = run_driver(DRIVER, lines)
    for (op, inp, impl), got in zip(expect, out):
        if got != impl:
            corr.disagree(op, inp, got[:300], impl[:300])
    return corr


# ------------------------------------------------------------------------------ search (oracle from the statement)

def _site(cls, opts):
    return "Traceable%sVectorizer[%s]" % (cls, "stop_words" if opts.get("stop_words") is not None
                                          else "no-stop-words")


def _check(cls, corpus, corpus2, opts):
    """Traceable vs scikit-learn on one corpus/configuration; [(key, what, observed, required)]."""
    import numpy
    from sklearn.feature_extraction.text import CountVectorizer, TfidfVectorizer
    from mlinsights.mlmodel.sklearn_text import TraceableCountVectorizer, TraceableTfidfVectorizer
    SK, ML = (CountVectorizer, TraceableCountVectorizer) if cls == "Count" else \
        (TfidfVectorizer, TraceableTfidfVectorizer)
    site = _site(cls, opts)
    bad = []
    kw = _kw(opts)
    sk, ml = SK(**kw), ML(**kw)
    if opts.get("_prior"):
        # history: the instance was configured otherwise, used, then re-configured with set_params
        site += "[after set_params]"
        ml = ML(**_kw(opts["_prior"]))
        try:
            ml.fit_transform(corpus2 if any(d.strip() for d in corpus2) else corpus)
        except Exception:  # noqa: BLE001
            pass
        ml.set_params(**kw)
    try:
        Xs = sk.fit_transform(corpus)
        err_s = None
    except Exception as e:
        err_s = type(e).__name__
    try:
        Xm = ml.fit_transform(corpus)
        err_m = None
    except Exception as e:
        err_m = "%s: %s" % (type(e).__name__, e)
    if err_s is not None or err_m is not None:
        if (err_m or "").split(":")[0] != (err_s or ""):
            bad.append((site + ":fit-error-differs", "fit_transform raises differently from scikit-learn",
                        err_m, err_s))
        return bad
    # analyzers (the override is the only difference between the classes)
    an_s, an_m = sk.build_analyzer(), ml.build_analyzer()
    for doc in corpus:
        gs, gm = an_s(doc), an_m(doc)
        lo_n, hi_n = kw.get("ngram_range", (1, 1))
        # "n-grams kept as token tuples": every key is a tuple of lo_n..hi_n single tokens (a word token holds no blank)
        flat = all(isinstance(k, tuple) and all(isinstance(x, str) and " " not in x for x in k)
                   and lo_n <= len(k) <= hi_n for k in gm)
        if not flat:
            bad.append((site + ":analyzer-key-not-flat-tuple", "an n-gram is not a flat tuple of tokens",
                        [show_key(k) for k in gm][:8], "tuples of str whose join is %r" % gs[:8]))
            break
        if [" ".join(k) for k in gm] != list(gs):
            bad.append((site + ":analyzer-differs", "analyzer output differs from scikit-learn's n-grams",
                        [show_key(k) for k in gm][:12], list(gs)[:12]))
            break
    # vocabulary_: tuple -> the column scikit-learn gives the joined string
    vm = ml.vocabulary_
    if not all(isinstance(k, tuple) and all(isinstance(x, str) for x in k) for k in vm):
        bad.append((site + ":vocabulary-key-not-flat-tuple", "a vocabulary_ key is not a flat tuple of tokens",
                    sorted(show_key(k) for k in vm)[:8], sorted(sk.vocabulary_)[:8]))
    else:
        mapped = {" ".join(k): int(v) for k, v in vm.items()}
        if len(mapped) != len(vm) or mapped != {k: int(v) for k, v in sk.vocabulary_.items()}:
            bad.append((site + ":vocabulary-differs", "vocabulary_ does not map tuples to scikit-learn's columns",
                        sorted((show_key(k), int(v)) for k, v in vm.items())[:10],
                        sorted(sk.vocabulary_.items())[:10]))
    A, B = Xm.toarray(), Xs.toarray()
    if A.shape != B.shape or not (A == B).all():
        bad.append((site + ":fit_transform-matrix-differs", "fit_transform matrix differs from scikit-learn's",
                    {"shape": list(A.shape), "matrix": A.tolist()[:4]},
                    {"shape": list(B.shape), "matrix": B.tolist()[:4]}))
    try:
        A, B = ml.transform(corpus2).toarray(), sk.transform(corpus2).toarray()
        if A.shape != B.shape or not (A == B).all():
            bad.append((site + ":transform-matrix-differs", "transform matrix differs from scikit-learn's",
                        {"shape": list(A.shape), "matrix": A.tolist()[:4]},
                        {"shape": list(B.shape), "matrix": B.tolist()[:4]}))
    except Exception as e:
        bad.append((site + ":transform-raises", "transform raises", "%s: %s" % (type(e).__name__, e),
                    "the matrix scikit-learn returns"))
    try:
        nm = [" ".join(tuple(k)) for k in ml.get_feature_names_out()]
        if nm != list(sk.get_feature_names_out()):
            bad.append((site + ":feature-names-differ", "get_feature_names_out, joined, differs", nm[:10],
                        list(sk.get_feature_names_out())[:10]))
    except Exception as e:
        bad.append((site + ":feature-names-raise", "get_feature_names_out raises",
                    "%s: %s" % (type(e).__name__, e), "one name per column"))
    return bad


def search(ctx, hints):
    ctx.shadow(need_cython=True)
    rng = ctx.rng
    vs, evals, nontriv, samples = [], 0, set(), []
    cases = []
    # a fixed small corpus first (the shape of upstream's own test, plus stop words)
    base = ["the cat sat on the mat", "the dog sat", "", "cat and dog"]
    for ng in ((1, 1), (1, 2), (2, 2)):
        for stop in (None, ["the"], "english"):
            cases.append((base, ["the cat", "a new dog sat", ""],
                          {"ngram_range": list(ng), "stop_words": stop, "lowercase": True, "min_df": 1,
                           "max_df": 1.0, "max_features": None, "binary": False}))
    # long documents (257, 300 and 700 tokens): "all corpora" is not only short sentences
    words = ["w%d" % i for i in range(23)]
    longdocs = [" ".join(words[(7 * i + j) % 23] for i in range(m)) for j, m in enumerate((257, 300, 700, 256))]
    for ng in ((1, 2), (2, 2), (2, 3), (1, 1)):
        cases.append((longdocs + ["w1 w2"], ["w3 w4 w5"], {"ngram_range": list(ng), "stop_words": None, "lowercase": True,
                                                          "min_df": 1, "max_df": 1.0, "max_features": None, "binary": False}))
    for t in range(ctx.pick(250, 4000)):
        cases.append((gen_corpus(rng, ctx.pick(5, 8)), gen_corpus(rng, 3), gen_options(rng)))
        if t % 6 == 4:
            cases[-1][2]["_prior"] = gen_options(rng)
    for corpus, corpus2, opts in cases:
        for cls in ("Count", "Tfidf"):
            bad = _check(cls, corpus, corpus2, opts)
            evals += 1
            if sum(len(d.split()) for d in corpus) >= 4:
                nontriv.add((cls, tuple(corpus), repr(sorted(opts.items(), key=lambda kv: kv[0]))))
            if len(samples) < 2:
                samples.append({"class": cls, "corpus": corpus, "options": opts})
            for key, what, obs, req in bad:
                vs.append(Violation(key, what, {"class": cls, "corpus": corpus, "corpus2": corpus2,
                                                "options": opts}, obs, req))
    best = {}
    for v in vs:
        size = (sum(len(d) for d in v.input["corpus"]), len(repr(v.input["options"])))
        if v.key not in best or size < best[v.key][0]:
            best[v.key] = (size, v)
    return [v for _, v in best.values()], {"evaluations": evals, "distinct_nontrivial": len(nontriv),
                                           "samples": samples}


def replay(ctx, item):
    ctx.shadow(need_cython=True)
    inp = item["input"]
    bad = _check(inp["class"], inp["corpus"], inp["corpus2"], inp["options"])
    best = {}
    for key, what, obs, req in bad:
        best.setdefault(key, Violation(key, what, inp, obs, req))
    return list(best.values())
