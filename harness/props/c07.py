"""C07 — ConstraintKMeans produces clusters of equal size."""
from fractions import Fraction

from core import Corr, Violation, run_driver
from extract import c07 as c07x

ID = "C07"
#: functions the hand-written model transcribes: their control skeleton (extract/shape.py) is regenerated into
#: Gen/C07.lean and compared with the literal in Properties/C07.lean (`modelled_functions_have_the_transcribed_shape`)
SHAPES = [
    ("shapeConstraintKmeans", "mlinsights/mlmodel/_kmeans_constraint_.py", "constraint_kmeans"),
    ("shapeAssociation", "mlinsights/mlmodel/_kmeans_constraint_.py", "_constraint_association"),
    ("shapeAssociationDistance", "mlinsights/mlmodel/_kmeans_constraint_.py", "_constraint_association_distance"),
    ("shapeAssociationGain", "mlinsights/mlmodel/_kmeans_constraint_.py", "_constraint_association_gain"),
    ("shapeSwitchClusters", "mlinsights/mlmodel/_kmeans_constraint_.py", "_switch_clusters"),
    ("shapeRandomizeIndex", "mlinsights/mlmodel/_kmeans_constraint_.py", "_randomize_index"),
    ("shapeEstimatorFit", "mlinsights/mlmodel/kmeans_constraint.py", "ConstraintKMeans.fit"),
    ("shapeEstimatorPredict", "mlinsights/mlmodel/kmeans_constraint.py", "ConstraintKMeans.predict"),
]
LEAN_TARGETS = ["MlVerif.Gen.C07", "MlVerif.Model.Balance", "MlVerif.Lemmas.Balance",
                "MlVerif.Lemmas.BalanceGain", "MlVerif.Properties.C07"]
PROPERTY_FILE = "MlVerif/Properties/C07.lean"
DRIVER = "Drivers/C07.lean"
TRUSTED = [
    "sklearn euclidean_distances / row_norms, KMeans.fit, KMeans.predict ('nearest centre'), _centers_dense and "
    "_labels_inertia_skl (their outputs -- distance matrix, inertia -- are recorded and fed to the model)",
    "numpy.argsort returns a permutation that sorts (checked on every recorded call by the driver), "
    "numpy.random.permutation returns a permutation, RandomState.randint(0, k) is in [0, k), bisect.insort, dict",
    "float = real on the compared calls: only association calls whose distance matrix is exactly representable "
    "(integers, or multiples of 2^-8 below 2^13) are diffed, so every float operation of the code is exact there",
]
ASSUMPTIONS = [
    "n >= k >= 1 (the statement's quantifier); 'equal size' = every one of the k clusters has floor(n/k) or ceil(n/k) points",
    "strategy 'weights' is outside the statement; ConstraintKMeans.transform/score with balanced_predictions are not "
    "observables of the statement and are not checked",
    "a fit that raises on a valid data set counts as a violation (no point is assigned)",
]
RULE = ("correspondence: (1) direct runs of constraint_kmeans / constraint_predictions on integer-grid points with integer "
        "centres and deliberately unbalanced labels, n from k to 60, n mod k in {0, 1, >=2}, strategies distance/gain/"
        "distance_p/gain_p; (2) full ConstraintKMeans.fit + predict runs (kmeans0 in {True, False}); every "
        "_constraint_association call is recorded (distances, argsorts, rand, randint, permutation, labels before/after) "
        "and replayed through the Lean model, labels compared exactly; the outer loop (best tracking, n_iter) is replayed "
        "from the recorded inertias.  Non-trivial = n > k, or a call with at least one tie/unbalanced start; distinct = "
        "distinct (op, n, k, strategy, labels-before, distance matrix)")
LEVEL_TEXT = ("Proved in Lean for every n >= 1, k >= 1, every integer distance matrix, every preference order, every recorded "
              "draw: the fill of the distance strategy places every point in one pass and ends with floor/ceil sizes, "
              "_switch_clusters preserves the histogram, the gain strategy (allowance vector, transfers, swaps, last pass) "
              "ends with floor/ceil sizes whenever the regenerated tests have the repaired form, the outer loop returns one "
              "of the balanced labelings with n_iter <= max_iter, no cluster is empty when n >= k.  The tie to the source is "
              "the regenerated Gen/C07.lean plus an exact differential run of every association call.")
LEVEL_NOTE = ("distance computation, k-means initialisation, centre update and inertia are external parameters; floats are "
              "compared only where exact")
TECHNIQUE = ("Lean 4 proof (loop invariants over the fill / transfer / swap loops, induction over the order lists) + "
             "AST-regenerated tests and updates + differential correspondence of every association call")

extract = c07x.extract

CUR = {"rec": None}


# ------------------------------------------------------------------------------ recording

def _mk_recorders():
    import numpy

    class RecRS(numpy.random.RandomState):
        def randint(self, *a, **k):
            r = super().randint(*a, **k)
            rec = CUR["rec"]
            if rec is not None and numpy.ndim(r) == 0:
                rec["randint"].append((tuple(int(x) for x in a), int(r)))
            return r

    class RecArr(numpy.ndarray):
        def argsort(self, *a, **k):
            r = numpy.asarray(self).argsort(*a, **k)
            rec = CUR["rec"]
            if rec is not None:
                rec["lin_argsort"].append(numpy.asarray(r).copy())
            return r
    return RecRS, RecArr


class Recording:
    """Records every `_constraint_association` call made while active (harness-side patching only)."""

    def __init__(self):
        self.calls = []
        self.inertias = []
        self.ck_args = []

    def __enter__(self):
        import numpy
        from mlinsights.mlmodel import _kmeans_constraint_ as M
        from mlinsights.mlmodel import kmeans_constraint as KC
        self.numpy, self.M, self.KC = numpy, M, KC
        RecRS, RecArr = _mk_recorders()
        self.saved = dict(assoc=M._constraint_association, eu=M.euclidean_distances, lin=M.linearize_matrix,
                          argsort=numpy.argsort, rand=numpy.random.rand, perm=numpy.random.permutation,
                          rs=numpy.random.RandomState, inertia=M._labels_inertia_skl, ck=KC.constraint_kmeans)
        sv = self.saved
        self.RecRS = RecRS

        def eu(*a, **k):
            r = sv["eu"](*a, **k)
            rec = CUR["rec"]
            if rec is not None and rec["D"] is None:
                rec["D"] = numpy.array(r.T, dtype=float).copy()
            return r

        def lin(*a, **k):
            return sv["lin"](*a, **k).view(RecArr)

        def argsort(a, *args, **k):
            r = sv["argsort"](a, *args, **k)
            rec = CUR["rec"]
            if rec is not None:
                rec["argsort"].append((numpy.ndim(a), numpy.asarray(r).copy()))
            return r

        def rand(*a, **k):
            r = sv["rand"](*a, **k)
            rec = CUR["rec"]
            if rec is not None:
                rec["rand"].append(numpy.asarray(r).copy())
            return r

        def perm(*a, **k):
            r = sv["perm"](*a, **k)
            rec = CUR["rec"]
            if rec is not None:
                rec["perm"].append(numpy.asarray(r).copy())
            return r

        def assoc(leftover, counters, labels, leftclose, distances_close, centers, X, x_squared_norms, limit,
                  strategy, state=None):
            rec = dict(n=int(X.shape[0]), k=int(centers.shape[0]), limit=int(limit), leftover=int(leftover),
                       strategy=strategy, before=labels.copy(), D=None, argsort=[], rand=[], perm=[], randint=[],
                       lin_argsort=[], error=None, after=None)
            self.calls.append(rec)
            CUR["rec"] = rec
            try:
                return sv["assoc"](leftover, counters, labels, leftclose, distances_close, centers, X,
                                   x_squared_norms, limit, strategy, state=state)
            except Exception as e:
                rec["error"] = type(e).__name__
                raise
            finally:
                CUR["rec"] = None
                rec["after"] = labels.copy()

        def inertia(*a, **k):
            r = sv["inertia"](*a, **k)
            self.inertias.append(float(r[1]))
            return r

        def ck(X, labels, sample_weight, centers, inertia, iter, max_iter, **k):
            self.ck_args.append((int(iter), int(max_iter)))
            return sv["ck"](X, labels, sample_weight, centers, inertia, iter, max_iter, **k)

        M._constraint_association = assoc
        M.euclidean_distances = eu
        M.linearize_matrix = lin
        M._labels_inertia_skl = inertia
        KC.constraint_kmeans = ck
        numpy.argsort = argsort
        numpy.random.rand = rand
        numpy.random.permutation = perm
        numpy.random.RandomState = RecRS
        return self

    def __exit__(self, *a):
        numpy, M, KC, sv = self.numpy, self.M, self.KC, self.saved
        M._constraint_association = sv["assoc"]
        M.euclidean_distances = sv["eu"]
        M.linearize_matrix = sv["lin"]
        M._labels_inertia_skl = sv["inertia"]
        KC.constraint_kmeans = sv["ck"]
        numpy.argsort = sv["argsort"]
        numpy.random.rand = sv["rand"]
        numpy.random.permutation = sv["perm"]
        numpy.random.RandomState = sv["rs"]
        CUR["rec"] = None


# ------------------------------------------------------------------------------ line protocol

def fl(xs):
    xs = list(xs)
    return ",".join(str(int(x)) for x in xs) if xs else "-"


def fmat(rows):
    rows = list(rows)
    return ";".join(fl(r) for r in rows) if rows else "-"


def frat(x):
    fr = Fraction(float(x))
    return "%d/%d" % (fr.numerator, fr.denominator) if fr.denominator != 1 else "%d" % fr.numerator


def exact_scale(D):
    """1 if D is integer valued, 256 if on the 2^-8 grid (both below 2^13), else None (floats not exact)."""
    import numpy
    if D is None or not numpy.isfinite(D).all() or (abs(D) >= 8192).any():
        return None
    if (D == numpy.floor(D)).all():
        return 1
    if (D * 256 == numpy.floor(D * 256)).all():
        return 256
    return None


def call_line(rec):
    """(driver line, expected output, info) for one recorded association call, or None when not exactly comparable."""
    S = exact_scale(rec["D"])
    if S is None:
        return None
    n, k = rec["n"], rec["k"]
    D = (rec["D"] * S).astype("int64")
    which = "pred" if rec["strategy"].endswith("_p") else "fit"
    if rec["strategy"] in ("distance", "distance_p"):
        prefs = [r for nd, r in rec["argsort"] if nd == 2]
        orders = [r for nd, r in rec["argsort"] if nd == 1]
        if len(prefs) != 1 or len(orders) != len(rec["rand"]) or len(rec["perm"]) != 1:
            return ("dist-record-shape", "recorded %d/%d/%d/%d" % (len(prefs), len(orders), len(rec["rand"]),
                                                                    len(rec["perm"])), None)
        eps = Fraction(1e-5) * S
        line = "dist %s %d %d %s %s %s %s %d/%d %s" % (
            which, n, k, fmat(D), fmat(prefs[0]), fmat(orders),
            ";".join(",".join(frat(v) for v in r) for r in rec["rand"]) or "-",
            eps.numerator, eps.denominator, fl(rec["perm"][0]))
        exp = "%s|11" % fl(rec["after"])
        info = {"passes": len(orders)}
    else:
        if len(rec["lin_argsort"]) != 1:
            return ("gain-record-shape", "recorded %d argsorts" % len(rec["lin_argsort"]), None)
        labp = 1 if rec["strategy"] == "gain_p" else 0
        before = rec["before"]
        if not labp and ((before < 0).any() or (before >= k).any()):
            return None
        draws = [r for a, r in rec["randint"] if a == (0, k)]
        perm = rec["perm"][0] if rec["perm"] else []
        line = "gain gen %s %d %d %d %s %s %s %s %s" % (
            which, n, k, labp, "-" if labp else fl(before), fmat(D), fl(rec["lin_argsort"][0]), fl(draws), fl(perm))
        exp = "AssertionError" if rec["error"] == "AssertionError" else "%s|1" % fl(rec["after"])
        info = {"draws": len(draws)}
    info["scale"] = S
    return (line, exp, info)


# ------------------------------------------------------------------------------ generators

def gen_points(rng, n, d, R):
    import numpy
    m = max(1, n - rng.randint(0, n // 3))          # duplicates: only m distinct points
    base = [[rng.randint(0, R) for _ in range(d)] for _ in range(m)]
    pts = base + [list(rng.choice(base)) for _ in range(n - m)]
    rng.shuffle(pts)
    return numpy.array(pts, dtype=float).reshape(n, d)


def gen_nk(rng, nmax, cls=None):
    """(n, k) with k <= n <= nmax and n mod k in the requested class (0, 1, 2 = '>=2')."""
    while True:
        k = rng.choice([1, 2, 2, 3, 3, 3, 4, 4, 5, 6, 7, 8])
        if k > nmax:
            continue
        n = rng.randint(k, nmax)
        c = min(n % k, 2)
        if cls is None or c == cls:
            return n, k


def unbalanced_labels(rng, n, k):
    import numpy
    mode = rng.choice(["heavy0", "random", "two", "balanced", "allone"])
    if mode == "heavy0":
        lab = [0 if rng.random() < 0.6 else rng.randrange(k) for _ in range(n)]
    elif mode == "random":
        lab = [rng.randrange(k) for _ in range(n)]
    elif mode == "two":
        a, b = rng.randrange(k), rng.randrange(k)
        lab = [rng.choice([a, b]) for _ in range(n)]
    elif mode == "allone":
        lab = [rng.randrange(k)] * n
    else:
        lab = [i % k for i in range(n)]
        rng.shuffle(lab)
    return numpy.array(lab, dtype=numpy.int32), mode


def hist_ok(labels, n, k):
    lo, hi = n // k, -(-n // k)
    h = [0] * k
    for v in labels:
        if 0 <= int(v) < k:
            h[int(v)] += 1
    return all(lo <= c <= hi for c in h), h


# ------------------------------------------------------------------------------ correspondence

def correspond(ctx):
    ctx.shadow(need_cython=True)
    import warnings
    import numpy
    from mlinsights.mlmodel import _kmeans_constraint_ as M
    from mlinsights.mlmodel.kmeans_constraint import ConstraintKMeans
    from sklearn.cluster import KMeans
    warnings.filterwarnings("ignore")
    corr = Corr()
    corr.rule = RULE
    rng = ctx.rng
    lines, expect = [], []

    def add(line, exp, op, inp):
        lines.append(line)
        expect.append((op, inp, exp))

    def add_calls(recs, tag, base):
        for j, rec in enumerate(recs.calls):
            cl = call_line(rec)
            n, k = rec["n"], rec["k"]
            if cl is None:
                corr.hit("call-not-exact(skipped):" + rec["strategy"])
                continue
            line, exp, info = cl
            if info is None:
                corr.disagree(line, dict(base, call=j), "-", exp)
                continue
            ok, h = hist_ok(rec["after"], n, k)
            inp = dict(base, call=j, strategy=rec["strategy"], n=n, k=k, hist_after=h, error=rec["error"])
            add(line, exp, tag, inp)
            key = (tag, n, k, rec["strategy"], rec["before"].tobytes() if "gain" == rec["strategy"] else b"",
                   rec["D"].tobytes())
            ties = bool((numpy.sort(rec["D"], axis=1)[:, 1:] == numpy.sort(rec["D"], axis=1)[:, :-1]).any()) if k > 1 else False
            corr.case(key, nontrivial=(n > k or ties),
                      sample={"op": tag, "n": n, "k": k, "strategy": rec["strategy"], "hist_after": h}
                      if len(corr.samples) < 4 and n > 2 * k else None)
            corr.hit("call:%s:nmodk=%s" % (rec["strategy"], min(n % k, 2) if n % k < 2 else ">=2"))
            corr.hit("scale=%d" % info["scale"])
            if ties:
                corr.hit("row-ties")
            if "passes" in info and info["passes"] > 1:
                corr.hit("fill-needed->1-pass")
            if info.get("draws"):
                corr.hit("allowance-adjusted(draws)")
            if rec["error"]:
                corr.hit("call-error:" + rec["error"])
            if not ok and rec["error"] is None:
                corr.hit("impl-unbalanced-after-call")
            # limits: what the real code passed to the association
            add("limits %d %d" % (n, k),
                ("%d %d" % (rec["limit"], rec["leftover"]), rec["strategy"].endswith("_p")), "limits",
                dict(n=n, k=k))

    # (0) predict dispatch
    class Stop(Exception):
        pass
    for wn in (1, 0):
        for b in (1, 0):
            km = ConstraintKMeans(n_clusters=2, balanced_predictions=bool(b))
            km.weights_ = None if wn else numpy.ones(2)
            km.cluster_centers_ = numpy.zeros((2, 1))
            km.strategy = "gain"
            hitp = []
            from mlinsights.mlmodel import kmeans_constraint as KC
            o1, o2 = KC.constraint_predictions, KMeans.predict
            try:
                def cp(X, centers, strategy, state=None):
                    hitp.append("1" if strategy == "gain_p" else "2")
                    raise Stop()

                def kp(self, X):
                    hitp.append("0")
                    raise Stop()
                KC.constraint_predictions = cp
                KMeans.predict = kp
                try:
                    km.predict(numpy.zeros((3, 1)))
                    hitp.append("2")
                except Stop:
                    pass
                except AssertionError:
                    hitp.append("3")
                except Exception:
                    hitp.append("2")
            finally:
                KC.constraint_predictions, KMeans.predict = o1, o2
            add("predictpath %d %d" % (wn, b), hitp[0] if hitp else "2", "predictpath", dict(weightsNone=wn, balanced=b))
            corr.case(("predictpath", wn, b), nontrivial=True)

    # (1) direct runs: integer points, integer centres, unbalanced labels
    n1 = ctx.pick(110, 2200)
    nmax1 = 60
    for t in range(n1):
        cls = t % 3
        small = rng.random() < ctx.pick(0.7, 0.6)
        n, k = gen_nk(rng, 14 if small else nmax1, cls)
        d = rng.choice([1, 2, 2, 3])
        X = gen_points(rng, n, d, rng.choice([3, 6, 12, 20]))
        if rng.random() < 0.6:
            centers = X[[rng.randrange(n) for _ in range(k)]].copy()
        else:
            centers = numpy.array([[rng.randint(0, 12) for _ in range(d)] for _ in range(k)], dtype=float)
        strategy = rng.choice(["distance", "gain", "gain", "gain", "distance_p", "gain_p"])
        numpy.random.seed(rng.randrange(1 << 30))
        base = dict(kind="direct", t=t, strategy=strategy)
        with Recording() as recs:
            try:
                if strategy.endswith("_p"):
                    M.constraint_predictions(X, centers, strategy)
                else:
                    labels, mode = unbalanced_labels(rng, n, k)
                    base["labels_mode"] = mode
                    state = None if rng.random() < 0.5 else recs.RecRS(rng.randrange(1 << 30))
                    M.constraint_kmeans(X, labels, None, centers, float(n), 0, 1, strategy=strategy, state=state)
            except AssertionError:
                corr.hit("direct:AssertionError")
            except Exception as e:
                corr.hit("direct:%s" % type(e).__name__)
        add_calls(recs, "assoc", base)

    # (2) full fits
    n2 = ctx.pick(36, 700)
    for t in range(n2):
        regime = rng.choice(["k<n<2k", "n=k*2^m", "any"])
        if regime == "k<n<2k":
            k = rng.choice([2, 3, 4, 5, 6])
            n = rng.randint(k, 2 * k - 1)
        elif regime == "n=k*2^m":
            k = rng.choice([1, 2, 3, 4, 5])
            n = k * rng.choice([1, 2, 4, 8])
        else:
            n, k = gen_nk(rng, ctx.pick(30, 60), t % 3)
        d = rng.choice([1, 2, 3])
        X = gen_points(rng, n, d, rng.choice([4, 8, 16]))
        strategy = rng.choice(["distance", "gain"])
        kmeans0 = rng.random() < 0.5
        max_iter = rng.choice([2, 3, 4, 6, 9, 14])
        seed = rng.randrange(1 << 30)
        numpy.random.seed(seed)
        base = dict(kind="fit", t=t, n=n, k=k, strategy=strategy, kmeans0=kmeans0, max_iter=max_iter, regime=regime)
        km = ConstraintKMeans(n_clusters=k, strategy=strategy, kmeans0=kmeans0, random_state=seed % 1000,
                              max_iter=max_iter, n_init=1, balanced_predictions=True)
        err = None
        with Recording() as recs:
            try:
                km.fit(X)
            except Exception as e:
                err = type(e).__name__
        corr.hit("fit:%s:kmeans0=%s:%s" % (strategy, kmeans0, err or "ok"))
        add_calls(recs, "fit-assoc", base)
        if err is None and recs.ck_args:
            iter0, mi = recs.ck_args[0]
            ncalls = len(recs.calls)
            ins = recs.inertias
            add("outer %d %d %s" % (iter0, mi, ",".join(frat(v) for v in ins) or "-"), None, "outer",
                dict(base, iter0=iter0, inertias=ins, n_iter=int(km.n_iter_), ncalls=ncalls,
                     labels=[int(v) for v in km.labels_],
                     afters=[[int(v) for v in r["after"]] for r in recs.calls]))
            corr.case(("outer", iter0, mi, tuple(ins)), nontrivial=len(ins) >= 2)
            corr.hit("outer:iterations=%d" % len(ins))
            # balanced prediction of another batch
            m = rng.randint(k, n + 3)
            Xb = gen_points(rng, m, d, 16)
            with Recording() as recp:
                try:
                    km.predict(Xb)
                except Exception as e:
                    corr.hit("predict:%s" % type(e).__name__)
            add_calls(recp, "predict-assoc", dict(base, m=m))

    out = run_driver(DRIVER, lines, timeout=ctx.pick(600, 3000))
    for (op, inp, exp), got in zip(expect, out):
        if op == "limits":
            (e, isp) = exp
            g = got.split()
            gg = " ".join(g[2:4] if isp else g[0:2]) if len(g) == 4 else got
            if gg != e:
                corr.disagree(op, inp, got, e)
        elif op == "outer":
            # model: "<best_iter> <n_iter>"; implementation: n_iter_ and labels_ = labels after call (best_iter - iter0)
            g = got.split()
            ok = False
            if len(g) == 2 and g[0].lstrip("-").isdigit():
                bi, ni = int(g[0]), int(g[1])
                j = bi - inp["iter0"]
                ok = (ni == inp["n_iter"] and 0 <= j < len(inp["afters"]) and inp["afters"][j] == inp["labels"])
            if not ok:
                corr.disagree(op, {k: v for k, v in inp.items() if k != "afters"}, got,
                              "n_iter=%d labels_=%s" % (inp["n_iter"], inp["labels"]))
        elif got != exp:
            corr.disagree(op, inp, got, exp)
    return corr


# ------------------------------------------------------------------------------ search (oracle from the statement)

def _cls(n, k):
    return "n_mod_k>=2" if n % k >= 2 else "n_mod_k<=1"


def _check_config(cfg):
    """Run the real code once on cfg; list of (key, what, observed, required) straight from the statement."""
    import numpy
    from mlinsights.mlmodel.kmeans_constraint import ConstraintKMeans
    n, k, strategy = cfg["n"], cfg["k"], cfg["strategy"]
    X = numpy.array(cfg["X"], dtype=float).reshape(n, -1)
    numpy.random.seed(cfg["seed"])
    lo, hi = n // k, -(-n // k)
    bad = []
    start = "kmeans0" if cfg["kmeans0"] else "random-start"
    km = ConstraintKMeans(n_clusters=k, strategy=strategy, kmeans0=cfg["kmeans0"], random_state=cfg["seed"] % 1000,
                          max_iter=cfg["max_iter"], n_init=cfg.get("n_init", 1), balanced_predictions=True)
    try:
        if cfg.get("prior_strategy"):
            # the same instance was used before with another strategy (history: fit; set_params; fit)
            km.set_params(strategy=cfg["prior_strategy"], balanced_predictions=False)
            try:
                km.fit(X)
            except Exception:  # noqa: BLE001  ('weights' is outside the property and may fail on its own)
                pass
            km.set_params(strategy=strategy, balanced_predictions=True)
        km.fit(X)
    except Exception as e:
        if type(e).__name__ == "InvalidParameterError":
            return []       # scikit-learn's parameter validation refuses the configuration (max_iter // 2 == 0): not a configuration
        return [("constraint_kmeans:%s:%s:fit-raises-%s" % (strategy, start, type(e).__name__),
                 "fit raises %s on a valid data set (n=%d, k=%d)" % (type(e).__name__, n, k),
                 "%s: %s" % (type(e).__name__, str(e)[:120]), "every point assigned to one of the k clusters")]
    lab = numpy.asarray(km.labels_)
    if lab.shape != (n,):
        bad.append(("constraint_kmeans:%s:labels-shape" % strategy, "labels_ does not hold one label per point",
                    list(lab.shape), [n]))
        return bad
    if (lab < 0).any() or (lab >= k).any():
        bad.append(("constraint_kmeans:%s:labels-invalid" % strategy, "labels_ holds an invalid cluster index",
                    sorted(set(int(v) for v in lab)), "indices in [0,%d)" % k))
    ok, h = hist_ok(lab, n, k)
    if not ok:
        bad.append(("constraint_kmeans:%s:unbalanced:%s" % (strategy, _cls(n, k)),
                    "cluster sizes of labels_ outside {floor(n/k), ceil(n/k)} (n=%d, k=%d, %s)" % (n, k, start),
                    h, "every size in {%d,%d}" % (lo, hi)))
    C = numpy.asarray(km.cluster_centers_)
    if C.shape != (k, X.shape[1]) or not numpy.isfinite(C).all():
        bad.append(("constraint_kmeans:%s:centres-not-finite" % strategy, "cluster_centers_ not finite",
                    C.tolist(), "finite centres"))
    if not (km.n_iter_ <= cfg["max_iter"]):
        bad.append(("constraint_kmeans:%s:n_iter" % strategy, "n_iter_ exceeds max_iter", int(km.n_iter_),
                    "<= %d" % cfg["max_iter"]))
    # balanced predictions on the training set and on another batch
    for name, Xb in (("train", X), ("batch", numpy.array(cfg["Xb"], dtype=float).reshape(len(cfg["Xb"]), -1))):
        m = Xb.shape[0]
        try:
            p = numpy.asarray(km.predict(Xb))
        except Exception as e:
            bad.append(("predict:%s:raises-%s" % (strategy, type(e).__name__),
                        "balanced predict raises %s (m=%d, k=%d)" % (type(e).__name__, m, k),
                        "%s: %s" % (type(e).__name__, str(e)[:120]), "balanced labels"))
            continue
        okp, hp = hist_ok(p, m, k)
        if p.shape != (m,) or (p < 0).any() or (p >= k).any():
            bad.append(("predict:%s:labels-invalid" % strategy, "balanced predict returns invalid labels",
                        [int(v) for v in p][:20], "indices in [0,%d)" % k))
        elif not okp:
            bad.append(("predict:%s:unbalanced:%s" % (strategy, _cls(m, k)),
                        "sizes of balanced predict(%s) outside {floor(m/k), ceil(m/k)} (m=%d, k=%d)" % (name, m, k),
                        hp, "every size in {%d,%d}" % (m // k, -(-m // k))))
    # plain predict = nearest centre (tolerance: float64 rounding of sums of <= 3 squares of values <= 64,
    # i.e. absolute errors far below 1e-6)
    if numpy.isfinite(C).all():
        km.balanced_predictions = False
        try:
            p = numpy.asarray(km.predict(X))
            dist = ((X[:, None, :] - C[None, :, :]) ** 2).sum(axis=2)
            chosen = dist[numpy.arange(n), p]
            if (chosen > dist.min(axis=1) + 1e-6).any():
                i = int(numpy.argmax(chosen - dist.min(axis=1)))
                bad.append(("predict:plain-not-nearest", "predict without balanced_predictions is not the nearest centre",
                            {"row": i, "chosen": int(p[i]), "distances": dist[i].tolist()}, "argmin"))
        except Exception as e:
            bad.append(("predict:plain-raises-%s" % type(e).__name__, "plain predict raises", str(e)[:120], "labels"))
    return bad


def _check_direct_prediction(seed):
    """one call of constraint_predictions (what balanced predict runs) with its own RandomState on a skewed batch"""
    import random
    import numpy
    from mlinsights.mlmodel import _kmeans_constraint_ as M
    rng = random.Random(seed)
    k = rng.choice([3, 4, 4, 5])
    m = k * rng.randint(1, 3) + rng.randint(1, k - 1)
    centers = numpy.array([[10.0 * j, 0.0] for j in range(k)])
    # nearest-centre counts: one or two clusters hold almost everything
    heavy = rng.sample(range(k), rng.choice([1, 2]))
    rows = []
    for i in range(m):
        j = rng.choice(heavy) if rng.random() < 0.8 else rng.randrange(k)
        rows.append([10.0 * j + rng.randint(-3, 3), float(rng.randint(-3, 3))])
    X = numpy.array(rows)
    strategy = rng.choice(["gain_p", "gain_p", "distance_p"])
    inp = {"kind": "direct", "n": m, "k": k, "strategy": strategy, "seed": seed}
    try:
        labels, _, _ = M.constraint_predictions(X, centers, strategy, state=numpy.random.RandomState(seed % (1 << 31)))
    except Exception as e:  # noqa: BLE001
        return [("predict:%s:raises-%s" % (strategy[:-2], type(e).__name__), "balanced prediction raises %s (m=%d, k=%d)"
                 % (type(e).__name__, m, k), "%s: %s" % (type(e).__name__, str(e)[:120]), "balanced labels", inp)]
    ok, h = hist_ok(labels, m, k)
    if not ok:
        return [("predict:%s:unbalanced:%s" % (strategy[:-2], _cls(m, k)), "sizes of a balanced prediction outside "
                 "{floor(m/k), ceil(m/k)} (m=%d, k=%d, direct call)" % (m, k), h, "every size in {%d,%d}" % (m // k, -(-m // k)), inp)]
    return []


def _make_cfg(rng, n, k, strategy, kmeans0, d=None, max_iter=None):
    d = d or rng.choice([1, 2, 3])
    X = gen_points(rng, n, d, rng.choice([4, 8, 16, 64]))
    # "any batch": also batches with fewer rows than clusters (then every cluster gets 0 or 1 row)
    m = rng.randint(k, max(k, n + 4)) if rng.random() < 0.7 else rng.randint(1, k)
    if k >= 2 and rng.random() < 0.015:
        m = rng.choice([513, 1030])          # a long batch (row counts around the block sizes of a chunked predict)
    Xb = gen_points(rng, m, d, rng.choice([2, 16]))
    return dict(n=n, k=k, strategy=strategy, kmeans0=kmeans0, seed=rng.randrange(1 << 30),
                max_iter=max_iter or rng.choice([1, 2, 3, 4, 5, 6, 10, 20]), X=X.tolist(), Xb=Xb.tolist())


WITNESS = dict(kind="witness", n=5, k=3, strategy="gain", kmeans0=False, X=[[1], [1], [0], [0], [1]],
               centers=[[1], [1], [1]], labels=[0, 0, 0, 0, 1])


def _check_witness(w):
    """Replay of the Lean witness of `gain_counterexample` (one association call on given labels/centres)."""
    import numpy
    from mlinsights.mlmodel import _kmeans_constraint_ as M
    n, k = w["n"], w["k"]
    X = numpy.array(w["X"], dtype=float)
    centers = numpy.array(w["centers"], dtype=float)
    labels = numpy.array(w["labels"], dtype=numpy.int32)
    numpy.random.seed(0)
    with Recording() as recs:
        try:
            M.constraint_kmeans(X, labels, None, centers, float(n), 0, 1, strategy=w["strategy"], state=None)
        except Exception:
            pass
    if not recs.calls or recs.calls[0]["after"] is None:
        return []
    rec = recs.calls[0]
    if rec["error"]:
        return [("constraint_kmeans:gain:given-start:fit-raises-%s" % rec["error"],
                 "association raises %s on the model witness" % rec["error"], rec["error"], "balanced labels")]
    ok, h = hist_ok(rec["after"], n, k)
    if not ok:
        return [("constraint_kmeans:%s:unbalanced:%s" % (w["strategy"], _cls(n, k)),
                 "cluster sizes after the first association outside {floor(n/k), ceil(n/k)} on the Lean witness "
                 "(n=%d, k=%d, start sizes 4,1,0)" % (n, k), h, "every size in {%d,%d}" % (n // k, -(-n // k)))]
    return []


def search(ctx, hints):
    ctx.shadow(need_cython=True)
    import warnings
    warnings.filterwarnings("ignore")
    rng = ctx.rng
    vs, evals, nontriv, samples = [], 0, set(), []
    broken = bool(getattr(ctx, "broken", None))
    cfgs = []
    # inputs named by the correspondence disagreements first
    for hnt in hints[:20]:
        inp = hnt.get("input") or {}
        if isinstance(inp, dict) and "n" in inp and "k" in inp and inp.get("strategy", "").split("_")[0] in ("gain", "distance"):
            for km0 in (False, True):
                cfgs.append(_make_cfg(rng, inp["n"], inp["k"], inp["strategy"].split("_")[0], km0))
    # a fixed small grid: every (n, k) with k <= n <= 9 (covers n mod k in {0, 1, >=2}), both strategies, both starts
    for n in range(1, ctx.pick(10, 13)):
        for k in range(1, n + 1):
            for strategy in ("distance", "gain"):
                for km0 in (True, False):
                    cfgs.append(_make_cfg(rng, n, k, strategy, km0))
    for t in range(ctx.pick(60, 1500) * (3 if broken else 1)):
        n, k = gen_nk(rng, ctx.pick(40, 60), t % 3)
        cfgs.append(_make_cfg(rng, n, k, rng.choice(["distance", "gain", "gain"]), rng.random() < 0.5))
    # the starvation class: random start (kmeans0=False), strategy gain, n = k (about 5% of the seeds fail on a
    # tree without the last pass of transfers)
    for k in (5, 6, 7):
        for t in range(ctx.pick(70, 200)):
            cfgs.append(_make_cfg(rng, k, k, "gain", False, d=2, max_iter=4))
    # histories: the instance was fitted with another strategy first
    for t in range(ctx.pick(12, 120)):
        n, k = gen_nk(rng, 30, t % 3)
        c = _make_cfg(rng, n, k, rng.choice(["distance", "gain"]), rng.random() < 0.5)
        c["prior_strategy"] = rng.choice(["weights", "weights", "gain", "distance"])
        cfgs.append(c)
    # many direct balanced predictions on SKEWED batches (most rows nearest to one centre, m not divisible by k): the
    # random draws of the gain strategy miss the eligible clusters only once in a few hundred calls
    for t in range(ctx.pick(4000, 40000)):
        bad = _check_direct_prediction(rng.randrange(1 << 30))
        evals += 1
        for key, what, obs, req, inp in bad:
            vs.append(Violation(key, what, inp, obs, req))
    # the Lean witness of gain_counterexample, replayed on the real code
    for key, what, obs, req in _check_witness(WITNESS):
        vs.append(Violation(key, what, dict(WITNESS), obs, req))
    evals += 1
    for cfg in cfgs:
        bad = _check_config(cfg)
        evals += 1
        nontriv.add((cfg["n"], cfg["k"], cfg["strategy"], cfg["kmeans0"], cfg["seed"]))
        if len(samples) < 3 and cfg["n"] > 2 * cfg["k"] and cfg["k"] > 1:
            samples.append({"n": cfg["n"], "k": cfg["k"], "strategy": cfg["strategy"], "kmeans0": cfg["kmeans0"],
                            "max_iter": cfg["max_iter"], "violations": [b[0] for b in bad]})
        for key, what, obs, req in bad:
            vs.append(Violation(key, what, cfg, obs, req))
    best = {}
    for v in vs:
        o = best.get(v.key)
        if o is None or (v.input["n"], v.input["k"]) < (o.input["n"], o.input["k"]):
            best[v.key] = v
    return list(best.values()), {"evaluations": evals, "distinct_nontrivial": len(nontriv), "samples": samples}


def replay(ctx, item):
    ctx.shadow(need_cython=True)
    import warnings
    warnings.filterwarnings("ignore")
    cfg = item["input"]
    if cfg.get("kind") == "witness":
        return [Violation(k, w, cfg, o, r) for k, w, o, r in _check_witness(cfg)]
    if cfg.get("kind") == "direct":
        return [Violation(k, w, i, o, r) for k, w, o, r, i in _check_direct_prediction(cfg["seed"])]
    return [Violation(k, w, cfg, o, r) for k, w, o, r in _check_config(cfg)]
