"""C19 — CategoriesToIntegers encodes each category by its own indicator and nothing else."""
import ast
import itertools
import json

from core import Corr, Violation, run_driver
from extract import pyexpr
from extract import shape

ID = "C19"
SRC = "mlinsights/mlmodel/categories_to_integers.py"
LEAN_TARGETS = ["MlVerif.Gen.C19", "MlVerif.Model.Categories", "MlVerif.Properties.C19"]
PROPERTY_FILE = "MlVerif/Properties/C19.lean"
DRIVER = "Drivers/C19.lean"
TRUSTED = [
    "pandas: DataFrame[[cols]] selection, Series.dropna, DataFrame.to_dict('records') yields the cells of a row in "
    "column order, Series.apply is element-wise in row order, concat(axis=1) of two frames with the identical index "
    "keeps that index; numpy: res[i, p] = 1.0 writes exactly one cell",
    "Python: sorted() on str orders by code point (the model uses Lean's String `<`, also by code point); "
    "dict keyed by distinct column names behaves as the list of records the model iterates over",
    "the frame (list of rows of (column, cell) pairs) handed to the model is the canonical reading of the pandas "
    "frame made by harness/props/c19.py (None and float NaN are both `missing`)",
]
ASSUMPTIONS = [
    "environment drift, not a property matter: pandas 3 infers `str` dtype (not object) for string columns, so the "
    "class's auto-detection `d in (object,)` finds no column on a default-constructed frame; every generated frame "
    "declares its categorical columns with dtype=object (and/or passes columns=), so this is never reported as a "
    "violation",
    "a modality listed in `remove` has no indicator column; a row holding it is read exactly like a row holding a "
    "category unseen during fit: ValueError with skip_errors=False, no indicator (single=True: NaN) and no other "
    "cell affected with skip_errors=True -- this is what the code does, including for the training frame itself",
    "fitted columns hold str/None/NaN cells and have pairwise distinct names; column names and values contain no "
    "'=' in generated cases so that the name `column=value` identifies one cell; `remove` is a list of names; "
    "the model rejects (Err.unsupported) numeric cells in a fitted column and duplicate fitted column names",
    "`raises an error` (skip_errors=False, unseen category) is read as: any exception; the model says ValueError and "
    "the correspondence compares the type name",
    "the order of the indicator columns is not part of the statement (the oracle identifies cells by their name); "
    "the model nevertheless fixes it (schema order) and the correspondence compares it",
]
RULE = ("frames generated from one seeded PRNG: 1-4 object-dtype categorical columns, 0-2 numeric columns, 0-6 rows (thorough: also 5-25 rows), "
        "cells drawn from a small alphabet of strings (ASCII upper/lower/digit/underscore and non-ASCII, empty "
        "string) or None / float NaN, a transform frame sharing the columns whose cells are seen / unseen / missing "
        "(the first cell forced unseen in a fraction of the cases), non-default (also duplicated) index, "
        "columns=None/all/subset, remove=names of seen and unseen modalities, single, skip_errors; model (Lean "
        "driver) and real class compared cell by cell (NaN-aware) and by exception type name. Non-trivial = the "
        "transform frame has at least one row and one fitted column; distinct = distinct (config, fit frame, "
        "transform frame)")
LEVEL_TEXT = ("For every frame (any number of rows and columns, any strings) the Lean theorems prove, about the "
              "executable model of fit/_build_schema/transform, that a seen value sets exactly its own "
              "`column=value` cell in its column's block, that single=True yields the rank among the sorted "
              "distinct kept training values, that missing values give no indicator, that other columns pass "
              "through, that rows/index are kept, that an unseen value raises ValueError without skip_errors and "
              "with skip_errors yields exactly the result of the same frame with that cell missing; and that the "
              "loop as written before the repair of D21 agrees with the repaired one on every frame without "
              "unseen values. The index "
              "expression, the position bookkeeping, the name format, the remove filter, max_cat and the control "
              "flow of the unseen branch are regenerated from the source on every run; the model as a whole is "
              "tied to the code by the differential correspondence.")
LEVEL_NOTE = ("pandas/numpy are modelled (selection, to_dict, apply, concat, cell write), not verified; the model is "
              "a hand transcription validated by the correspondence run; float cells are only NaN / 1.0 / small "
              "integer ranks, compared exactly")
TECHNIQUE = ("Lean 4 proof (induction over the fitted-column list and over rows; fold invariant of the indicator "
             "fill; sortedness of insertion sort) + AST-regenerated definitions (index expression, block "
             "positions, name format, remove filter, max_cat, unseen-branch control flow) + differential "
             "correspondence through a line-protocol driver")

PY2ERR = {"ValueError": "ValueError", "KeyError": "KeyError", "IndexError": "IndexError",
          "UnboundLocalError": "UnboundLocalError"}


# ------------------------------------------------------------------------------ extractor

def _lean_str(s):
    out = []
    for ch in s:
        if ch == '"':
            out.append('\\"')
        elif ch == "\\":
            out.append("\\\\")
        elif 32 <= ord(ch) < 127:
            out.append(ch)
        else:
            out.append("\\u{%x}" % ord(ch))
    return '"' + "".join(out) + '"'


def _unk_int(what):
    return '(MlVerif.Gen.unknownInt %s)' % _lean_str(what)


def _unk_bool(what):
    return '(MlVerif.Gen.unknownBool %s)' % _lean_str(what)


def _always_leaves(body):
    """True iff every path through the statement list ends in raise/continue (never falls out of it)."""
    if not body:
        return False
    last = body[-1]
    if isinstance(last, (ast.Raise, ast.Continue)):
        return True
    if isinstance(last, ast.If) and last.orelse:
        return _always_leaves(last.body) and _always_leaves(last.orelse)
    return False


def _find_cell_loop(transform):
    """The inner `for k, v in row.items()` loop of the single=False branch."""
    for n in ast.walk(transform):
        if isinstance(n, ast.For) and ast.unparse(n.iter) == "row.items()" and ast.unparse(n.target) in ("(k, v)", "k, v"):
            return n
    return None


def extract(ctx):
    tree = ast.parse(ctx.source(SRC))
    fit = pyexpr.find_function(tree, "CategoriesToIntegers.fit")
    bs = pyexpr.find_function(tree, "CategoriesToIntegers._build_schema")
    tr = pyexpr.find_function(tree, "CategoriesToIntegers.transform")
    notes = []

    # fit: max_cat and the guard
    t1 = pyexpr.Tr({"len(X)": ("n", "int"), "X.shape[0]": ("n", "int")})
    mc = pyexpr.assignments(fit, "max_cat")
    max_cat = t1.int_expr(mc[0].value) if len(mc) == 1 else _unk_int("max_cat: %d assignments" % len(mc))
    t2 = pyexpr.Tr({"nb": ("nb", "int"), "max_cat": ("(maxCat n)", "int")})
    guards = [n for n in ast.walk(fit) if isinstance(n, ast.If) and "max_cat" in ast.unparse(n.test)]
    if len(guards) == 1 and _always_leaves(guards[0].body) and not guards[0].orelse:
        g, ty = t2.expr(guards[0].test)
        too_many = g if ty == "bool" else _unk_bool(ast.unparse(guards[0].test))
    else:
        too_many = _unk_bool("max_cat guard: %d candidates" % len(guards))
    # fit / _build_schema: plain ascending sorted()
    def plain_sorted(fn, what):
        cs = pyexpr.calls(fn, "sorted")
        if cs and all(len(c.args) == 1 and not c.keywords for c in cs):
            return "true"
        if cs and all(len(c.args) == 1 and all(k.arg == "reverse" and isinstance(k.value, ast.Constant)
                                               and k.value.value is False for k in c.keywords) for c in cs):
            return "true"
        if cs and any(any(k.arg == "reverse" and isinstance(k.value, ast.Constant) and k.value.value is True
                          for k in c.keywords) for c in cs):
            return "false"
        return _unk_bool("sorted() calls in %s not in the expected form" % what)
    fit_sorted = plain_sorted(fit, "fit")
    schema_sorted = plain_sorted(bs, "_build_schema")
    # the distinct values are taken after dropna()
    drops = "true" if any(ast.unparse(c.func).endswith(".dropna") for c in ast.walk(fit)
                          if isinstance(c, ast.Call)) and len(pyexpr.assignments(fit, "distinct")) == 1 and \
        ast.unparse(pyexpr.assignments(fit, "distinct")[0].value) == "set(X[c].dropna())" else \
        _unk_bool("distinct = ... not `set(X[c].dropna())`")

    # _build_schema: last += len(sch); position[c] = last before it; name format; remove filter
    loops = [n for n in ast.walk(bs) if isinstance(n, ast.For)]
    next_last = _unk_int("last += ...: not found")
    pos_first = _unk_bool("position[c] = last / last += len(sch) not found in the loop body")
    pos_expr = _unk_int("position[c] = ...: not found")
    if len(loops) == 1:
        body = loops[0].body
        augs = [(i, s) for i, s in enumerate(body) if isinstance(s, ast.AugAssign) and ast.unparse(s.target) == "last"]
        poss = [(i, s) for i, s in enumerate(body) if isinstance(s, ast.Assign) and len(s.targets) == 1
                and ast.unparse(s.targets[0]) == "position[c]"]
        t3 = pyexpr.Tr({"last": ("last", "int"), "len(sch)": ("len", "int")})
        if len(augs) == 1:
            a = augs[0][1]
            fake = ast.BinOp(left=ast.Name(id="last", ctx=ast.Load()), op=a.op, right=a.value)
            next_last = t3.int_expr(ast.fix_missing_locations(fake))
        if len(poss) == 1:
            pos_expr = t3.int_expr(poss[0][1].value)
        if len(augs) == 1 and len(poss) == 1:
            # position is read before `last` advances, and after the remove filter fixed len(sch)
            pos_first = "true" if poss[0][0] < augs[0][0] else "false"
    fstrings = [n for n in ast.walk(bs) if isinstance(n, ast.JoinedStr)]
    name_parts = None
    if len(fstrings) == 1:
        parts = []
        for v in fstrings[0].values:
            if isinstance(v, ast.Constant) and isinstance(v.value, str):
                parts.append(_lean_str(v.value))
            elif isinstance(v, ast.FormattedValue) and v.conversion == -1 and v.format_spec is None:
                s = ast.unparse(v.value)
                if s == "c":
                    parts.append("c")
                elif s == "_[1]":
                    parts.append("v")
                else:
                    parts = None
                    break
            else:
                parts = None
                break
        name_parts = parts
    if name_parts is None:
        name_def = 'toString %s' % _unk_int("schema name f-string not of the form f'{c}...{_[1]}'")
    else:
        name_def = "String.join [%s]" % ", ".join(name_parts)
    keep = _unk_bool("remove filter not found")
    comps = [s for s in ast.walk(bs) if isinstance(s, ast.Assign) and ast.unparse(s.targets[0]) == "sch"
             and isinstance(s.value, ast.ListComp)]
    filt = [s for s in comps if s.value.generators and s.value.generators[0].ifs]
    if len(filt) == 1 and len(filt[0].value.generators) == 1 and len(filt[0].value.generators[0].ifs) == 1:
        g = filt[0].value.generators[0]
        cond = g.ifs[0]
        elt_ok = ast.unparse(filt[0].value.elt) == ast.unparse(g.target) and ast.unparse(g.iter) == "sch"
        if elt_ok and isinstance(cond, ast.Compare) and len(cond.ops) == 1 and \
                ast.unparse(cond.left) == "%s[1]" % ast.unparse(g.target) and \
                ast.unparse(cond.comparators[0]) == "self.remove":
            if isinstance(cond.ops[0], ast.NotIn):
                keep = "(! inRemove)"
            elif isinstance(cond.ops[0], ast.In):
                keep = "inRemove"
            else:
                keep = _unk_bool(ast.unparse(cond))
        else:
            keep = _unk_bool(ast.unparse(filt[0]))

    # transform: p = pos[k] + vec[k][v]; control flow of the cell loop
    t4 = pyexpr.Tr({"pos[k]": ("pos", "int"), "vec[k][v]": ("off", "int")})
    loop = _find_cell_loop(tr)
    cell_index = _unk_int("p = ...: not found")
    unseen_leaves = _unk_bool("cell loop not found")
    missing_leaves = _unk_bool("cell loop not found")
    unseen_raises = _unk_bool("cell loop not found")
    write_one = _unk_bool("cell loop not found")
    if loop is not None:
        ps = pyexpr.assignments(loop, "p")
        if len(ps) == 1:
            cell_index = t4.int_expr(ps[0].value)
        body = loop.body
        shape_ok = (len(body) == 3 and isinstance(body[0], ast.If) and isinstance(body[1], ast.If)
                    and isinstance(body[2], ast.Assign))
        if shape_ok:
            miss, unseen, write = body
            if ast.unparse(miss.test) == "v is None or (isinstance(v, float) and numpy.isnan(v))" and not miss.orelse:
                missing_leaves = "true" if _always_leaves(miss.body) else "false"
            else:
                missing_leaves = _unk_bool(ast.unparse(miss.test))
            if ast.unparse(unseen.test) == "v not in vec[k]" and len(unseen.orelse) == 1 and len(ps) == 1 \
                    and unseen.orelse[0] is ps[0]:
                unseen_leaves = "true" if _always_leaves(unseen.body) else "false"
                first = unseen.body[0] if unseen.body else None
                if isinstance(first, ast.If) and ast.unparse(first.test) == "b" and _always_leaves(first.body) \
                        and isinstance(first.body[-1], ast.Raise) and not first.orelse \
                        and len(pyexpr.assignments(tr, "b")) == 2 \
                        and all(ast.unparse(a.value) == "not self.skip_errors" for a in pyexpr.assignments(tr, "b")):
                    unseen_raises = "true"
                else:
                    unseen_raises = _unk_bool("`if b: ... raise` with b = not self.skip_errors not found")
            else:
                unseen_leaves = _unk_bool("unseen branch: " + ast.unparse(unseen.test))
            if ast.unparse(write.targets[0]) == "res[i, p]" and isinstance(write.value, ast.Constant) \
                    and write.value.value == 1.0:
                write_one = "true"
            else:
                write_one = _unk_bool(ast.unparse(write))
        else:
            unseen_leaves = missing_leaves = unseen_raises = write_one = _unk_bool(
                "cell loop body is not [if missing, if unseen/else p=..., res[i, p] = 1.0]")

    body = pyexpr.HEADER + """import MlVerif.Gen.Base
set_option linter.unusedVariables false
namespace MlVerif.Gen.C19
open MlVerif.Gen

/-- fit: `max_cat = %s` (n = len(X)) -/
def maxCat (n : Int) : Int := %s
/-- fit: the guard `if %s: raise ValueError` -/
def tooMany (nb n : Int) : Bool := %s
/-- fit sorts the distinct values with a plain ascending `sorted(...)` -/
def fitSortedAscending : Bool := %s
/-- fit takes the distinct values after `dropna()` -/
def fitDropsMissing : Bool := %s
/-- _build_schema enumerates the categories with a plain ascending `sorted(...)` -/
def schemaSortedAscending : Bool := %s
/-- _build_schema: value stored by `position[c] = ...` -/
def blockStart (last len : Int) : Int := %s
/-- _build_schema: `last += len(sch)` -/
def nextLast (last len : Int) : Int := %s
/-- _build_schema: `position[c] = last` is executed before `last += len(sch)` -/
def positionBeforeAdvance : Bool := %s
/-- _build_schema: the name of a schema column, from the f-string -/
def schemaName (c v : String) : String := %s
/-- _build_schema: the `remove` filter keeps a name iff ... (`inRemove` = the name is in `self.remove`) -/
def keepName (inRemove : Bool) : Bool := %s
/-- transform: `p = pos[k] + vec[k][v]` -/
def cellIndex (pos off : Int) : Int := %s
/-- transform: the missing-value branch leaves the cell iteration on every path -/
def missingLeavesIteration : Bool := %s
/-- transform: the unseen-value branch leaves the cell iteration (raise/continue) on every path,
    i.e. never reaches `res[i, p] = 1.0` -/
def unseenLeavesIteration : Bool := %s
/-- transform: the unseen-value branch starts with `if b: ... raise`, b = not self.skip_errors -/
def unseenRaisesUnlessSkip : Bool := %s
/-- transform: the cell statement is `res[i, p] = 1.0` -/
def writesOneAtP : Bool := %s

end MlVerif.Gen.C19
""" % (ast.unparse(mc[0].value) if mc else "?", max_cat,
       ast.unparse(guards[0].test) if guards else "?", too_many, fit_sorted, drops, schema_sorted,
       pos_expr, next_last, pos_first, name_def, keep, cell_index, missing_leaves, unseen_leaves,
       unseen_raises, write_one)
    body = body.replace("end MlVerif.Gen.C19\n", shape.lean_defs([("shapeFit", fit), ("shapeBuildSchema", bs),
                                                                    ("shapeTransform", tr)]) + "\nend MlVerif.Gen.C19\n")
    return {"MlVerif/Gen/C19.lean": body}


# ------------------------------------------------------------------------------ cases
# A case is JSON: {"cfg": {columns, remove, skip_errors, single},
#                  "fit": {"cols": [[name, kind]], "index": [...], "rows": [[cell]]}, "tr": {...}}
# kind: "cat" (dtype=object), "int", "float".  cell: None | "nan" (float NaN) | "s:<text>" | int

ALPHA = ["a", "b", "c", "A", "B", "Z", "_", "0", "9", "ab", "ba", "aa", "", "é", "ß", "中",
         "\U0001F600", "a_b", "Ab", "z", "a b", "x,y", "10", "2"]
CATNAMES = ["a", "b", "c", "d", "cat", "C", "_x", "été", "col 1"]
NUMNAMES = ["n", "m", "num"]


def enc_str(s):
    return "e" if s == "" else ".".join(str(ord(ch)) for ch in s)


def is_missing(v):
    return v is None or (isinstance(v, float) and v != v) or v == "nan"


def cell_py(cell, kind):
    if cell is None:
        return None
    if cell == "nan":
        return float("nan")
    if isinstance(cell, str):
        return cell[2:]
    return float(cell) if kind == "float" else int(cell)


def enc_cell(cell):
    if cell is None or cell == "nan":
        return "M"
    if isinstance(cell, str):
        return "S" + enc_str(cell[2:])
    return "N%d" % cell


def build_df(fr):
    import pandas
    data = {}
    for j, (name, kind) in enumerate(fr["cols"]):
        vals = [cell_py(r[j], kind) for r in fr["rows"]]
        dt = object if kind == "cat" else ("int64" if kind == "int" else "float64")
        data[name] = pandas.Series(vals, dtype=dt, index=list(fr["index"]))
    return pandas.DataFrame(data, index=list(fr["index"]), columns=[c for c, _ in fr["cols"]])


def wire_frame(fr):
    cols = ",".join(("O" if k == "cat" else "X") + enc_str(n) for n, k in fr["cols"]) or "-"
    idx = ",".join(str(i) for i in fr["index"]) or "-"
    rows = ";".join(",".join(enc_cell(c) for c in r) for r in fr["rows"]) or "-"
    return "%s %s %s" % (cols, idx, rows)


def wire_case(case):
    cfg = case["cfg"]
    columns = "none" if cfg["columns"] is None else (",".join(enc_str(c) for c in cfg["columns"]) or "-")
    remove = ",".join(enc_str(c) for c in (cfg["remove"] or [])) or "-"
    return "run %s %s %d %d %s %s" % (columns, remove, int(cfg["skip_errors"]), int(cfg["single"]),
                                      wire_frame(case["fit"]), wire_frame(case["tr"]))


def make_transformer(cfg):
    from mlinsights.mlmodel.categories_to_integers import CategoriesToIntegers
    return CategoriesToIntegers(columns=None if cfg["columns"] is None else list(cfg["columns"]),
                                remove=None if cfg["remove"] is None else list(cfg["remove"]),
                                skip_errors=cfg["skip_errors"], single=cfg["single"])


def run_real(case):
    """-> ("fitE", name) | ("trE", name) | ("ok", transformer, result frame)"""
    t = make_transformer(case["cfg"])
    try:
        t.fit(build_df(case["fit"]))
    except Exception as e:  # canonical: the type name
        return ("fitE", type(e).__name__, str(e))
    try:
        res = t.transform(build_df(case["tr"]))
    except Exception as e:
        return ("trE", type(e).__name__, str(e))
    return ("ok", t, res)


def canon_pass(v):
    if v is None or (isinstance(v, float) and v != v):
        return "M"
    if isinstance(v, str):
        return "S" + enc_str(v)
    try:
        if float(v) == int(v):
            return "N%d" % int(v)
    except Exception:
        pass
    return "?%r" % (v,)


def canon_real(case, out):
    if out[0] != "ok":
        return "%s:%s" % (out[0], PY2ERR.get(out[1], out[1]))
    _, t, res = out
    fitted = list(t._fit_columns)
    arr = res.to_numpy(dtype=object)
    cols = [str(c) for c in res.columns]
    single = case["cfg"]["single"]
    npass = len([c for c, _ in case["tr"]["cols"] if c not in fitted])
    rows = []
    for i in range(arr.shape[0]):
        cells = []
        for j in range(arr.shape[1]):
            v = arr[i, j]
            if single:
                kind = "rank" if cols[j] in fitted else "pass"
            else:
                kind = "pass" if j < npass else "ind"
            if kind == "pass":
                cells.append(canon_pass(v))
            elif isinstance(v, float) and v != v:
                cells.append("nan")
            elif kind == "ind":
                cells.append("1" if isinstance(v, float) and v == 1.0 else "?%r" % (v,))
            else:
                try:
                    cells.append("r%d" % int(v) if float(v) == int(v) else "?%r" % (v,))
                except Exception:
                    cells.append("?%r" % (v,))
        rows.append(",".join(cells) or "-")
    try:
        idx = ",".join(str(int(i)) for i in res.index) or "-"
    except Exception:
        idx = "?%r" % (list(res.index),)
    return "ok %s %s %s" % (",".join(enc_str(c) for c in cols) or "-", idx, ";".join(rows) or "-")


def gen_case(rng, big=False):
    ncat = rng.choice([1, 1, 2, 2, 3, 4])
    nnum = rng.choice([0, 0, 1, 2])
    cat_names = rng.sample(CATNAMES, ncat)
    cols = [[n, "cat"] for n in cat_names] + [[n, rng.choice(["int", "int", "float"])]
                                              for n in rng.sample(NUMNAMES, nnum)]
    rng.shuffle(cols)
    pools = {}
    for n in cat_names:
        vals = rng.sample(ALPHA, rng.randint(2, 6))
        k = rng.randint(1, len(vals) - 1)
        pools[n] = (vals[:k], vals[k:])
    p_miss = rng.choice([0.0, 0.15, 0.3])
    p_unseen = rng.choice([0.0, 0.0, 0.15, 0.4])

    def missing():
        return None if rng.random() < 0.5 else "nan"

    def numcell(kind):
        if kind == "float" and rng.random() < 0.2:
            return "nan"
        return rng.randint(-5, 20)

    nfit = rng.choice([0, 1, 2, 3, 4, 5, 6, 3, 4])
    large = big and rng.random() < 0.15
    if large:
        nfit = rng.randint(5, 25)
    fit_rows = [[(missing() if rng.random() < p_miss else "s:" + rng.choice(pools[n][0])) if k == "cat"
                 else numcell(k) for n, k in cols] for _ in range(nfit)]
    seen = {n: sorted({r[j][2:] for r in fit_rows if isinstance(r[j], str) and r[j] != "nan"})
            for j, (n, k) in enumerate(cols) if k == "cat"}
    tr_cols = list(cols)
    if rng.random() < 0.3:
        rng.shuffle(tr_cols)
    ntr = rng.randint(5, 25) if large else rng.choice([0, 1, 1, 2, 2, 3, 4, 5])

    def trcell(n, k):
        if k != "cat":
            return numcell(k)
        u = rng.random()
        if u < p_miss:
            return missing()
        if u < p_miss + p_unseen or not seen[n]:
            return "s:" + rng.choice(pools[n][1])
        return "s:" + rng.choice(seen[n])
    tr_rows = [[trcell(n, k) for n, k in tr_cols] for _ in range(ntr)]

    def index(n):
        m = rng.random()
        if m < 0.4:
            return list(range(n))
        if m < 0.8:
            return rng.sample(range(-50, 200), n)
        return [rng.randint(0, 3) for _ in range(n)]
    m = rng.random()
    if m < 0.35:
        columns = None
    elif m < 0.6:
        columns = list(cat_names)
        rng.shuffle(columns)
    elif m < 0.95:
        columns = rng.sample(cat_names, rng.randint(1, ncat))
    else:
        columns = []
    fitted = columns if columns else [n for n, k in cols if k == "cat"]
    if ntr and fitted and rng.random() < 0.2:
        # the very first processed cell is unseen
        j = [c for c, _ in tr_cols].index(fitted[0])
        tr_rows[0][j] = "s:" + rng.choice(pools[fitted[0]][1])
    m = rng.random()
    if m < 0.5:
        remove = None
    elif m < 0.6:
        remove = []
    else:
        cand = ["%s=%s" % (n, v) for n in cat_names for v in pools[n][0] + pools[n][1][:1]]
        remove = rng.sample(cand, rng.randint(1, min(3, len(cand))))
        if rng.random() < 0.3:
            remove.append("zz=zz")
    cfg = {"columns": columns, "remove": remove, "skip_errors": rng.random() < 0.6, "single": rng.random() < 0.35}
    return {"cfg": cfg, "fit": {"cols": cols, "index": index(nfit), "rows": fit_rows},
            "tr": {"cols": tr_cols, "index": index(ntr), "rows": tr_rows}}


def fitted_of(case):
    cols = case["cfg"]["columns"]
    return list(cols) if cols else [n for n, k in case["fit"]["cols"] if k == "cat"]


def classify(case, corr=None):
    """Which branches a case exercises (names for the histogram)."""
    fitted = fitted_of(case)
    fcols = [c for c, _ in case["fit"]["cols"]]
    tcols = [c for c, _ in case["tr"]["cols"]]
    rem = set(case["cfg"]["remove"] or [])
    tags = set()
    kept = {}
    for c in fitted:
        if c not in fcols:
            continue
        j = fcols.index(c)
        vals = {r[j][2:] for r in case["fit"]["rows"] if isinstance(r[j], str) and r[j] != "nan"}
        kept[c] = {v for v in vals if "%s=%s" % (c, v) not in rem}
        if len(vals) != len(kept[c]):
            tags.add("remove-hits-seen-value")
    first = True
    for r in case["tr"]["rows"]:
        for c in fitted:
            if c not in tcols or c not in kept:
                continue
            cell = r[tcols.index(c)]
            if cell is None:
                tags.add("cell-None")
            elif cell == "nan":
                tags.add("cell-NaN")
            elif cell[2:] in kept[c]:
                tags.add("cell-seen")
                first = False
            else:
                tags.add("cell-unseen-or-removed")
                if first:
                    tags.add("unseen-before-any-seen-cell")
                    first = False
    return tags


# ------------------------------------------------------------------------------ correspondence

def correspond(ctx):
    ctx.shadow(need_cython=False)
    import pandas
    corr = Corr()
    corr.rule = RULE
    rng = ctx.rng
    cases = []
    # hand-made corner cases first: absent columns (KeyError), empty frames
    base = {"cols": [["a", "cat"], ["n", "int"]], "index": [0, 1], "rows": [["s:x", 1], [None, 2]]}
    for skip in (False, True):
        for single in (False, True):
            cases.append({"cfg": {"columns": ["zz"], "remove": None, "skip_errors": skip, "single": single},
                          "fit": base, "tr": base})
            cases.append({"cfg": {"columns": ["a"], "remove": None, "skip_errors": skip, "single": single},
                          "fit": base, "tr": {"cols": [["n", "int"]], "index": [3], "rows": [[5]]}})
            cases.append({"cfg": {"columns": ["a"], "remove": None, "skip_errors": skip, "single": single},
                          "fit": base, "tr": {"cols": [["n", "int"]], "index": [], "rows": []}})
            cases.append({"cfg": {"columns": None, "remove": ["a=x"], "skip_errors": skip, "single": single},
                          "fit": base, "tr": base})
    for _ in range(ctx.pick(2500, 40000)):
        cases.append(gen_case(rng, big=ctx.thorough))
    lines, expect = [], []
    for case in cases:
        out = run_real(case)
        impl = canon_real(case, out)
        lines.append(wire_case(case))
        expect.append((case, impl))
        ntr = len(case["tr"]["rows"])
        key = json.dumps(case, sort_keys=True)
        corr.case(key, nontrivial=(ntr > 0 and bool(fitted_of(case))),
                  sample={"case": case, "impl": impl} if len(corr.samples) < 3 else None)
        for tag in classify(case):
            corr.hit(tag)
        corr.hit("result:" + impl.split(" ")[0])
        corr.hit("rows=%d" % ntr)
        corr.hit("fitted_cols=%d" % len(fitted_of(case)))
        corr.hit("single" if case["cfg"]["single"] else "indicator-matrix")
        corr.hit("skip_errors" if case["cfg"]["skip_errors"] else "strict")
        corr.hit("columns=auto" if not case["cfg"]["columns"] else "columns=given")
        if case["cfg"]["remove"]:
            corr.hit("remove-given")
        if len(set(case["tr"]["index"])) < ntr:
            corr.hit("duplicate-index")
    # the max_cat guard: n rows, nb distinct values
    many = []
    for n, nb in [(10000, 10000), (10000, 9999), (20002, 10001), (20000, 10001)]:
        df = pandas.DataFrame({"a": pandas.Series(["v%05d" % (i % nb) for i in range(n)], dtype=object)})
        from mlinsights.mlmodel.categories_to_integers import CategoriesToIntegers
        try:
            CategoriesToIntegers(columns=["a"]).fit(df)
            impl = "0"
        except ValueError:
            impl = "1"
        except Exception as e:
            impl = type(e).__name__
        lines.append("toomany %d %d" % (nb, n))
        many.append(((n, nb), impl))
        corr.case(("toomany", n, nb), nontrivial=True)
        corr.hit("max_cat-guard:" + impl)
    got = run_driver(DRIVER, lines)
    for (case, impl), g in zip(expect, got):
        if g != impl:
            corr.disagree("run", case, g, impl)
    for (inp, impl), g in zip(many, got[len(expect):]):
        if g != impl:
            corr.disagree("toomany", list(inp), g, impl)
    return corr


# ------------------------------------------------------------------------------ search (oracle from the statement)

K = "CategoriesToIntegers."


def same_value(a, b):
    am = a is None or (isinstance(a, float) and a != a)
    bm = b is None or (isinstance(b, float) and b != b)
    if am or bm:
        return am and bm
    return a == b


def oracle(case):
    """Check the statement of C19 on the real code for one case.  Returns a list of
    (key, what, observed, required).  Written from the statement: per fitted column, one indicator named
    column=value for the row's value and nothing else in that column; single -> rank among the sorted training
    categories; missing -> none; other columns unchanged; rows/index kept; unseen -> error, or (skip_errors)
    no indicator for that column and no other cell affected."""
    import numpy
    cfg = case["cfg"]
    skip, single = cfg["skip_errors"], cfg["single"]
    rem = set(cfg["remove"] or [])
    fitted = fitted_of(case)
    fcols = [c for c, _ in case["fit"]["cols"]]
    tcols = [c for c, _ in case["tr"]["cols"]]
    fkind = dict(map(tuple, case["fit"]["cols"]))
    tkind = dict(map(tuple, case["tr"]["cols"]))
    # training categories per fitted column, sorted; the removed modalities have no indicator
    cats = {}
    for c in fitted:
        j = fcols.index(c)
        vals = sorted({cell_py(r[j], fkind[c]) for r in case["fit"]["rows"] if not is_missing(r[j])})
        cats[c] = [v for v in vals if "%s=%s" % (c, v) not in rem]
    if any(c not in tcols for c in fitted) or any(c not in fcols for c in fitted):
        return []       # a frame lacking a fitted column (or a `columns` entry absent from the training frame): not a frame
                        # the statement speaks about
    X = [[cell_py(r[j], tkind[tcols[j]]) for j in range(len(tcols))] for r in case["tr"]["rows"]]
    unseen = [(i, c) for i, r in enumerate(X) for c in fitted
              if not is_missing(r[tcols.index(c)]) and r[tcols.index(c)] not in cats[c]]
    out = run_real(case)
    bad = []
    if out[0] == "fitE":
        return [("fit:raises-" + out[1], "fit raises on a valid training frame", "%s: %s" % out[1:], "fitted")]
    if out[0] == "trE":
        if unseen and not skip:
            return []                                   # an error is what the statement requires
        if unseen and skip:
            key = "transform:skip_errors-first-cell-raises" if out[1] == "UnboundLocalError" \
                else "transform:skip_errors-raises-" + out[1]
            return [(key, "skip_errors=True and an unseen category: transform raises instead of producing "
                          "no indicator", "%s: %s" % (out[1], out[2][:120]),
                     "no exception; cells %r give no indicator" % (unseen[:3],))]
        return [("transform:raises-%s-on-seen-values" % out[1], "transform raises although every value was seen "
                 "during fit or is missing", "%s: %s" % (out[1], out[2][:120]), "a frame")]
    _, t, res = out
    if unseen and not skip:
        return [("transform:unseen-not-raised", "skip_errors=False and an unseen category: no error",
                 "returned a frame; unseen cells %r" % (unseen[:3],), "an exception")]
    if len(res) != len(X) or list(res.index) != list(case["tr"]["index"]):
        return [("transform:index-or-row-count", "rows do not keep their order/index",
                 {"index": [int(i) for i in res.index]}, {"index": case["tr"]["index"]})]
    rcols = [str(c) for c in res.columns]
    others = [c for c in tcols if c not in fitted]
    if single:
        if rcols != tcols:
            return [("transform:single-columns", "single=True changes the columns", rcols, tcols)]
        for c in tcols:
            col = res[c].tolist()
            j = tcols.index(c)
            for i in range(len(X)):
                v, got = X[i][j], col[i]
                if c not in fitted:
                    if not same_value(v, got):
                        bad.append(("transform:passthrough-changed", "a column that is not fitted is changed",
                                    {"row": i, "column": c, "got": repr(got)}, repr(v)))
                elif is_missing(v):
                    if not (isinstance(got, float) and got != got):
                        bad.append(("transform:single-missing-not-nan", "missing value not NaN",
                                    {"row": i, "column": c, "got": repr(got)}, "NaN"))
                elif v in cats[c]:
                    want = cats[c].index(v)
                    if not (got == want):
                        bad.append(("transform:single-rank", "single=True: not the rank among the sorted training "
                                    "categories", {"row": i, "column": c, "value": v, "got": repr(got)}, want))
                else:
                    if not (isinstance(got, float) and got != got):
                        bad.append(("transform:single-skip_errors-unseen-not-nan", "unseen value under skip_errors "
                                    "is not NaN", {"row": i, "column": c, "value": v, "got": repr(got)}, "NaN"))
        return bad
    names = ["%s=%s" % (c, v) for c in fitted for v in cats[c]]
    if sorted(rcols) != sorted(others + names) or len(set(rcols)) != len(rcols):
        return [("transform:indicator-columns", "the result does not have exactly the pass-through columns and one "
                 "column per (fitted column, training category)", rcols, others + names)]
    for c in others:
        col = res[c].tolist()
        j = tcols.index(c)
        for i in range(len(X)):
            if not same_value(X[i][j], col[i]):
                bad.append(("transform:passthrough-changed", "a column that is not fitted is changed",
                            {"row": i, "column": c, "got": repr(col[i])}, repr(X[i][j])))
    for c in fitted:
        j = tcols.index(c)
        for u in cats[c]:
            col = res["%s=%s" % (c, u)].tolist()
            for i in range(len(X)):
                v, got = X[i][j], col[i]
                want_one = (not is_missing(v)) and v == u
                is_nan = isinstance(got, float) and got != got
                if want_one and not (got == 1.0):
                    bad.append(("transform:missing-indicator", "the indicator column=value of the row's value is "
                                "not 1", {"row": i, "cell": "%s=%s" % (c, u), "got": repr(got)}, 1.0))
                elif not want_one and not is_nan:
                    if got == 1.0 and unseen and skip:
                        key = "transform:skip_errors-stale-indicator"
                        what = ("skip_errors=True: a frame with an unseen category gets an indicator that is not "
                                "the row's value (another cell is affected)")
                    elif got == 1.0:
                        key, what = "transform:spurious-indicator", "an indicator that is not the row's value is set"
                    else:
                        key, what = "transform:cell-value", "a cell is neither NaN nor 1"
                    bad.append((key, what, {"row": i, "row_value": None if is_missing(v) else v,
                                            "cell": "%s=%s" % (c, u), "got": repr(got), "unseen_cells": unseen[:3]},
                                "NaN"))
    return bad


def case_size(case):
    # prefer a non-degenerate training frame, then the shortest description
    return (0 if case["fit"]["rows"] else 1, len(json.dumps(case)),
            len(case["tr"]["rows"]) * len(case["tr"]["cols"]) + len(case["fit"]["rows"]) * len(case["fit"]["cols"]))


def tiny_cases():
    """Exhaustive tiny frames: one or two categorical columns, values x (seen), q (unseen), None."""
    cells = ["s:x", "s:q", None]
    for ncol in (1, 2):
        names = ["a", "b"][:ncol]
        cols = [[n, "cat"] for n in names]
        fit = {"cols": cols, "index": [0], "rows": [["s:x"] * ncol]}
        for ntr in (1, 2):
            for flat in itertools.product(cells, repeat=ncol * ntr):
                rows = [list(flat[i * ncol:(i + 1) * ncol]) for i in range(ntr)]
                for skip in (False, True):
                    for single in (False, True):
                        yield {"cfg": {"columns": names, "remove": None, "skip_errors": skip, "single": single},
                               "fit": fit, "tr": {"cols": cols, "index": list(range(ntr)), "rows": rows}}


def search(ctx, hints):
    ctx.shadow(need_cython=False)
    rng = ctx.rng
    best, evals, nontriv, samples = {}, 0, set(), []

    def consider(case):
        nonlocal evals
        evals += 1
        if case["tr"]["rows"] and fitted_of(case):
            nontriv.add(json.dumps(case, sort_keys=True))
        for key, what, obs, req in oracle(case):
            v = Violation(K + key, what, case, obs, req)
            if v.key not in best or case_size(case) < case_size(best[v.key].input):
                best[v.key] = v
    for h in hints or []:
        if isinstance(h, dict) and isinstance(h.get("input"), dict) and "cfg" in h["input"]:
            consider(h["input"])
    for case in tiny_cases():
        consider(case)
    # larger budget when a proof obligation / the extractor / the correspondence no longer checks
    budget = ctx.pick(2000, 25000) * (2 if getattr(ctx, "broken", None) else 1)
    for t in range(budget):
        case = gen_case(rng, big=ctx.thorough)
        if not fitted_of(case):
            continue
        consider(case)
        if len(samples) < 2:
            samples.append(case)
    # numeric categories (object column holding numbers): "sorted training categories" is the numeric order
    for t in range(ctx.pick(30, 300)):
        sd = rng.randrange(1 << 30)
        evals += 1
        nontriv.add("numeric:%d" % sd)
        for key, what, obs, req in numeric_oracle(sd):
            v = Violation(K + key, what, {"numeric_seed": sd}, obs, req)
            best.setdefault(v.key, v)
    for t, rows in enumerate(TALL if ctx.thorough else TALL[:3]):
        for single in (False, True):
            evals += 1
            nontriv.add("tall:%d:%s" % (rows, single))
            for key, what, obs, req in tall_oracle(rows, single):
                v = Violation(K + key, what, {"tall_rows": rows, "single": single}, obs, req)
                best.setdefault(v.key, v)
    # histories: fit, use, fit on another frame, use
    for t in range(ctx.pick(60, 600)):
        sd = rng.randrange(1 << 30)
        evals += 1
        nontriv.add("history:%d" % sd)
        for key, what, obs, req in history_oracle(sd):
            v = Violation(K + key, what, {"history_seed": sd}, obs, req)
            best.setdefault(v.key, v)
    return list(best.values()), {"evaluations": evals, "distinct_nontrivial": len(nontriv), "samples": samples}


TALL = (1025, 2049, 1024, 4097, 1023, 3000)


def tall_oracle(rows, single):
    """"every frame": also a long one - row counts around the block sizes a chunked implementation would use.  Row i
    holds category cats[(i * 7 + i // 5) % 4]; the indicator / code of every row is checked, vectorised."""
    import numpy
    import pandas
    from mlinsights.mlmodel.categories_to_integers import CategoriesToIntegers
    cats = ["a", "b", "c", "d"]
    idx = (numpy.arange(rows) * 7 + numpy.arange(rows) // 5) % 4
    vals = [cats[i] for i in idx]
    df = pandas.DataFrame({"c": pandas.Series(vals, dtype=object), "x": numpy.arange(rows, dtype=float)})
    try:
        out = CategoriesToIntegers(columns=["c"], single=single).fit(df).transform(df)
    except Exception as e:  # noqa: BLE001
        return [("raises-%s-on-seen-values" % type(e).__name__, "transform raises on a frame of %d rows" % rows,
                 "%s: %s" % (type(e).__name__, str(e)[:120]), "no exception")]
    if out.shape[0] != rows:
        return [("index-or-row-count", "number of rows of the result for a frame of %d rows" % rows, int(out.shape[0]), rows)]
    if single:
        got = numpy.asarray(out["c"], dtype=float)
        badrows = numpy.flatnonzero(got != idx.astype(float))
        if len(badrows):
            return [("single-rank", "single=True on %d rows: the code of row %d is not the rank of its category"
                     % (rows, int(badrows[0])), float(got[badrows[0]]), float(idx[badrows[0]]))]
        return []
    for j, cat in enumerate(cats):
        col = "c=%s" % cat
        if col not in out.columns:
            return [("wrong-indicator", "the indicator column %s is missing" % col, list(map(str, out.columns)), col)]
        got = numpy.nan_to_num(numpy.asarray(out[col], dtype=float), nan=0.0)
        want = (idx == j).astype(float)
        badrows = numpy.flatnonzero(got != want)
        if len(badrows):
            r = int(badrows[0])
            return [("wrong-indicator", "frame of %d rows: the cell (%d, %s) is not the indicator of the row's category %r "
                     "(%d rows differ)" % (rows, r, col, vals[r], len(badrows)), float(got[r]), float(want[r]))]
    if not numpy.array_equal(numpy.asarray(out["x"], dtype=float), numpy.arange(rows, dtype=float)):
        return [("passthrough-changed", "the numeric column of a frame of %d rows is not passed through unchanged" % rows,
                 "differs", "x unchanged")]
    return []


def numeric_oracle(seed):
    """categories that are numbers: single=True gives the rank among the numerically sorted training categories;
    single=False gives exactly the indicator `column=value`"""
    import random
    import numpy
    import pandas
    from mlinsights.mlmodel.categories_to_integers import CategoriesToIntegers
    rng = random.Random(seed)
    pool = rng.sample([2, 10, 33, 100, 7, 1000, 25, 3, -4, 12, 120, 9], rng.randint(2, 6))
    if rng.random() < 0.3:
        pool = [float(v) + 0.5 for v in pool]
    vals = [rng.choice(pool) for _ in range(rng.randint(3, 9))] + pool
    df = pandas.DataFrame({"c": pandas.Series(vals, dtype=object), "x": numpy.arange(len(vals), dtype=float)})
    bad = []
    ranks = {v: i for i, v in enumerate(sorted(set(vals)))}
    try:
        out = CategoriesToIntegers(columns=["c"], single=True).fit(df).transform(df)
        got = [float(v) for v in out["c"]]
        want = [float(ranks[v]) for v in vals]
        if got != want:
            bad.append(("single-rank", "single=True: the code is not the rank of the value among the sorted training categories",
                        {"values": vals, "codes": got}, want))
        out = CategoriesToIntegers(columns=["c"]).fit(df).transform(df)
        for i, v in enumerate(vals):
            for col in out.columns:
                if col == "x":
                    continue
                cell = out[col].iloc[i]
                is_one = (not pandas.isna(cell)) and float(cell) == 1.0
                if is_one != (col == "c=%s" % v):
                    bad.append(("wrong-indicator", "numeric categories: a row's indicator is not the one named column=value",
                                {"row": i, "value": v, "column": col, "cell": repr(cell)}, "only c=%s is 1" % v))
                    return bad
    except Exception as e:  # noqa: BLE001
        bad.append(("raises-%s-on-seen-values" % type(e).__name__, "transform raises on numeric categories seen at fit",
                    "%s: %s" % (type(e).__name__, str(e)[:120]), "no exception"))
    if bad:
        return bad
    # integer categories at fit; at transform the SAME values arrive as floats (a missing value makes pandas store the
    # column as float64): 3 and 3.0 are the same category, the missing row gets no indicator
    ints = [v for v in pool if float(v) == int(v)] or [1, 2, 3]
    ints = [int(v) for v in ints]
    fit_vals = [rng.choice(ints) for _ in range(4)] + ints
    tr_vals = [float(rng.choice(ints)) for _ in range(5)]
    tr_vals[rng.randrange(5)] = float("nan")
    for skip in (False, True):
        try:
            t = CategoriesToIntegers(columns=["c"], skip_errors=skip).fit(pandas.DataFrame({"c": pandas.Series(fit_vals, dtype="int64")}))
            out = t.transform(pandas.DataFrame({"c": pandas.Series(tr_vals, dtype="float64")}))
        except Exception as e:  # noqa: BLE001
            bad.append(("raises-%s-on-seen-values:int-fit-float-transform" % type(e).__name__,
                        "transform raises on categories seen at fit when they arrive as floats", "%s: %s" % (type(e).__name__, str(e)[:120]),
                        "no exception"))
            break
        for i, v in enumerate(tr_vals):
            ones = [c for c in out.columns if not pandas.isna(out[c].iloc[i]) and float(out[c].iloc[i]) == 1.0]
            want = [] if v != v else ["c=%d" % int(v)]
            if ones != want:
                bad.append(("wrong-indicator:int-fit-float-transform", "integer categories seen at fit, the same values as floats at "
                            "transform: the row's indicator is not the one of its value", {"row": i, "value": v, "set": ones}, want))
                return bad
    if bad:
        return bad
    # a column of pandas `category` dtype that DECLARES a category no training row holds: the training categories are
    # the values of the rows (a declared-but-absent value is unseen: no indicator column, an error at transform)
    try:
        cat = pandas.Categorical(["a", "c", "a", None, "c"], categories=["a", "b", "c"])
        dfc = pandas.DataFrame({"c": cat, "x": numpy.arange(5, dtype=float)})
        t = CategoriesToIntegers(columns=["c"]).fit(dfc)
        out = t.transform(pandas.DataFrame({"c": pandas.Series(["a", "c", "a", None, "c"], dtype=object),
                                            "x": numpy.arange(5, dtype=float)}))
        cols = [c for c in out.columns if c != "x"]
        if sorted(cols) != ["c=a", "c=c"]:
            bad.append(("categorical-dtype:indicator-columns", "a category declared by the dtype but held by no training "
                        "row gets an indicator column", sorted(cols), ["c=a", "c=c"]))
        else:
            raised = False
            try:
                t.transform(pandas.DataFrame({"c": pandas.Series(["b"], dtype=object), "x": [0.0]}))
            except Exception:  # noqa: BLE001
                raised = True
            if not raised:
                bad.append(("categorical-dtype:unseen-not-raised", "a value no training row holds (only declared by the "
                            "categorical dtype) is accepted at transform", "returned a frame", "an exception"))
    except Exception as e:  # noqa: BLE001
        bad.append(("raises-%s-on-categorical-dtype" % type(e).__name__, "fit/transform raises on a column of category dtype",
                    "%s: %s" % (type(e).__name__, str(e)[:120]), "indicators c=a, c=c"))
    return bad


def history_oracle(seed):
    """One object fitted, USED (transform), fitted again on another frame (other columns / categories) and used again:
    the second transform is the one a fresh object fitted on the second frame gives ("after fit, transform gives ...":
    the last fit decides)."""
    import random
    rng = random.Random(seed)
    a, b = gen_case(rng), gen_case(rng)
    cfg = dict(b["cfg"], columns=None, remove=None)
    t = make_transformer(cfg)
    try:
        t.fit(build_df(a["fit"]))
        try:
            t.transform(build_df(a["tr"]))
        except Exception:  # noqa: BLE001
            pass
        try:
            t.fit_transform(build_df(a["fit"]))
        except Exception:  # noqa: BLE001
            pass
    except Exception:  # noqa: BLE001
        return []

    def run(obj):
        try:
            obj.fit(build_df(b["fit"]))
        except Exception as e:  # noqa: BLE001
            return ("fitE", type(e).__name__)
        try:
            r = obj.transform(build_df(b["tr"]))
        except Exception as e:  # noqa: BLE001
            return ("trE", type(e).__name__)
        return ("ok", [str(c) for c in r.columns], [int(i) for i in r.index],
                [[canon_pass(v) for v in row] for row in r.values.tolist()])
    got, want = run(t), run(make_transformer(cfg))
    if got != want:
        return [("transform:after-refit-differs-from-fresh", "fit; transform; fit on another frame; transform: the second "
                 "transform is not what a fresh object fitted on the second frame returns", str(got)[:300], str(want)[:300])]
    return []


def replay(ctx, item):
    ctx.shadow(need_cython=False)
    case = item["input"]
    if "history_seed" in case:
        return [Violation(K + k, w, case, o, r) for k, w, o, r in history_oracle(case["history_seed"])][:1]
    if "numeric_seed" in case:
        return [Violation(K + k, w, case, o, r) for k, w, o, r in numeric_oracle(case["numeric_seed"])][:1]
    if "tall_rows" in case:
        return [Violation(K + k, w, case, o, r) for k, w, o, r in tall_oracle(case["tall_rows"], case["single"])][:1]
    best = {}
    for key, what, obs, req in oracle(case):
        best.setdefault(K + key, Violation(K + key, what, case, obs, req))
    return list(best.values())
