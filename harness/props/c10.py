"""C10 — DecisionTreeLogisticRegression is a consistent tree of binary classifiers."""
import ast
from fractions import Fraction

from core import Corr, Violation, run_driver
from extract import pyexpr

ID = "C10"
#: functions the hand-written model transcribes: their control skeleton (extract/shape.py) is regenerated into
#: Gen/C10.lean and compared with the literal in Properties/C10.lean (`modelled_functions_have_the_transcribed_shape`)
SHAPES = [
    ("shapeNodeFit", "mlinsights/mlmodel/decision_tree_logreg.py", "_DecisionTreeLogisticRegressionNode.fit"),
    ("shapeNodePredictProba", "mlinsights/mlmodel/decision_tree_logreg.py", "_DecisionTreeLogisticRegressionNode.predict_proba"),
    ("shapeNodeDecisionPath", "mlinsights/mlmodel/decision_tree_logreg.py", "_DecisionTreeLogisticRegressionNode.decision_path"),
    ("shapeNodeEnumerateLeaves", "mlinsights/mlmodel/decision_tree_logreg.py", "_DecisionTreeLogisticRegressionNode.enumerate_leaves_index"),
    ("shapeNodeDepth", "mlinsights/mlmodel/decision_tree_logreg.py", "_DecisionTreeLogisticRegressionNode.tree_depth_"),
    ("shapeFit", "mlinsights/mlmodel/decision_tree_logreg.py", "DecisionTreeLogisticRegression.fit"),
    ("shapeFitParallel", "mlinsights/mlmodel/decision_tree_logreg.py", "DecisionTreeLogisticRegression._fit_parallel"),
    ("shapePredict", "mlinsights/mlmodel/decision_tree_logreg.py", "DecisionTreeLogisticRegression.predict"),
    ("shapePredictProba", "mlinsights/mlmodel/decision_tree_logreg.py", "DecisionTreeLogisticRegression.predict_proba"),
    ("shapeDecisionPath", "mlinsights/mlmodel/decision_tree_logreg.py", "DecisionTreeLogisticRegression.decision_path"),
    ("shapeGetLeavesIndex", "mlinsights/mlmodel/decision_tree_logreg.py", "DecisionTreeLogisticRegression.get_leaves_index"),
]
SRC = "mlinsights/mlmodel/decision_tree_logreg.py"
LEAN_TARGETS = ["MlVerif.Gen.C10", "MlVerif.Model.DTLR", "MlVerif.Lemmas.DTLR", "MlVerif.Properties.C10"]
PROPERTY_FILE = "MlVerif/Properties/C10.lean"
DRIVER = "Drivers/C10.lean"
TRUSTED = [
    "every node's binary classifier is a parameter of the model: the two probability columns it returns for a row "
    "(recorded from the real run through an id-carrying proxy) are fed to the model; nothing is assumed about them "
    "except, for rows_sum_to_one, that its own rows sum to one",
    "numpy boolean masks: X[mask] keeps the rows whose bit is set, in order; a[mask] = v writes v's rows at the set "
    "positions in order; ~mask is the elementwise negation; mask.sum() counts set bits; numpy.take(classes_, labels)",
    "scipy.sparse.lil_matrix: mat[indices, j] = 1 marks column j of every listed row (IndexError when j is outside "
    "the width); csr_matrix(mat).todense() is the 0/1 indicator of the marked cells",
    "sorted()/set() on Python ints; generators yield in program order",
    "the training statistics of every fit call (rows at the node, rows / distinct labels on each side of the "
    "threshold) are inputs of the fit model (abstract split-decision tree): LogisticRegression / tree fitting, "
    "fit_improve's intercept search and all floating point are outside the proof",
]
ASSUMPTIONS = [
    "max_depth >= 1 (scikit-learn's domain; the constructor only rejects 0/None): the root has depth 1",
    "a row whose probability equals the threshold exactly goes below, as the code's `>` does; the search oracle "
    "accepts either side on an exact tie as long as predict_proba and decision_path take the same one",
    "`terminal nodes' = nodes where a path can end, i.e. with no child on at least one side (what "
    "enumerate_leaves_index yields); a node with a single child ends the paths of the rows sent to its empty side",
    "n_nodes_ may exceed the number of nodes (a side without child still consumes an index); the statement only "
    "requires indices below it",
    "the query batch is non-empty (scikit-learn classifiers reject an empty batch before any DTLR logic runs)",
    "real numbers stand for floats: equality of a row's output with its terminal classifier's output is exact in "
    "the model; on the real code batch and single-row calls of a LogisticRegression may differ in the last bits, "
    "so the search compares them with tolerance 1e-9 and treats |p - threshold| <= 1e-9 as a tie",
]
RULE = ("fit the real estimator on random binary data sets (label pairs such as {3,7}, {-1,1}; LogisticRegression "
        "and DecisionTreeClassifier bases; every fit_improve_algo; gamma, p1p2, max_depth, min_samples_leaf, "
        "min_samples_split, min_weight_fraction_leaf, sample_weight drawn per case); `fit` op: recorded training "
        "statistics of every node -> model index/depth assignment vs the real tree and n_nodes_; `query` op: real "
        "node structure + recorded node-classifier outputs for the batch -> model predict_proba / predict / dense "
        "decision_path / get_leaves_index / tree_depth_ vs the real methods, compared exactly. Non-trivial = tree "
        "with at least one split (query: at least two different terminal nodes reached or a one-sided node)")
LEVEL_TEXT = ("Lean 4 theorems, for every tree, every batch and every node-classifier behaviour: predict_proba is the "
              "terminal classifier's row, rows sum to one when the classifiers' rows do, predict is classes_ at >= 1/2, "
              "decision_path marks exactly the root-to-terminal path chosen by prob > threshold (same routing as "
              "predict_proba), batch call = map of single-row calls (hence sub-batches and permutations); for every "
              "training history (abstract split-decision tree) fit assigns strictly increasing distinct indices in "
              "[0, n_nodes_) and depths <= max_depth, and get_leaves_index is the sorted list of nodes lacking a child. "
              "The comparisons, guards and index arithmetic the theorems are about are regenerated from the source.")
LEVEL_NOTE = ("node classifiers, their training and fit_improve are parameters (recorded outputs / statistics); float = "
              "real; numpy mask and lil_matrix semantics transcribed by hand and validated by the correspondence run")
TECHNIQUE = ("Lean 4 proof (induction over the node tree and over the split-decision tree, shared scatter lemmas) + "
             "AST-regenerated comparisons/guards/index arithmetic + differential correspondence")

NODE = "_DecisionTreeLogisticRegressionNode"
DTLR = "DecisionTreeLogisticRegression"


# ------------------------------------------------------------------------------ extractor

def _q(s):
    return '"' + s.replace("\\", "/").replace('"', "'") + '"'


def _bool(tr, node, what):
    if node is None:
        return '(MlVerif.Gen.unknownBool %s)' % _q(what + ": not found")
    t, ty = tr.expr(node)
    if ty != "bool" or "unknownInt" in t:
        return '(MlVerif.Gen.unknownBool %s)' % _q(ast.unparse(node))
    return t


def _int(tr, node, what):
    if node is None:
        return '(MlVerif.Gen.unknownInt %s)' % _q(what + ": not found")
    return tr.int_expr(node)


def _one_assign(fn, name):
    a = pyexpr.assignments(fn, name)
    return a[0].value if len(a) == 1 else None


def _mask_of_count(fn, count_name):
    """`n_above = above.sum()` -> 'above'."""
    v = _one_assign(fn, count_name)
    if isinstance(v, ast.Call) and isinstance(v.func, ast.Attribute) and v.func.attr == "sum" and not v.args:
        return ast.unparse(v.func.value)
    return "?" + count_name


def _count_name_in(test, child):
    """the `n_x` of `self.<child> is not None and n_x > 0`"""
    if isinstance(test, ast.BoolOp) and isinstance(test.op, ast.And) and len(test.values) == 2:
        c = test.values[1]
        if isinstance(c, ast.Compare) and isinstance(c.left, ast.Name):
            return c.left.id
    return None


def _child_ifs(fn):
    """top-level `if` statements of a node method whose body descends into self.above / self.below"""
    out = {}
    for st in fn.body:
        if isinstance(st, ast.If) and not st.orelse:
            src = ast.unparse(st.test)
            for child in ("above", "below"):
                if ("self.%s is not None" % child) in src or ("self.%s is None" % child) in src \
                        or ("self.%s " % child) in src:
                    out.setdefault(child, []).append(st)
    return out


def _invert_expr(v, var):
    """`~above` -> '(! above)'"""
    if isinstance(v, ast.UnaryOp) and isinstance(v.op, ast.Invert) and ast.unparse(v.operand) == var:
        return "(! above)"
    return '(MlVerif.Gen.unknownBool %s)' % _q(ast.unparse(v) if v is not None else "below: not found")


def _routing(fn, tag, out, wiring_kind):
    """above / below masks, guards and wiring of one of the two traversals."""
    tr = pyexpr.Tr({"prob[:, 1]": ("p", "rat"), "self.threshold": ("thr", "rat")})
    out["%sAbove" % tag] = _bool(tr, _one_assign(fn, "above"), "above")
    out["%sBelow" % tag] = _invert_expr(_one_assign(fn, "below"), "above")
    prob = _one_assign(fn, "prob")
    out["%sProbSource" % tag] = _q(ast.unparse(prob)) if prob is not None else _q("?")
    ifs = _child_ifs(fn)
    wiring = []
    for child in ("above", "below"):
        sts = ifs.get(child, [])
        key = "%sGuard%s" % (tag, child.capitalize())
        if len(sts) != 1:
            out[key] = '(MlVerif.Gen.unknownBool %s)' % _q("%d if-blocks for self.%s" % (len(sts), child))
            wiring.append((child, "?", "?", "?", "?"))
            continue
        st = sts[0]
        cn = _count_name_in(st.test, child) or "?"
        trg = pyexpr.Tr({"self.%s is not None" % child: ("hasChild", "bool"), cn: ("nSide", "int")})
        out[key] = _bool(trg, st.test, "guard")
        countmask = _mask_of_count(fn, cn)
        if wiring_kind == "proba":
            # prob_above = self.above.predict_proba(X[above]) ; prob[above] = prob_above
            getm = setm = res = "?"
            if len(st.body) == 2 and isinstance(st.body[0], ast.Assign) and isinstance(st.body[1], ast.Assign):
                call = st.body[0].value
                if isinstance(call, ast.Call) and ast.unparse(call.func) == "self.%s.predict_proba" % child \
                        and len(call.args) == 1 and not call.keywords:
                    getm = ast.unparse(call.args[0])
                    res = ast.unparse(st.body[0].targets[0])
                tgt = st.body[1].targets[0]
                if ast.unparse(st.body[1].value) == res:
                    setm = ast.unparse(tgt)
            wiring.append((child, countmask, getm, setm, "-"))
        else:
            # self.above.decision_path(X[above], mat, indices_above) ; indices_above = indices[above]
            getm = idx = matarg = "?"
            if len(st.body) == 1 and isinstance(st.body[0], ast.Expr) and isinstance(st.body[0].value, ast.Call):
                call = st.body[0].value
                if ast.unparse(call.func) == "self.%s.decision_path" % child and len(call.args) == 3 \
                        and not call.keywords:
                    getm = ast.unparse(call.args[0])
                    matarg = ast.unparse(call.args[1])
                    iv = _one_assign(fn, ast.unparse(call.args[2]))
                    idx = ast.unparse(iv) if iv is not None else "?"
            wiring.append((child, countmask, getm, idx, matarg))
    out["%sWiring" % tag] = "[" + ", ".join("(" + ", ".join(_q(x) for x in w) + ")" for w in wiring) + "]"


def _call_kw(call, pos, name, params):
    """argument `name` of a call to a function with parameter list `params` (None if absent)."""
    for k in call.keywords:
        if k.arg == name:
            return k.value
    i = params.index(name)
    if i < len(call.args):
        return call.args[i]
    return None


def extract(ctx):
    tree = ast.parse(ctx.source(SRC))
    g = {}
    # ---- the two traversals
    _routing(pyexpr.find_function(tree, NODE + ".predict_proba"), "proba", g, "proba")
    dp = pyexpr.find_function(tree, NODE + ".decision_path")
    _routing(dp, "path", g, "path")
    # mat[indices, self.index] = 1   must be the first statement that touches mat
    mark = "?"
    for st in dp.body:
        if isinstance(st, ast.Assign) and ast.unparse(st.targets[0]).startswith("mat["):
            mark = "%s = %s" % (ast.unparse(st.targets[0]), ast.unparse(st.value))
            break
    g["pathMark"] = _q(mark)
    # ---- predict: (prob[:, 1] >= 0.5)
    npred = pyexpr.find_function(tree, NODE + ".predict")
    cmp_node = None
    for n in ast.walk(npred):
        if isinstance(n, ast.Return) and n.value is not None:
            v = n.value
            if isinstance(v, ast.Call) and isinstance(v.func, ast.Attribute) and v.func.attr == "astype":
                v = v.func.value
            cmp_node = v
    g["predictLabel"] = _bool(pyexpr.Tr({"prob[:, 1]": ("p", "rat")}), cmp_node, "predict comparison")
    g["predictProbSource"] = _q(ast.unparse(_one_assign(npred, "prob")) if _one_assign(npred, "prob") is not None else "?")
    pub = pyexpr.find_function(tree, DTLR + ".predict")
    ret = [n.value for n in ast.walk(pub) if isinstance(n, ast.Return) and n.value is not None]
    take = "?"
    if len(ret) == 1 and isinstance(ret[0], ast.Call) and ast.unparse(ret[0].func) == "numpy.take" \
            and len(ret[0].args) == 2:
        lab = ret[0].args[1]
        labv = _one_assign(pub, ast.unparse(lab)) if isinstance(lab, ast.Name) else lab
        take = "take(%s, %s)" % (ast.unparse(ret[0].args[0]), ast.unparse(labv) if labv is not None else "?")
    g["publicPredict"] = _q(take)
    pp = pyexpr.find_function(tree, DTLR + ".predict_proba")
    ret = [n.value for n in ast.walk(pp) if isinstance(n, ast.Return) and n.value is not None]
    g["publicProba"] = _q(ast.unparse(ret[0]) if len(ret) == 1 else "?")
    pdp = pyexpr.find_function(tree, DTLR + ".decision_path")
    matv = _one_assign(pdp, "mat")
    shape = ast.unparse(matv.args[0]) if isinstance(matv, ast.Call) and matv.args else "?"
    calls = pyexpr.calls(pdp, "self.tree_.decision_path")
    g["publicPath"] = _q("%s | %s" % (shape, ast.unparse(calls[0]) if len(calls) == 1 else "?"))
    gl = pyexpr.find_function(tree, DTLR + ".get_leaves_index")
    ret = [n.value for n in ast.walk(gl) if isinstance(n, ast.Return) and n.value is not None]
    iv = _one_assign(gl, "indices")
    g["publicLeaves"] = _q("%s | %s" % (ast.unparse(iv) if iv is not None else "?",
                                       ast.unparse(ret[0]) if len(ret) == 1 else "?"))
    # ---- enumerate_leaves_index: the yield condition
    el = pyexpr.find_function(tree, NODE + ".enumerate_leaves_index")
    cond = None
    for st in el.body:
        if isinstance(st, ast.If) and any(isinstance(x, ast.Yield) and ast.unparse(x.value) == "self.index"
                                          for b in st.body for x in ast.walk(b)):
            cond = st.test
    g["leafCond"] = _bool(pyexpr.Tr({"self.above is None": ("aboveNone", "bool"),
                                     "self.below is None": ("belowNone", "bool")}), cond, "leaf condition")
    order = []
    for st in el.body:
        if isinstance(st, ast.If):
            for x in ast.walk(st):
                if isinstance(x, ast.Yield):
                    order.append(ast.unparse(st.test) + " -> " + ast.unparse(x.value))
                if isinstance(x, ast.For):
                    order.append(ast.unparse(st.test) + " -> for " + ast.unparse(x.iter))
    g["leafOrder"] = "[" + ", ".join(_q(o) for o in order) + "]"
    # ---- tree_depth_
    td = pyexpr.find_function(tree, NODE + ".tree_depth_")
    dts = pyexpr.assignments(td, "dt")
    g["depthInit"] = _q(ast.unparse(dts[0].value)) if dts else _q("?")
    comb = [a.value for a in dts[1:]]
    trd = pyexpr.Tr({"dt": ("dt", "int"), "self.above.tree_depth_": ("child", "int"),
                     "self.below.tree_depth_": ("child", "int")})
    g["depthCombineAbove"] = _int(trd, comb[0] if len(comb) == 2 else None, "dt = max(dt, above)")
    g["depthCombineBelow"] = _int(trd, comb[1] if len(comb) == 2 else None, "dt = max(dt, below)")
    # ---- fit: guards and index arithmetic
    fit = pyexpr.find_function(tree, NODE + ".fit")
    side = pyexpr.find_function(fit, "_fit_side")
    early = [st for st in fit.body if isinstance(st, ast.If) and len(st.body) == 1
             and isinstance(st.body[0], ast.Return) and not st.orelse]
    trf = pyexpr.Tr({"self.depth": ("depth", "int"), "dtlr.max_depth": ("maxDepth", "int"),
                     "X.shape[0]": ("nRows", "int"), "dtlr.min_samples_split": ("minSamplesSplit", "int"),
                     "self.index": ("index", "int"), "last": ("last", "int")})
    if len(early) == 2:
        g["depthGuard"] = _bool(trf, early[0].test, "depth guard")
        g["depthGuardLast"] = _int(trf, early[0].body[0].value, "return of the depth guard")
        g["splitGuard"] = _bool(trf, early[1].test, "min_samples_split guard")
        g["splitGuardLast"] = _int(trf, early[1].body[0].value, "return of the split guard")
    else:
        for k in ("depthGuard", "splitGuard"):
            g[k] = '(MlVerif.Gen.unknownBool %s)' % _q("%d early returns in fit" % len(early))
            g[k + "Last"] = '(MlVerif.Gen.unknownInt %s)' % _q("%d early returns in fit" % len(early))
    g["fitAbove"] = _bool(pyexpr.Tr({"prob[:, 1]": ("p", "rat"), "self.threshold": ("thr", "rat")}),
                          _one_assign(fit, "above"), "fit above")
    g["fitBelow"] = _invert_expr(_one_assign(fit, "below"), "above")
    # the two `_fit_side` calls
    sidecalls = [st for st in fit.body if isinstance(st, ast.Assign) and isinstance(st.value, ast.Call)
                 and ast.unparse(st.value.func) == "_fit_side"]
    params = [a.arg for a in side.args.args]
    fw = []
    for k, nm in enumerate(("Above", "Below")):
        if len(sidecalls) == 2 and len(sidecalls[k].value.args) == len(params):
            st = sidecalls[k]
            args = dict(zip(params, st.value.args))
            g["fitIndex" + nm] = _int(trf, args.get("index"), "index argument")
            cn = ast.unparse(args.get("n_above_below"))
            fw.append((ast.unparse(st.targets[0]), ast.unparse(args.get("y_above_below")),
                       ast.unparse(_one_assign(fit, ast.unparse(args.get("y_above_below"))) or ast.Constant("?")),
                       ast.unparse(args.get("above_below")), _mask_of_count(fit, cn)))
        else:
            g["fitIndex" + nm] = '(MlVerif.Gen.unknownInt %s)' % _q("_fit_side calls not in the expected form")
            fw.append(("?", "?", "?", "?", "?"))
    g["fitWiring"] = "[" + ", ".join("(" + ", ".join(_q(x) for x in w) + ")" for w in fw) + "]"
    rets = [st for st in fit.body if isinstance(st, ast.Return)]
    g["fitReturn"] = _int(trf, rets[0].value if len(rets) == 1 else None, "final return of fit")
    # inside _fit_side
    trs = pyexpr.Tr({"len(y_above_below)": ("nClasses", "int"), "above_below.shape[0]": ("maskLen", "int"),
                     "dtlr.min_samples_leaf": ("minSamplesLeaf", "int"),
                     "float(n_above_below)": ("((nSide : Int) : Rat)", "rat"), "n_above_below": ("nSide", "int"),
                     "total_N": ("totalN", "int"), "dtlr.min_weight_fraction_leaf": ("minWeightFractionLeaf", "rat"),
                     "index": ("index", "int"), "self.depth": ("depth", "int"), "self.threshold": ("thr", "rat")})
    sif = [st for st in side.body if isinstance(st, ast.If) and not ast.unparse(st.test).startswith("dtlr.verbose")]
    srets = [st for st in side.body if isinstance(st, ast.Return)]
    ok = len(sif) == 1 and len(srets) == 1 and isinstance(srets[0].value, ast.Tuple) and len(srets[0].value.elts) == 2
    g["sideGuard"] = _bool(trs, sif[0].test if ok else None, "_fit_side condition")
    g["sideSkippedChild"] = _q(ast.unparse(srets[0].value.elts[0])) if ok else _q("?")
    g["sideSkippedLast"] = _int(trs, srets[0].value.elts[1] if ok else None, "_fit_side: return None, index")
    ctor = [c for c in pyexpr.calls(side, NODE)] if ok else []
    init = pyexpr.find_function(tree, NODE + ".__init__")
    iparams = [a.arg for a in init.args.args][1:]
    idefaults = dict(zip(iparams[len(iparams) - len(init.args.defaults):], init.args.defaults))
    if len(ctor) == 1:
        g["childDepth"] = _int(trs, _call_kw(ctor[0], 0, "depth", iparams), "child depth")
        g["childIndex"] = _int(trs, _call_kw(ctor[0], 0, "index", iparams), "child index")
        thr = _call_kw(ctor[0], 0, "threshold", iparams)
        g["childThreshold"] = _q(ast.unparse(thr) if thr is not None else "?")
    else:
        g["childDepth"] = g["childIndex"] = '(MlVerif.Gen.unknownInt %s)' % _q("child constructor not found")
        g["childThreshold"] = _q("?")
    # node.fit(X[above_below], y[above_below], sw, dtlr, total_N) -> last_index ; return node, last_index
    builds = "?"
    if ok:
        for st in sif[0].body:
            if isinstance(st, ast.Return):
                builds = ast.unparse(st.value)
        lv = _one_assign(sif[0], "last_index")
        builds += " | last_index = " + (ast.unparse(lv) if lv is not None else "?")
    g["sideBuilds"] = _q(builds)
    # ---- root (_fit_parallel) and __init__ defaults
    fp = pyexpr.find_function(tree, DTLR + "._fit_parallel")
    rootc = pyexpr.calls(fp, NODE)
    tr0 = pyexpr.Tr({})
    trr = pyexpr.Tr({})

    def root_arg(name, ty):
        v = _call_kw(rootc[0], 0, name, iparams) if len(rootc) == 1 else None
        if v is None:
            v = idefaults.get(name)
        if v is None:
            return '(MlVerif.Gen.unknownInt %s)' % _q("root %s" % name)
        t, tt = tr0.expr(v)
        if ty == "rat" and tt == "int":
            return "((%s : Int) : Rat)" % t
        if tt != ty:
            return '(MlVerif.Gen.unknownInt %s)' % _q("root %s = %s" % (name, ast.unparse(v)))
        return t
    g["rootThreshold"] = root_arg("threshold", "rat")
    g["rootDepth"] = root_arg("depth", "int")
    g["rootIndex"] = root_arg("index", "int")
    nn = None
    for n in ast.walk(fp):
        if isinstance(n, ast.Assign) and ast.unparse(n.targets[0]) == "self.n_nodes_":
            nn = n.value
    fitcall = None
    if nn is not None:
        for n in ast.walk(nn):
            if isinstance(n, ast.Call) and ast.unparse(n.func) == "self.tree_.fit":
                fitcall = n
    trn = pyexpr.Tr({ast.unparse(fitcall): ("last", "int")} if fitcall is not None else {})
    g["nNodes"] = _int(trn, nn if fitcall is not None else None, "self.n_nodes_")
    g["rootFitCall"] = _q(ast.unparse(fitcall) if fitcall is not None else "?")
    # __init__ stores its arguments
    stores = sorted("%s=%s" % (ast.unparse(s.targets[0]), ast.unparse(s.value)) for s in init.body
                    if isinstance(s, ast.Assign))
    g["nodeInit"] = "[" + ", ".join(_q(s) for s in stores) + "]"
    S5 = "List (String × String × String × String × String)"
    body = pyexpr.HEADER + """import MlVerif.Gen.Base
namespace MlVerif.Gen.C10
open MlVerif.Gen

/-! ### `_DecisionTreeLogisticRegressionNode.predict_proba` -/
/-- `above = ...` (p = prob[:, 1], thr = self.threshold) -/
def probaAbove (p thr : Rat) : Bool := {probaAbove}
/-- `below = ...` as a function of the `above` bit -/
def probaBelow (above : Bool) : Bool := {probaBelow}
/-- `if self.above is not None and n_above > 0` -/
def probaGuardAbove (hasChild : Bool) (nSide : Int) : Bool := {probaGuardAbove}
def probaGuardBelow (hasChild : Bool) (nSide : Int) : Bool := {probaGuardBelow}
/-- (child, mask counted by the guard, argument of the child call, assignment target of its result, -) -/
def probaWiring : {S5} := {probaWiring}
def probaProbSource : String := {probaProbSource}

/-! ### `_DecisionTreeLogisticRegressionNode.decision_path` -/
def pathAbove (p thr : Rat) : Bool := {pathAbove}
def pathBelow (above : Bool) : Bool := {pathBelow}
def pathGuardAbove (hasChild : Bool) (nSide : Int) : Bool := {pathGuardAbove}
def pathGuardBelow (hasChild : Bool) (nSide : Int) : Bool := {pathGuardBelow}
/-- (child, mask counted by the guard, X argument, definition of the indices argument, mat argument) -/
def pathWiring : {S5} := {pathWiring}
def pathProbSource : String := {pathProbSource}
def pathMark : String := {pathMark}

/-! ### predict -/
/-- `(prob[:, 1] >= 0.5)` of the node's predict -/
def predictLabel (p : Rat) : Bool := {predictLabel}
def predictProbSource : String := {predictProbSource}
def publicPredict : String := {publicPredict}
def publicProba : String := {publicProba}
def publicPath : String := {publicPath}
def publicLeaves : String := {publicLeaves}

/-! ### enumerate_leaves_index / tree_depth_ -/
def leafCond (aboveNone belowNone : Bool) : Bool := {leafCond}
def leafOrder : List String := {leafOrder}
def depthInit : String := {depthInit}
def depthCombineAbove (dt child : Int) : Int := {depthCombineAbove}
def depthCombineBelow (dt child : Int) : Int := {depthCombineBelow}

/-! ### fit: guards and index arithmetic -/
/-- `if self.depth + 1 > dtlr.max_depth: return self.index` -/
def depthGuard (depth maxDepth : Int) : Bool := {depthGuard}
def depthGuardLast (index : Int) : Int := {depthGuardLast}
/-- `if X.shape[0] < dtlr.min_samples_split: return self.index` -/
def splitGuard (nRows minSamplesSplit : Int) : Bool := {splitGuard}
def splitGuardLast (index : Int) : Int := {splitGuardLast}
def fitAbove (p thr : Rat) : Bool := {fitAbove}
def fitBelow (above : Bool) : Bool := {fitBelow}
/-- first argument of the two `_fit_side` calls -/
def fitIndexAbove (index : Int) : Int := {fitIndexAbove}
def fitIndexBelow (last : Int) : Int := {fitIndexBelow}
/-- (assignment target, labels argument, its definition, mask argument, mask counted by the count argument) -/
def fitWiring : {S5} := {fitWiring}
def fitReturn (last : Int) : Int := {fitReturn}
/-- condition of `_fit_side` under which a child is built -/
def sideGuard (nClasses maskLen nSide totalN minSamplesLeaf : Int) (minWeightFractionLeaf : Rat) : Bool :=
  {sideGuard}
def sideSkippedChild : String := {sideSkippedChild}
def sideSkippedLast (index : Int) : Int := {sideSkippedLast}
def sideBuilds : String := {sideBuilds}
def childDepth (depth : Int) : Int := {childDepth}
def childIndex (index : Int) : Int := {childIndex}
def childThreshold : String := {childThreshold}
def rootThreshold : Rat := {rootThreshold}
def rootDepth : Int := {rootDepth}
def rootIndex : Int := {rootIndex}
/-- `self.n_nodes_ = ...` as a function of what the root's fit returned -/
def nNodes (last : Int) : Int := {nNodes}
def rootFitCall : String := {rootFitCall}
def nodeInit : List String := {nodeInit}

end MlVerif.Gen.C10
"""
    g["S5"] = S5
    text = body
    for k, v in g.items():
        text = text.replace("{" + k + "}", v)
    return {"MlVerif/Gen/C10.lean": text}


# ------------------------------------------------------------------------------ case generation (real code)

LABELS = [(0, 1), (3, 7), (-1, 1), (-5, 2), (10, 20), (1, 2)]
ALGOS = [None, "none", "auto", "intercept_sort", "intercept_sort_always"]
EST_KINDS = ["lr", "lr", "lr_c", "tree1", "tree2", "tree_leaf"]
MWFL = [0.0, 0.0, 0.0, 0.0625, 0.125]          # dyadic: float(n)/total_N >= 2*mwfl is then exact


def draw_spec(rng, big=False):
    kind = rng.choice(["linear", "linear", "xor", "ties", "bands"])
    return {
        "seed": rng.randrange(1 << 30),
        "n": rng.randint(4, 90 if big else 48),
        "d": rng.choice([1, 2, 2, 3]),
        "labels": list(rng.choice(LABELS)),
        "est": rng.choice(EST_KINDS),
        "algo": rng.choice(ALGOS),
        "gamma": rng.choice([0.0, 0.5, 1.0, 2.0]),
        "p1p2": rng.choice([0.0, 0.09, 0.09, 0.2, 0.3]),
        "max_depth": rng.choice([1, 2, 3, 3, 4, 5, 7]),
        "msl": rng.choice([1, 1, 2, 2, 3, 5]),
        "mss": rng.choice([2, 2, 2, 4, 8, 16]),
        "mwfl": rng.choice(MWFL),
        "weights": rng.random() < 0.25,
        "data": kind,
        "m": rng.randint(1, 14),
    }


def make_estimator(kind):
    from sklearn.linear_model import LogisticRegression
    from sklearn.tree import DecisionTreeClassifier
    if kind == "lr":
        return LogisticRegression()
    if kind == "lr_c":
        return LogisticRegression(C=0.05)
    if kind == "tree1":
        return DecisionTreeClassifier(max_depth=1, random_state=0)
    if kind == "tree2":
        return DecisionTreeClassifier(max_depth=2, random_state=0)
    return DecisionTreeClassifier(max_depth=3, min_samples_leaf=3, random_state=0)


def make_case(spec):
    """(X, y, sample_weight, Xq) from the spec alone (numpy RandomState(seed))."""
    import numpy
    rs = numpy.random.RandomState(spec["seed"])
    n, d = spec["n"], spec["d"]
    lo, hi = spec["labels"]
    if spec["data"] == "ties":
        # few distinct points, conflicting labels: tree leaves with probability exactly 1/2
        pts = rs.randint(-3, 4, size=(max(2, n // 4), d)) / 2.0
        X = pts[rs.randint(0, len(pts), size=n)]
        cls = rs.randint(0, 2, size=n)
    else:
        X = rs.randint(-8, 9, size=(n, d)) / 4.0
        w = rs.randn(d)
        if spec["data"] == "linear":
            cls = ((X @ w + 0.7 * rs.randn(n)) > 0).astype(int)
        elif spec["data"] == "xor":
            cls = ((X[:, 0] > 0) ^ (X[:, -1] * (1 if d > 1 else -1) > 0.5)).astype(int)
        else:
            cls = (numpy.floor(X @ w * 1.5).astype(int) % 2 == 0).astype(int)
    if len(set(cls.tolist())) < 2:          # the estimator requires two classes
        cls[0], cls[-1] = 0, 1
    y = numpy.array([lo, hi])[cls]
    sw = (rs.randint(1, 4, size=n)).astype(float) if spec["weights"] else None
    m = spec["m"]
    Xq = numpy.vstack([X[rs.randint(0, n, size=(m + 1) // 2)],
                       rs.randint(-10, 11, size=(m // 2, d)) / 4.0])[:m] if m > 1 else X[:1].copy()
    if spec.get("big_int"):
        # integer-valued features of large magnitude (identifiers, timestamps): exact in float64, not in float32
        X = numpy.round(X * 4.0) + float(spec["big_int"])
        Xq = numpy.round(Xq * 4.0) + float(spec["big_int"])
    return X, y, sw, Xq


def build_model(spec):
    from mlinsights.mlmodel.decision_tree_logreg import DecisionTreeLogisticRegression
    if spec.get("via_set_params"):
        # the same configuration reached through set_params on a default-constructed instance (as a grid search does)
        m = DecisionTreeLogisticRegression(make_estimator(spec["est"]))
        m.set_params(max_depth=spec["max_depth"], min_samples_split=spec["mss"], min_samples_leaf=spec["msl"],
                     min_weight_fraction_leaf=spec["mwfl"], fit_improve_algo=spec["algo"], p1p2=spec["p1p2"],
                     gamma=spec["gamma"])
        return m
    return DecisionTreeLogisticRegression(
        make_estimator(spec["est"]), max_depth=spec["max_depth"], min_samples_split=spec["mss"],
        min_samples_leaf=spec["msl"], min_weight_fraction_leaf=spec["mwfl"], fit_improve_algo=spec["algo"],
        p1p2=spec["p1p2"], gamma=spec["gamma"])


def rejected(spec):
    """configurations the code documents as invalid (assert in fit_improve)"""
    return spec["algo"] == "intercept_sort_always" and spec["est"].startswith("tree")


def preorder(node):
    out = [node]
    if node.above is not None:
        out += preorder(node.above)
    if node.below is not None:
        out += preorder(node.below)
    return out


class FitRecorder:
    """Records, for every node fitted, what `fit` sees after `fit_improve`: the rows at the node and the
    probabilities its classifier gives them (harness-side wrapper of the class method, removed at exit)."""

    def __enter__(self):
        from mlinsights.mlmodel import decision_tree_logreg as mod
        self.cls = getattr(mod, NODE)
        self.orig = self.cls.fit_improve
        self.rec = {}
        orig, rec = self.orig, self.rec

        def wrapped(node, dtlr, total_N, X, y, sample_weight):
            prob = orig(node, dtlr, total_N, X, y, sample_weight)
            rec[id(node)] = (X.shape[0], prob.copy(), y.copy(), total_N)
            return prob
        self.cls.fit_improve = wrapped
        return self

    def __exit__(self, *a):
        self.cls.fit_improve = self.orig


class Proxy:
    """Stands for a node's classifier during a query: the last column of X carries the row ids, which are
    stripped before the real classifier is called; what it returns is recorded per (node, row id)."""

    def __init__(self, real, k, log):
        self.real, self.k, self.log = real, k, log

    def predict_proba(self, Xid):
        ids = [int(v) for v in Xid[:, -1]]
        out = self.real.predict_proba(Xid[:, :-1])
        self.log.append((self.k, ids, out.copy()))
        return out


def frac(x):
    f = Fraction(float(x))
    return "%d/%d" % (f.numerator, f.denominator) if f.denominator != 1 else "%d" % f.numerator


def ilist(xs):
    xs = [int(v) for v in xs]
    return ",".join(str(v) for v in xs) if xs else "-"


def query_real(model, Xq):
    """Run predict_proba / predict / decision_path of the real model on Xq with every node classifier
    proxied; returns (tables P0,P1 as float matrices node x row, outputs, stable?)."""
    import numpy
    nodes = preorder(model.tree_)
    m = Xq.shape[0]
    Xid = numpy.hstack([Xq, numpy.arange(m, dtype=float).reshape(-1, 1)])
    reals = [nd.estimator for nd in nodes]
    logs = {"proba": [], "predict": [], "path": []}
    try:
        outs = {}
        for name in ("proba", "predict", "path"):
            for k, nd in enumerate(nodes):
                nd.estimator = Proxy(reals[k], k, logs[name])
            if name == "proba":
                outs[name] = model.predict_proba(Xid)
            elif name == "predict":
                outs[name] = model.predict(Xid)
            else:
                outs[name] = numpy.asarray(model.decision_path(Xid).todense())
    finally:
        for k, nd in enumerate(nodes):
            nd.estimator = reals[k]
    table = {}
    stable = True
    for name in ("proba", "predict", "path"):
        for k, ids, out in logs[name]:
            for j, r in enumerate(ids):
                v = (float(out[j, 0]), float(out[j, 1]))
                if (k, r) in table and table[(k, r)] != v:
                    stable = False
                table[(k, r)] = v
    visited = len(table)
    P0 = [[0.0] * m for _ in nodes]
    P1 = [[0.0] * m for _ in nodes]
    for k in range(len(nodes)):
        for r in range(m):
            if (k, r) not in table:            # never asked in the real run: ask the classifier itself
                o = reals[k].predict_proba(Xq[r:r + 1])
                table[(k, r)] = (float(o[0, 0]), float(o[0, 1]))
            P0[k][r], P1[k][r] = table[(k, r)]
    # the proxy is transparent: same outputs without it
    plain = model.predict_proba(Xq)
    if plain.shape != outs["proba"].shape or not (plain == outs["proba"]).all():
        stable = False
    return nodes, P0, P1, outs, stable, visited


# ------------------------------------------------------------------------------ correspondence

def correspond(ctx):
    ctx.shadow(need_cython=True)
    import warnings
    import numpy
    warnings.filterwarnings("ignore")
    corr = Corr()
    corr.rule = RULE
    rng = ctx.rng
    lines, expect = [], []
    n_cases = ctx.pick(240, 3000)
    for t in range(n_cases):
        spec = draw_spec(rng, big=ctx.thorough)
        if t < len(ALGOS) * 2:                     # every fit_improve_algo with both kinds of base estimator
            spec["algo"] = ALGOS[t % len(ALGOS)]
            spec["est"] = ["lr", "tree2"][t // len(ALGOS)]
        X, y, sw, Xq = make_case(spec)
        model = build_model(spec)
        with FitRecorder() as fr:
            try:
                model.fit(X, y, sw)
                err = None
            except Exception as e:
                err = type(e).__name__
        corr.hit("est:" + spec["est"])
        corr.hit("algo:%s" % spec["algo"])
        if err is not None:
            corr.hit("fit_error:%s%s" % (err, "(documented)" if rejected(spec) else ""))
            if not rejected(spec):
                corr.disagree("fit", spec, "a fitted tree", "raises " + err)
            continue
        nodes = preorder(model.tree_)
        # ---- op fit: recorded statistics -> index / depth assignment
        ps = []
        for nd in nodes:
            nrows, prob, yn, total = fr.rec[id(nd)]
            above = prob[:, 1] > nd.threshold
            below = ~above
            ps.append("%d,%d,%d,%d,%d,%d,%d,%d,%d" % (
                nrows, len(set(yn[above].tolist())), above.shape[0], int(above.sum()), nd.above is not None,
                len(set(yn[below].tolist())), below.shape[0], int(below.sum()), nd.below is not None))
        lines.append("fit %d %d %d %s %d %s" % (spec["max_depth"], spec["mss"], spec["msl"], frac(spec["mwfl"]),
                                               X.shape[0], ";".join(ps)))
        impl = "%d|%s" % (model.n_nodes_, ";".join("%d,%d,%d,%d" % (nd.index, nd.depth, nd.above is not None,
                                                                    nd.below is not None) for nd in nodes))
        expect.append(("fit", spec, impl))
        split = len(nodes) > 1
        corr.case(("fit", impl, spec["max_depth"], spec["msl"], spec["mss"]), nontrivial=split,
                  sample={"op": "fit", "spec": spec, "impl": impl} if split and len(corr.samples) < 2 else None)
        corr.hit("nodes=%s" % (len(nodes) if len(nodes) < 10 else "10+"))
        if any((nd.above is None) != (nd.below is None) for nd in nodes):
            corr.hit("one_sided_node")
        if model.n_nodes_ > len(nodes):
            corr.hit("n_nodes_overcounts")
        if any(nd.depth == spec["max_depth"] and fr.rec[id(nd)][0] >= spec["mss"] for nd in nodes):
            corr.hit("depth_guard_stops")
        # ---- op query: the whole batch, then a re-indexing of it (permutation / repetition / sub-batch)
        m = Xq.shape[0]
        batches = [Xq]
        if m > 1:
            idx = [rng.randrange(m) for _ in range(rng.randint(1, m + 2))]
            batches.append(Xq[idx])
        for bi, B in enumerate(batches):
            _, P0, P1, outs, stable, visited = query_real(model, B)
            if not stable:
                corr.hit("float_unstable_skipped")
                continue
            mm = B.shape[0]
            c0, c1 = [int(v) for v in model.classes_]
            tree_s = ";".join("%d,%s,%d,%d,%d" % (nd.index, frac(nd.threshold), nd.depth, nd.above is not None,
                                                  nd.below is not None) for nd in nodes)
            lines.append("query %d %d %d %s %s %s %s" % (
                c0, c1, model.n_nodes_, tree_s,
                ";".join(",".join(frac(v) for v in row) for row in P0),
                ";".join(",".join(frac(v) for v in row) for row in P1),
                ilist(range(mm))))
            impl = "%s|%s|%s|%s|%d" % (
                ";".join("%s,%s" % (frac(a), frac(b)) for a, b in outs["proba"]),
                ilist(outs["predict"]), ";".join(ilist(r) for r in outs["path"]),
                ilist(model.get_leaves_index()), model.tree_depth_)
            expect.append(("query", {"spec": spec, "batch": bi}, impl))
            ends = len(set(tuple(r) for r in outs["path"].tolist()))
            nontriv = split and (ends > 1 or any((nd.above is None) != (nd.below is None) for nd in nodes))
            corr.case(("query", impl), nontrivial=nontriv,
                      sample={"op": "query", "spec": spec, "impl": impl[:400]}
                      if nontriv and len(corr.samples) < 4 else None)
            corr.hit("batch_rows=%s" % (mm if mm < 8 else "8+"))
            corr.hit("distinct_paths=%s" % (ends if ends < 5 else "5+"))
            if any(P1[k][r] == float(nodes[k].threshold) for k in range(len(nodes)) for r in range(mm)):
                corr.hit("prob_equals_threshold")
            if any(v == 0.5 for v in outs["proba"][:, 1]):
                corr.hit("final_prob_is_half")
    out = run_driver(DRIVER, lines)
    for (op, inp, impl), got in zip(expect, out):
        if got != impl:
            corr.disagree(op, inp, got[:2000], impl[:2000])
    return corr


# ------------------------------------------------------------------------------ search (oracle from the statement)

TOL = 1e-9          # batch / single-row calls of a LogisticRegression may differ in the last bits (BLAS)
SEARCH_LABELS = LABELS + [("a", "b"), ("no", "yes"), (0.5, 2.5), (True, False)]


def _row_path(root, x, marked):
    """Walk from the root as the statement says; on an exact tie (|p - thr| <= TOL) follow whichever child
    `marked` contains.  Returns (list of nodes, had_tie)."""
    cur, path, tie = root, [root], False
    while True:
        p = float(cur.estimator.predict_proba(x.reshape(1, -1))[0, 1])
        if abs(p - cur.threshold) <= TOL:
            tie = True
            cands = [c for c in (cur.above, cur.below) if c is not None and c.index in marked]
            nxt = cands[0] if len(cands) == 1 else None
            if nxt is None and len(cands) == 0:
                return path, tie
            if nxt is None:
                return path + cands, tie          # both marked: will be reported as not-a-path
        else:
            nxt = cur.above if p > cur.threshold else cur.below
        if nxt is None:
            return path, tie
        path.append(nxt)
        cur = nxt


def check_spec(spec):
    """Fit the real estimator for `spec` and evaluate the statement; returns [(key, what, observed, required)].
    With features of magnitude 2e7 the rounding of a linear score (batch product vs single-row product) is ~1e-8, so
    the float tolerance - also the one of the tie detector - is 1e-6 for those specs."""
    global TOL
    old = TOL
    TOL = 1e-6 if spec.get("big_int") else old
    try:
        return _check_spec(spec)
    finally:
        TOL = old


def _check_spec(spec):
    import warnings
    import numpy
    warnings.filterwarnings("ignore")
    bad = []
    X, y, sw, Xq = make_case(spec)
    if spec.get("labels_obj") is not None:
        lo, hi = spec["labels_obj"]
        first = y == spec["labels"][0]
        y = numpy.array([lo if f else hi for f in first])
    model = build_model(spec)
    if spec.get("used_before"):
        # history: the SAME object was fitted on the mirrored data set (other tree, often the same number of nodes) and
        # used, before the fit under test: everything below describes the tree of the LAST fit
        try:
            if spec["seed"] % 2:
                model.fit(-X, y, sw)
            else:
                u = numpy.unique(y)
                model.fit(X, numpy.where(y == u[0], u[-1], u[0]), sw)      # the two labels exchanged
            model.get_leaves_index()
            model.predict_proba(-Xq)
            model.decision_path(-Xq)
        except Exception:  # noqa: BLE001
            pass
    try:
        r = model.fit(X, y, sw)
    except Exception as e:
        if rejected(spec):
            return [], None
        return [("DTLR.fit:raises", "fit raises %s on a binary data set" % type(e).__name__,
                 "%s: %s" % (type(e).__name__, str(e)[:200]), "a fitted tree")], None
    if r is not model:
        bad.append(("DTLR.fit:return", "fit does not return self", repr(r)[:80], "self"))
    if spec.get("params_changed_after_fit"):
        # history: hyper-parameters are changed AFTER the fit (no refit): what predict_proba / decision_path / the
        # index listing describe is still the fitted tree (the depth clause below keeps the max_depth of the fit)
        try:
            model.set_params(max_depth=1, min_samples_leaf=max(1, spec["n"] // 2))
        except Exception:  # noqa: BLE001
            pass
    nodes = preorder(model.tree_)
    byidx = {}
    for nd in nodes:
        byidx.setdefault(int(nd.index), []).append(nd)
    idx = [int(nd.index) for nd in nodes]
    nn = int(model.n_nodes_)
    # node indices distinct and below n_nodes_
    if len(set(idx)) != len(idx) or any(i < 0 or i >= nn for i in idx):
        bad.append(("DTLR.fit:indices-not-distinct-below-n-nodes", "node indices must be distinct and in [0, n_nodes_)",
                    {"indices": idx, "n_nodes_": nn}, "distinct, 0 <= index < n_nodes_"))
    # get_leaves_index lists the terminal nodes
    leaves = [int(v) for v in model.get_leaves_index()]
    want = sorted(int(nd.index) for nd in nodes if nd.above is None or nd.below is None)
    if leaves != want:
        bad.append(("DTLR.get_leaves_index:not-terminal-nodes", "get_leaves_index must list the nodes where a path can end",
                    leaves, want))
    # depth never exceeds max_depth
    depths = [int(nd.depth) for nd in nodes]
    if model.tree_depth_ > spec["max_depth"] or max(depths) > spec["max_depth"]:
        bad.append(("DTLR.fit:depth-exceeds-max-depth", "tree_depth_ / node depths must not exceed max_depth",
                    {"tree_depth_": int(model.tree_depth_), "node_depths": depths}, "<= %d" % spec["max_depth"]))
    if model.tree_depth_ != max(depths):
        bad.append(("DTLR.tree_depth_:not-the-deepest-node", "tree_depth_ is the depth of the tree (its deepest node)",
                    {"tree_depth_": int(model.tree_depth_), "node_depths": depths}, max(depths)))
    # parent / child bookkeeping of the structure itself
    for nd in nodes:
        for ch in (nd.above, nd.below):
            if ch is not None and ch.depth != nd.depth + 1:
                bad.append(("DTLR.fit:child-depth", "a child is one level below its parent",
                            [int(nd.depth), int(ch.depth)], "depth + 1"))
    try:
        return bad + _check_queries(spec, model, nodes, nn, Xq, y), model
    except Exception as e:        # a public method raising on a valid batch is a failure of the property too
        import traceback
        tb = traceback.extract_tb(e.__traceback__)
        where = next((f.name for f in reversed(tb) if "decision_tree_logreg" in (f.filename or "")), None)
        if where is None:
            raise
        bad.append(("DTLR.%s:raises-%s" % (where, type(e).__name__),
                    "%s raises %s on a valid batch" % (where, type(e).__name__),
                    "%s: %s" % (type(e).__name__, str(e)[:200]), "a result for every row"))
        return bad, model


def _check_queries(spec, model, nodes, nn, Xq, y):
    import numpy
    bad = []
    leaves = [int(v) for v in model.get_leaves_index()]
    # integer-valued rows are also given as an int64 array: the same numbers, so the same routes
    Xcall = Xq.astype(numpy.int64) if spec.get("big_int") else Xq
    P = model.predict_proba(Xcall)
    D = numpy.asarray(model.decision_path(Xcall).todense())
    pred = model.predict(Xcall)
    m = Xq.shape[0]
    if P.shape != (m, 2) or D.shape != (m, nn):
        bad.append(("DTLR.predict_proba:shape", "output shapes", [list(P.shape), list(D.shape)], [[m, 2], [m, nn]]))
        return bad
    # rows sum to one
    s = P.sum(axis=1)
    if not (numpy.abs(s - 1) <= 1e-12).all():
        bad.append(("DTLR.predict_proba:rows-not-sum-one", "rows of predict_proba must sum to one", s.tolist(), "1 (1e-12)"))
    # predict is classes_ at >= 0.5
    wantp = model.classes_[(P[:, 1] >= 0.5).astype(int)]
    if list(pred) != list(wantp):
        bad.append(("DTLR.predict:not-classes-at-half", "predict must be classes_[proba[:, 1] >= 0.5]",
                    [str(v) for v in pred], [str(v) for v in wantp]))
    if sorted(set(y.tolist()), key=str) != sorted(model.classes_.tolist(), key=str):
        bad.append(("DTLR.fit:classes", "classes_ must be the two labels", [str(v) for v in model.classes_],
                    sorted(str(v) for v in set(y.tolist()))))
    near_tie = [False] * m
    for i in range(m):
        marked = set(int(j) for j in numpy.nonzero(D[i])[0])
        path, tie = _row_path(model.tree_, Xq[i], marked)
        near_tie[i] = tie
        pidx = [int(nd.index) for nd in path]
        vals = set(int(v) for v in D[i].tolist())
        if marked != set(pidx) or len(set(pidx)) != len(pidx) or not vals <= {0, 1} or pidx[0] != int(model.tree_.index):
            bad.append(("DTLR.decision_path:not-root-to-terminal",
                        "decision_path must mark exactly the root-to-terminal path of the row",
                        {"row": Xq[i].tolist(), "marked": sorted(marked)}, {"path": pidx}))
            continue
        term = path[-1]
        own = term.estimator.predict_proba(Xq[i:i + 1])[0]
        if not (numpy.abs(own - P[i]) <= TOL).all():
            bad.append(("DTLR.predict_proba:not-terminal-proba",
                        "predict_proba of a row must be the probabilities of the classifier ending its path",
                        {"row": Xq[i].tolist(), "predict_proba": P[i].tolist()},
                        {"terminal_node": int(term.index), "its_proba": own.tolist()}))
        if int(term.index) not in leaves:
            bad.append(("DTLR.get_leaves_index:path-ends-elsewhere", "every path ends in a listed leaf",
                        int(term.index), leaves))
    # batch vs single rows vs permutation
    for i in range(m):
        if near_tie[i]:
            continue
        p1 = model.predict_proba(Xq[i:i + 1])[0]
        d1 = numpy.asarray(model.decision_path(Xq[i:i + 1]).todense())[0]
        if not (numpy.abs(p1 - P[i]) <= TOL).all() or d1.tolist() != D[i].tolist():
            bad.append(("DTLR.batch:single-row-differs", "a single-row call must agree with the batch call",
                        {"row": Xq[i].tolist(), "single": [p1.tolist(), d1.tolist()]},
                        {"batch": [P[i].tolist(), D[i].tolist()]}))
        elif abs(P[i, 1] - 0.5) > TOL and model.predict(Xq[i:i + 1])[0] != pred[i]:
            bad.append(("DTLR.batch:single-row-differs", "predict of a single row must agree with the batch call",
                        str(model.predict(Xq[i:i + 1])[0]), str(pred[i])))
    if m > 1:
        rs = numpy.random.RandomState(spec["seed"] ^ 0x5A5A)
        perm = rs.permutation(m)
        sub = perm[: max(1, m // 2)]
        for name, ix in (("permutation", perm), ("sub-batch", sub)):
            keep = [j for j, i in enumerate(ix) if not near_tie[i]]
            Pp = model.predict_proba(Xq[ix])
            Dp = numpy.asarray(model.decision_path(Xq[ix]).todense())
            if not (numpy.abs(Pp[keep] - P[ix][keep]) <= TOL).all() or Dp[keep].tolist() != D[ix][keep].tolist():
                bad.append(("DTLR.batch:%s-differs" % name, "re-indexing the batch must re-index the result",
                            {"index": [int(v) for v in ix], "proba": Pp.tolist()}, {"proba": P[ix].tolist()}))
    return bad


def _size(spec):
    return (spec["n"], spec["m"], spec["max_depth"])


def search(ctx, hints):
    ctx.shadow(need_cython=True)
    rng = ctx.rng
    vs, evals, nontriv, samples = [], 0, set(), []
    specs = []
    for h in hints or []:                         # first the inputs on which the model and the code disagreed
        inp = h.get("input")
        sp = inp.get("spec") if isinstance(inp, dict) and "spec" in inp else inp
        if isinstance(sp, dict) and "seed" in sp:
            specs.append(dict(sp))
    broken = bool(getattr(ctx, "broken", None))
    for t in range(ctx.pick(400, 4500) * (2 if broken else 1)):
        sp = draw_spec(rng, big=ctx.thorough)
        if t % 7 == 3:
            sp["data"] = "ties"
            sp["est"] = rng.choice(["tree1", "tree2", "tree_leaf"])
        if t % 5 == 0:
            sp["labels_obj"] = list(rng.choice(SEARCH_LABELS))
        if t % 3 == 2:
            sp["used_before"] = True
        if t % 5 == 4:
            sp["params_changed_after_fit"] = True
        if t % 6 == 1 and sp["data"] != "ties":
            sp["big_int"] = 20000000
        if t % 4 == 1:
            sp["via_set_params"] = True
            if t % 8 == 1:
                sp["max_depth"] = rng.choice([1, 2])        # shallower than the constructor default
        specs.append(sp)
    for sp in specs:
        if rejected(sp):
            continue
        bad, model = check_spec(sp)
        evals += 1
        if model is not None and (model.tree_.above is not None or model.tree_.below is not None):
            nontriv.add((sp["seed"], sp["n"]))
            if len(samples) < 2:
                samples.append({"spec": sp, "n_nodes_": int(model.n_nodes_),
                                "leaves": [int(v) for v in model.get_leaves_index()]})
        for key, what, obs, req in bad:
            vs.append(Violation(key, what, sp, obs, req))
    best = {}
    for v in vs:
        if v.key not in best or _size(v.input) < _size(best[v.key].input):
            best[v.key] = v
    return list(best.values()), {"evaluations": evals, "distinct_nontrivial": len(nontriv), "samples": samples}


def replay(ctx, item):
    ctx.shadow(need_cython=True)
    bad, _ = check_spec(item["input"])
    best = {}
    for key, what, obs, req in bad:
        best.setdefault(key, Violation(key, what, item["input"], obs, req))
    return list(best.values())
