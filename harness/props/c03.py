"""C03 — a fitted model depends only on parameters, the last training set and seeds."""
import random

from core import Corr, Violation
from extract import lifecycle_gen as lg
from extract import skeleton as sk
from extract import diag
from props import _menu
from props import _guided
from props.c02 import SetattrTrace

ID = "C03"
LEAN_TARGETS = ["MlVerif.Gen.C03", "MlVerif.Model.Flow", "MlVerif.Model.Lifecycle", "MlVerif.Lemmas.Flow",
                "MlVerif.Lemmas.FlowPair", "MlVerif.Lemmas.Lifecycle", "MlVerif.Properties.C03"]
PROPERTY_FILE = "MlVerif/Properties/C03.lean"
DRIVER = None
TRUSTED = [
    "harness/extract/skeleton.py + lifecycle_gen.py: translation of `fit` and of the observers into the IR, "
    "specialisation by the hyper-parameter conditions (at most 4 per class), the table of attributes an external "
    "(scikit-learn) parent's fit rewrites",
    "hyper-parameters may change between two fits (set_params): an attribute is possibly stale when ANY valuation of "
    "the hyper-parameter conditions writes it; attributes no method writes cannot be stale (theorem `frame`)",
    "inner scikit-learn estimators are cloned or refitted from scratch by their own fit (warm_start etc. outside "
    "the model); numpy RandomState(seed) is a function of the seed",
]
ASSUMPTIONS = [
    "'the same model' is observed through every public observer and through the fitted attributes (names ending "
    "in '_') compared structurally; estimator-valued attributes are compared by class and their own fitted attributes",
    "documented deterministic random_state: KMeansL1L2, PermutationReciprocalTransformer, PiecewiseClassifier",
]
RULE = ("correspondence: every menu estimator is fitted with attribute assignment traced; every attribute the "
        "regenerated skeleton claims `fit` definitely rewrites under the instance's hyper-parameter valuation must "
        "have been assigned during that fit, and every observed assignment must be predicted. search: histories "
        "fit(A); observers; fit(B); observers vs a fresh instance fit(B); observers, for pairs of training sets of "
        "different sizes / dimensions / label sets under identical seeds; two fits under the same global seed; "
        "integer random_state (Python and NumPy integers) under two different global seeds; the same histories with a "
        "FAILING fit before each fit, under source-driven configurations (_guided) and with a change of hyper-parameters "
        "between the fits (every public method observed); fitted attributes unchanged by calling every public method; "
        "the array objects of an earlier fit unchanged by a refit; a fresh instance fitted at the start and at the end "
        "of the search. Non-trivial = both fits succeeded")
LEVEL_TEXT = ("Proof: (two-run form) for every accepted fit skeleton, running it with the same inputs from any prior "
              "attribute state and from a fresh state ends the same way and gives the same value to every attribute an "
              "observer can read (`refit_is_fresh_fit`, via a lockstep theorem for pair executions); (taint form) a definite-rewrite / no-stale-read analysis over the control-flow IR is proved sound in Lean for "
              "all programs and executions (from any prior state: nothing stale is read, every observable attribute "
              "is rewritten unless fit raises), with a frame theorem for untouched attributes; it is decided in the "
              "kernel on the skeleton of every fit, specialised to each valuation of its hyper-parameter conditions, "
              "regenerated from the current source, together with the table obligation that seeded classes reach the "
              "global RNG only when random_state is None. Partial: translation to the IR, scikit-learn internals and "
              "bit-level reproducibility are trusted / exercised by the history search.")
LEVEL_NOTE = "; ".join(TRUSTED)
TECHNIQUE = ("Lean 4 proof of a generic abstract interpreter (taint-style non-interference as definite rewrite) + "
             "kernel-decided obligations on AST-regenerated, parameter-specialised fit skeletons + refit-vs-fresh history search")


def extract(ctx):
    txt, _, _ = lg.gen_c03(ctx.repo)
    return {"MlVerif/Gen/C03.lean": txt}


# ----------------------------------------------------------------------------------------- helpers

def fitted_state(est, depth=0):
    """canonical view of the fitted attributes (names ending with '_', not dunder)"""
    import numpy
    import scipy.sparse
    out = {}
    for k, v in sorted(vars(est).items()):
        if not k.endswith("_") or k.startswith("__"):
            continue
        out[k] = _canon(v, depth)
    return out


def _canon(v, depth):
    import numpy
    import scipy.sparse
    if v is None or isinstance(v, (bool, int, float, str)):
        return ("atom", repr(v))
    if isinstance(v, numpy.generic):
        return ("atom", repr(v.item()))
    if isinstance(v, numpy.ndarray):
        if v.dtype == object:
            return ("objarr", v.shape, tuple(_canon(x, depth + 1) for x in v.ravel()[:200]))
        return ("arr", v.shape, str(v.dtype), v.tobytes())
    if scipy.sparse.issparse(v):
        return _canon(v.toarray(), depth)
    if isinstance(v, dict):
        return ("dict", tuple(sorted((repr(k), _canon(x, depth + 1)) for k, x in v.items())))
    if isinstance(v, (list, tuple)):
        return (type(v).__name__, tuple(_canon(x, depth + 1) for x in v))
    if hasattr(v, "get_params") and depth < 3:
        return ("est", type(v).__name__, tuple(sorted(fitted_state(v, depth + 1).items())))
    if hasattr(v, "__dict__") and depth < 3 and type(v).__module__.startswith(("mlinsights", "sklearn")):
        return ("obj", type(v).__name__,
                tuple(sorted((k, _canon(x, depth + 1)) for k, x in vars(v).items() if not k.startswith("__"))))
    return ("opaque", type(v).__name__)


def observe_all(est, e, X, y, seed):
    import numpy
    outs = []
    for ob in e.observers:
        numpy.random.seed(seed)
        try:
            outs.append((ob, _menu.call_observer(est, ob, X, y)))
        except Exception as ex:  # noqa: BLE001
            outs.append((ob, ("raises", type(ex).__name__)))
    return outs


_SKIP_AUTO = ("fit", "set_", "get_params", "get_metadata", "partial_fit")
_UNI = {}


def _fit_steps(clsname):
    """public methods that `fit` itself calls on self (steps of the fit, not observers) - read from the source"""
    import shadow
    if "uni" not in _UNI:
        _UNI["uni"] = sk.Universe(shadow.REPO)
    key = ("steps", clsname)
    if key not in _UNI:
        try:
            _UNI[key] = lg.fit_steps(_UNI["uni"], clsname)
        except Exception:  # noqa: BLE001
            _UNI[key] = set()
    return _UNI[key]


def auto_observe(est, e, X, y, seed):
    """Every OTHER public method mlinsights defines for the class (beyond the menu's observers) that can be called as
    m(), m(X) or m(X, y): outcome = structural value or exception type.  Used after a change of hyper-parameters,
    where an attribute written only under the former configuration may still be read by such a method."""
    import inspect
    import numpy
    outs = []
    known = {o[:-3] if o.endswith("_xy") else o for o in e.observers}
    for name in sorted(dir(type(est))):
        if name.startswith("_") or name.startswith(_SKIP_AUTO) or name in known or name in _fit_steps(type(est).__name__):
            continue
        f = getattr(type(est), name, None)
        if not inspect.isfunction(f) or not (getattr(f, "__module__", "") or "").startswith("mlinsights"):
            continue
        try:
            req = [p for p in list(inspect.signature(f).parameters.values())[1:]
                   if p.default is inspect.Parameter.empty and p.kind in (p.POSITIONAL_ONLY, p.POSITIONAL_OR_KEYWORD)]
        except (TypeError, ValueError):
            continue
        if len(req) > 2 or (len(req) == 2 and y is None):
            continue
        args = [X, y][:len(req)]
        numpy.random.seed(seed)
        try:
            outs.append(("auto:" + name, _canon(getattr(est, name)(*args), 0)))
        except Exception as ex:  # noqa: BLE001
            outs.append(("auto:" + name, ("raises", type(ex).__name__)))
    return outs


def unseen_query(e, X, y):
    """a query batch that reaches lazily computed state (labels unseen at training time)"""
    if e.data == "labels" and y is not None:
        return X, y + 1
    return X, y


def _corrected_copy(data):
    """the same table with its INNER rows changed (first and last rows, shape, dtype and targets kept): what a caller
    has after correcting some records of the table the model was fitted on"""
    import numpy
    X, y, w = data
    if not (isinstance(X, numpy.ndarray) and X.ndim == 2 and X.shape[0] >= 4 and X.dtype.kind == "f"):
        return None
    X2 = X.copy()
    inner = X[1:-1]
    X2[1:-1] = inner[::-1] * 0.5 + inner.mean(axis=0) * 0.5
    return X2, (y.copy() if hasattr(y, "copy") else y), w


def history(e, variants, seed, dseed, between=True, failing=None, corrected=False):
    """fit(A); observers(A); fit(B); observers(B)  vs  fresh: fit(B); observers(B).
    `failing`: a kind of invalid data (props.c02.corrupt): a fit on the corrupted A is attempted before every fit - an
    earlier fit that FAILED is an earlier fit too, nothing it left behind may leak."""
    import numpy
    from props import c02
    rng = random.Random(dseed)
    datas = [_menu.make_data(e.data, rng, v) for v in variants]
    if corrected:
        c = _corrected_copy(datas[0])
        if c is None:
            raise ValueError("no corrected copy for this kind of data")
        datas = [datas[0], c]
    est = e.factory()
    for i, (X, y, w) in enumerate(datas):
        if failing:
            try:
                Xb, yb, wb = c02.corrupt(failing, *datas[0])
                numpy.random.seed(seed + 50 + i)
                _menu.call_fit(est, Xb, yb, wb)
            except Exception:  # noqa: BLE001
                pass
        numpy.random.seed(seed + i)
        _menu.call_fit(est, X, y, w)
        if between or i == len(datas) - 1:
            Xq, yq = unseen_query(e, X, y)
            last = observe_all(est, e, X, y, seed + 100) + observe_all(est, e, Xq, yq, seed + 101)
    X, y, w = datas[-1]
    fresh = e.factory()
    numpy.random.seed(seed + len(datas) - 1)
    _menu.call_fit(fresh, X, y, w)
    Xq, yq = unseen_query(e, X, y)
    ref = observe_all(fresh, e, X, y, seed + 100) + observe_all(fresh, e, Xq, yq, seed + 101)
    return est, fresh, last, ref


#: wrappers that are DOCUMENTED to work on the very object they are given (no clone): sharing a component between
#: two of them is sharing a model by design, so the shared-component history is not run on them
SHARES_BY_DESIGN = ("SkBaseTransformLearner", "SkBaseTransformStacking", "TransferTransformer")


def shared_components(e, seed, dseed):
    """Model A and model B are built from the SAME component objects (binner, inner estimator, transformer ...),
    as `B = type(A)(**A.get_params(deep=False))` does.  Fitting B afterwards on other data must leave A's outputs
    unchanged: A depends on its own parameters, training set and seeds only."""
    import numpy
    rng = random.Random(dseed)
    XA, yA, wA = _menu.make_data(e.data, rng, 0)
    XB, yB, wB = _menu.make_data(e.data, rng, 1)
    A = e.factory()
    try:
        params = A.get_params(deep=False)
    except Exception:  # noqa: BLE001
        return [], False
    if not any(hasattr(v, "get_params") and not isinstance(v, type) for v in params.values()):
        return [], False
    B = type(A)(**params)
    numpy.random.seed(seed)
    _menu.call_fit(A, XA, yA, wA)
    before = observe_all(A, e, XA, yA, seed + 100)
    numpy.random.seed(seed + 1)
    _menu.call_fit(B, XB, yB, wB)
    after = observe_all(A, e, XA, yA, seed + 100)
    bad = []
    for (ob, a), (_, b) in zip(before, after):
        if a != b:
            bad.append(("%s:shared-components:observer-changes:%s" % (e.cls, ob.replace("_xy", "")),
                        "outputs of a fitted model change after ANOTHER model built from the same component objects is fitted",
                        "outputs of %s differ" % ob, "identical outputs (components are cloned before fitting)"))
    return bad, True


def reconfigured(e1, e2, seed, dseed):
    """History with a change of hyper-parameters: an instance configured as menu entry e1 is fitted and observed,
    then given ALL the parameters of entry e2 (same class) through set_params and fitted again on other data.
    It must now be the model a fresh e2 instance gives: the parameters that count are the current ones."""
    import numpy
    rng = random.Random(dseed)
    XA, yA, wA = _menu.make_data(e1.data, rng, 0)
    XB, yB, wB = _menu.make_data(e2.data, rng, 1)
    est = e1.factory()
    numpy.random.seed(seed)
    _menu.call_fit(est, XA, yA, wA)
    observe_all(est, e1, XA, yA, seed + 100)
    Xq, yq = unseen_query(e1, XA, yA)
    observe_all(est, e1, Xq, yq, seed + 101)
    target = e2.factory()
    est.set_params(**target.get_params(deep=False))
    numpy.random.seed(seed + 1)
    _menu.call_fit(est, XB, yB, wB)
    last = observe_all(est, e2, XB, yB, seed + 100) + auto_observe(est, e2, XB, yB, seed + 102)
    fresh = e2.factory()
    numpy.random.seed(seed + 1)
    _menu.call_fit(fresh, XB, yB, wB)
    ref = observe_all(fresh, e2, XB, yB, seed + 100) + auto_observe(fresh, e2, XB, yB, seed + 102)
    return est, fresh, last, ref


def compare(e, est, fresh, last, ref, what, state=True):
    bad = []
    for (ob, a), (_, b) in zip(last, ref):
        if a != b:
            bad.append(("%s:%s:observer-differs:%s" % (e.cls, what, ob.replace("_xy", "")),
                        "%s: output of %s differs from a fresh instance fitted on the same data" % (what, ob),
                        "outputs differ", "identical outputs"))
    if not state:
        return bad
    sa, sb = fitted_state(est), fitted_state(fresh)
    extra = sorted(set(sa) - set(sb))
    missing = sorted(set(sb) - set(sa))
    diff = sorted(k for k in set(sa) & set(sb) if sa[k] != sb[k])
    if extra or missing or diff:
        names = extra + missing + diff
        bad.append(("%s:%s:fitted-state-differs:%s" % (e.cls, what, ",".join(names)),
                    "%s: fitted attributes differ from a fresh instance fitted on the same data" % what,
                    {"only_on_refitted": extra, "only_on_fresh": missing, "different_value": diff},
                    "identical fitted attributes"))
    return bad


# ----------------------------------------------------------------------------------------- correspondence

def valuation_of(est, conds):
    """truth value of each hyper-parameter condition on a live instance"""
    out = {}
    for c in conds:
        try:
            out[c] = bool(eval(c, {"self": est, "callable": callable, "isinstance": isinstance, "len": len,
                                   "hasattr": hasattr, "str": str, "int": int, "float": float}))
        except Exception:  # noqa: BLE001
            out[c] = None
    return out


def correspond(ctx):
    root = ctx.shadow(need_cython=True)
    import numpy
    import warnings
    warnings.filterwarnings("ignore")
    corr = Corr()
    corr.rule = RULE
    _, _, cases = lg.c03_cases(ctx.repo)
    by_class = {}
    for cs in cases:
        by_class.setdefault(cs["class"], []).append(cs)
    for e in _menu.build_menu():
        if e.slow and not ctx.thorough:
            continue
        for variant in range(ctx.pick(1, 3)):
            X, y, w = _menu.make_data(e.data, ctx.rng, variant)
            est = e.factory()
            cands = by_class.get(e.cls, [])
            if not cands:
                corr.hit("class-without-fit-skeleton")
                continue
            val = valuation_of(est, list(cands[0]["rho"].keys()))
            match = [cs for cs in cands if all(val.get(k) == v for k, v in cs["rho"].items())]
            if len(match) != 1:
                corr.hit("valuation-unresolved")
                continue
            cs = match[0]
            definite = diag_definite(cs["prog"])
            # `if hasattr(self, a): del self.a` only executes when an earlier call left the attribute
            definite -= {a[1] for a in sk.atoms(cs["prog"]) if a[0] == "dattr" and len(a) > 2}
            possible = {a[1] for a in sk.atoms(cs["prog"]) if a[0] in ("wattr", "dattr")}
            numpy.random.seed(ctx.rng.randrange(1 << 30))
            with SetattrTrace(type(est), root) as tr:
                try:
                    _menu.call_fit(est, X, y, w)
                    err = None
                except Exception as ex:  # noqa: BLE001
                    err = type(ex).__name__
            try:
                params = set(est.get_params(deep=False))
            except Exception:  # noqa: BLE001  (get_params itself failing is a C01 matter)
                params = set()
            observed = {ev[1] for ev in tr.events if ev[3] == id(est) and ev[1] not in params}
            corr.case((e.name, variant), nontrivial=err is None,
                      sample={"estimator": e.name, "rho": cs["rho"], "definitely_rewritten": sorted(definite),
                              "observed_writes": sorted(observed)} if len(corr.samples) < 4 else None)
            corr.hit("error:%s" % err if err else "ok")
            corr.hit("rho-size:%d" % len(cs["rho"]))
            if err is None:
                # external parents' attributes are written by scikit-learn code, not traced
                ext = set()
                for v in sk.EXTERNAL_FIT_WRITES.values():
                    ext |= set(v)
                missing = sorted(a for a in definite if a not in observed and a not in ext)
                unpredicted = sorted(a for a in observed if a not in possible)
                if missing or unpredicted:
                    corr.disagree("fit-attribute-writes", {"estimator": e.name, "rho": cs["rho"]},
                                  {"definitely_rewritten": sorted(definite), "possibly_written": sorted(possible)},
                                  {"claimed_but_not_assigned": missing, "assigned_but_not_predicted": unpredicted})
    return corr


def diag_definite(prog):
    """attributes definitely (re)written at the normal / return exits (Python mirror, for the correspondence)"""
    d = diag.Diag("fresh")
    R = d.analyze(prog, frozenset())
    outs = [R[k] for k in ("norm", "ret") if R[k] is not None]
    if not outs:
        return set()
    res = set(outs[0])
    for o in outs[1:]:
        res &= set(o)
    return res


# ----------------------------------------------------------------------------------------- search

SEEDED = ("KMeansL1L2[L1]", "KMeansL1L2[L2]", "KMeansL1L2[L1,init-array]",
          "PermutationReciprocalTransformer[closest=False]", "PermutationReciprocalTransformer[closest=True]",
          "PermutationReciprocalTransformer[random_state=0]", "PiecewiseClassifier",
          "PiecewiseClassifier[random_state=0]", "PiecewiseClassifier[random_state=numpy.int64]",
          "PermutationReciprocalTransformer[random_state=numpy.int32]")


OPT_OUT_PARAMS = ("copy_x", "copy_X", "copy", "verbose")


def state_stability(e, seed, dseed, variant=0):
    """Using a fitted model does not change it: every fitted attribute present after `fit` holds the same value
    after every public method has been called (attributes created lazily by an observer are not concerned)."""
    import numpy
    X, y, w = _menu.make_data(e.data, random.Random(dseed), variant)
    est = e.factory()
    numpy.random.seed(seed)
    _menu.call_fit(est, X, y, w)
    before = fitted_state(est)
    observe_all(est, e, X, y, seed + 100)
    auto_observe(est, e, X, y, seed + 102)
    Xq, yq = unseen_query(e, X, y)
    observe_all(est, e, Xq, yq, seed + 101)
    after = fitted_state(est)
    changed = sorted(k for k in before if k in after and before[k] != after[k])
    gone = sorted(k for k in before if k not in after)
    if changed or gone:
        return [("%s:state-changed-by-observers:%s" % (e.cls, ",".join(changed + gone)),
                 "fitted attributes hold other values after the public methods of the fitted model were called",
                 {"changed": changed, "removed": gone}, "what fit stored is left untouched by predict/transform/score/...")]
    return []


def _array_refs(est):
    """the ndarray objects reachable from the fitted attributes (one level into lists / tuples / dicts)"""
    import numpy
    out = {}
    for k, v in vars(est).items():
        if not k.endswith("_") or k.startswith("__"):
            continue
        items = [(k, v)]
        if isinstance(v, (list, tuple)):
            items = [("%s[%d]" % (k, i), x) for i, x in enumerate(v)]
        elif isinstance(v, dict):
            items = [("%s[%r]" % (k, kk), x) for kk, x in v.items()]
        for name, x in items:
            if isinstance(x, numpy.ndarray) and x.dtype != object:
                out[name] = x
    return out


def prior_arrays_untouched(e, seed, dseed):
    """A refit builds new state: the array OBJECTS an earlier fit stored (which a shallow copy of the estimator, or the
    caller, may still hold) keep their content when the estimator is fitted again - here on another training set of
    the same shape, the case in which reusing a buffer would go unnoticed by the estimator itself."""
    import numpy
    rng = random.Random(dseed)
    X, y, w = _menu.make_data(e.data, rng, 0)
    X2, y2, w2 = _menu.make_data(e.data, rng, 0)
    est = e.factory()
    numpy.random.seed(seed)
    _menu.call_fit(est, X, y, w)
    refs = _array_refs(est)
    snaps = {k: v.tobytes() for k, v in refs.items()}
    numpy.random.seed(seed + 1)
    _menu.call_fit(est, X2, y2, w2)
    changed = sorted(k for k, v in refs.items() if v.tobytes() != snaps[k])
    if changed:
        return [("%s:refit-writes-into-earlier-arrays:%s" % (e.cls, ",".join(c.split("[")[0] for c in changed[:3])),
                 "fitting again writes into the arrays the earlier fit stored (a shallow copy of the earlier model, or a "
                 "reference kept by the caller, now holds the new model's values)", {"arrays_changed": changed[:6]},
                 "a fit rebinds its fitted attributes to new arrays")]
    return []


def process_snapshot(menu, seed, dseed):
    """fresh instance of every (fast) menu entry fitted on a fixed data set: fitted state and observer outputs"""
    import numpy
    out = {}
    for e in menu:
        if e.slow or not e.seeded:
            continue
        try:
            X, y, w = _menu.make_data(e.data, random.Random(dseed), 1)
            est = e.factory()
            numpy.random.seed(seed)
            _menu.call_fit(est, X, y, w)
            out[e.name] = (fitted_state(est), observe_all(est, e, X, y, seed + 100))
        except Exception:  # noqa: BLE001
            continue
    return out


def failed_history_raises(e, seed, dseed, kind, ex):
    """the history with failing fits in between raised: a violation when the same history WITHOUT them does not"""
    try:
        history(e, (0, 1), seed, dseed)
    except Exception:  # noqa: BLE001
        return []
    return [("%s:refit-after-failed-fit:raises" % e.cls,
             "a valid fit (or an observer) raises %s after an earlier fit failed on invalid data (%s); the same history "
             "without the failed fits succeeds" % (type(ex).__name__, kind), "%s: %s" % (type(ex).__name__, str(ex)[:150]),
             "the model a fresh instance fitted on the same data gives")]


def derived(e, ov):
    """menu entry `e` with the hyper-parameters `ov` (values the current source compares them with) set"""
    def fac(inner=None, _e=e, _ov=ov):
        est = _e.factory(inner) if inner is not None else _e.factory()
        est.set_params(**_ov)
        return est
    return _menu.Entry(e.name, e.cls, fac, e.data, e.observers, e.inner_kind, e.slow, e.seeded)


def search(ctx, hints):
    ctx.shadow(need_cython=True)
    import numpy
    import warnings
    warnings.filterwarnings("ignore")
    vs, evals, nontriv, samples = {}, 0, set(), []

    def add(bad, inp):
        for key, what, obs, req in bad:
            if key not in vs:
                vs[key] = Violation(key, what, inp, obs, req)

    # a fresh instance fitted NOW (before anything else ran in this process) and again at the END of the search must be
    # the same model: nothing outside the instances (module-level caches, shared default arguments, class attributes)
    # remembers the fits made in between
    snap_seed, snap_dseed = ctx.rng.randrange(1 << 30), ctx.rng.randrange(1 << 30)
    early = process_snapshot(_menu.build_menu(), snap_seed, snap_dseed)
    for e in _menu.build_menu():
        if e.slow and not ctx.thorough:
            continue
        pairs = [(0, 1), (1, 2), (2, 0)] + ([(0, 1, 2), (2, 2), (1, 0)] if ctx.thorough else [])
        for variants in pairs:
            seed = ctx.rng.randrange(1 << 30)
            dseed = ctx.rng.randrange(1 << 30)
            inp = {"entry": e.name, "kind": "refit", "variants": list(variants), "seed": seed, "dseed": dseed}
            evals += 1
            try:
                est, fresh, last, ref = history(e, variants, seed, dseed)
            except Exception as ex:  # noqa: BLE001
                samples.append({"entry": e.name, "skipped": "%s: %s" % (type(ex).__name__, str(ex)[:100])}) \
                    if len(samples) < 4 else None
                continue
            nontriv.add((e.name, variants))
            if e.seeded:
                add(compare(e, est, fresh, last, ref, "refit"), inp)
            if len(samples) < 3:
                samples.append({"entry": e.name, "history": "fit(A%d); observe; fit(A%d); observe vs fresh" % variants[:2],
                                "fitted_attributes": sorted(fitted_state(est))})
        # the second training set is the first one with its inner rows corrected (same shape, same first and last rows)
        seed, dseed = ctx.rng.randrange(1 << 30), ctx.rng.randrange(1 << 30)
        inp_c = {"entry": e.name, "kind": "refit", "variants": [0, 0], "seed": seed, "dseed": dseed, "corrected": True}
        try:
            est, fresh, last, ref = history(e, (0, 0), seed, dseed, corrected=True)
            evals += 1
            nontriv.add((e.name, "corrected-copy"))
            if e.seeded:
                add(compare(e, est, fresh, last, ref, "refit-on-corrected-copy"), inp_c)
        except Exception:  # noqa: BLE001
            pass
        # the same history with a FAILING fit (invalid data) before each fit
        for kind in (("nan-y", "mismatch") if not ctx.thorough else ("nan-y", "mismatch", "nan", "short")):
            seed, dseed = ctx.rng.randrange(1 << 30), ctx.rng.randrange(1 << 30)
            inp_f = {"entry": e.name, "kind": "refit", "variants": [0, 1], "seed": seed, "dseed": dseed, "failing": kind}
            try:
                est, fresh, last, ref = history(e, (0, 1), seed, dseed, failing=kind)
            except Exception as ex:  # noqa: BLE001
                add(failed_history_raises(e, seed, dseed, kind, ex), inp_f)
                continue
            evals += 1
            nontriv.add((e.name, "after-failed-fit", kind))
            if e.seeded:
                add(compare(e, est, fresh, last, ref, "refit-after-failed-fit"),
                    {"entry": e.name, "kind": "refit", "variants": [0, 1], "seed": seed, "dseed": dseed, "failing": kind})
        # two models built from the same component objects
        if e.cls not in SHARES_BY_DESIGN:
            seed = ctx.rng.randrange(1 << 30)
            dseed = ctx.rng.randrange(1 << 30)
            try:
                bad, ran = shared_components(e, seed, dseed)
            except Exception:  # noqa: BLE001
                bad, ran = [], False
            if ran:
                evals += 1
                nontriv.add((e.name, "shared-components"))
                add(bad, {"entry": e.name, "kind": "shared-components", "variants": [0, 1], "seed": seed, "dseed": dseed})
        # a refit does not write into the arrays of the earlier fit
        seed, dseed = ctx.rng.randrange(1 << 30), ctx.rng.randrange(1 << 30)
        for rep in range(3):        # three data sets: the shapes of the two fits must happen to agree
            try:
                bad = prior_arrays_untouched(e, seed + rep, dseed + rep)
                evals += 1
                nontriv.add((e.name, "prior-arrays", rep))
                add(bad, {"entry": e.name, "kind": "prior-arrays", "variants": [0, 0], "seed": seed + rep, "dseed": dseed + rep})
            except Exception:  # noqa: BLE001
                pass
        # using the model does not change it
        seed, dseed = ctx.rng.randrange(1 << 30), ctx.rng.randrange(1 << 30)
        try:
            for variant in (0, 1):
                bad = state_stability(e, seed, dseed, variant)
                evals += 1
                nontriv.add((e.name, "state-stability", variant))
                add(bad, {"entry": e.name, "kind": "state-stability", "variants": [variant], "seed": seed, "dseed": dseed})
        except Exception:  # noqa: BLE001
            pass
        # two fits under the same global seed agree exactly
        seed = ctx.rng.randrange(1 << 30)
        dseed = ctx.rng.randrange(1 << 30)
        evals += 1
        try:
            a, b, la, lb = history(e, (0,), seed, dseed)
            nontriv.add((e.name, "same-seed"))
            add(compare(e, a, b, la, lb, "same-global-seed"),
                {"entry": e.name, "kind": "same-seed", "variants": [0], "seed": seed, "dseed": dseed})
        except Exception:  # noqa: BLE001
            pass
        # integer random_state: independent of the global seed
        if e.name in SEEDED:
            evals += 1
            dseed = ctx.rng.randrange(1 << 30)
            s1, s2 = ctx.rng.randrange(1 << 30), ctx.rng.randrange(1 << 30)
            bad = seed_independence(e, s1, s2, dseed)
            nontriv.add((e.name, "int-random_state"))
            add(bad, {"entry": e.name, "kind": "seed-independence", "variants": [0], "seed": s1, "seed2": s2,
                      "dseed": dseed})
    # the same histories under configurations read from the current source (`_guided`): values each hyper-parameter
    # is compared with, one and two at a time.  A configuration whose fit raises is skipped (C02's business).
    expl = explain(ctx)
    rejected = {x["class"] for x in expl if isinstance(x, dict)}
    for e in _menu.build_menu():
        if e.slow and not ctx.thorough and e.cls not in rejected:
            continue
        ovs = [o for o in _guided.overrides(ctx.repo, e.cls, pairs=True, cap=40 if e.cls in rejected else ctx.pick(8, 40))
               if not any(k in OPT_OUT_PARAMS for k in o)]
        for ov in ovs:
            d = derived(e, ov)
            seed, dseed = ctx.rng.randrange(1 << 30), ctx.rng.randrange(1 << 30)
            evals += 1
            try:
                est, fresh, last, ref = history(d, (0, 1), seed, dseed)
            except Exception:  # noqa: BLE001
                continue
            nontriv.add((e.name, "guided", tuple(sorted(ov.items(), key=str))))
            if e.seeded:
                add(compare(d, est, fresh, last, ref, "refit"),
                    {"entry": e.name, "override": ov, "kind": "refit", "variants": [0, 1], "seed": seed, "dseed": dseed})
            try:
                for variant in (0, 1):
                    add(state_stability(d, seed, dseed, variant), {"entry": e.name, "override": ov, "kind": "state-stability",
                                                                   "variants": [variant], "seed": seed, "dseed": dseed})
            except Exception:  # noqa: BLE001
                pass
            if e.name in SEEDED:
                s1, s2 = ctx.rng.randrange(1 << 30), ctx.rng.randrange(1 << 30)
                try:
                    bad = seed_independence(d, s1, s2, dseed)
                except Exception:  # noqa: BLE001
                    continue
                add(bad, {"entry": e.name, "override": ov, "kind": "seed-independence", "variants": [0], "seed": s1,
                          "seed2": s2, "dseed": dseed})
    # histories with a change of hyper-parameters between two fits (pairs of menu entries of the same class)
    menu = [m for m in _menu.build_menu() if not m.slow or ctx.thorough]
    for e1 in menu:
        for e2 in menu:
            if e1 is e2 or e1.cls != e2.cls or e1.data != e2.data or not e2.seeded or e1.cls in SHARES_BY_DESIGN:
                continue
            seed = ctx.rng.randrange(1 << 30)
            dseed = ctx.rng.randrange(1 << 30)
            evals += 1
            try:
                est, fresh, last, ref = reconfigured(e1, e2, seed, dseed)
            except Exception:  # noqa: BLE001  (set_params / fit failing here is the business of C01 / C02)
                continue
            nontriv.add((e1.name, e2.name, "reconfigured"))
            # after a change of hyper-parameters only what observers return is compared: attributes that the new
            # configuration never reads (e.g. the leaf regressions of a former criterion='mselin') are not observable
            add(compare(e2, est, fresh, last, ref, "reconfigured", state=False),
                {"entry": e1.name, "entry2": e2.name, "kind": "reconfigured", "variants": [0, 1], "seed": seed, "dseed": dseed})
    late = process_snapshot(_menu.build_menu(), snap_seed, snap_dseed)
    for name in sorted(set(early) & set(late)):
        evals += 1
        if early[name] != late[name]:
            (sa, oa), (sb, ob) = early[name], late[name]
            diff = sorted(k for k in set(sa) | set(sb) if sa.get(k) != sb.get(k)) + \
                [o for (o, a), (_, b) in zip(oa, ob) if a != b]
            cls = {m.name: m.cls for m in _menu.build_menu()}[name]
            add([("%s:depends-on-earlier-calls-in-the-process:%s" % (cls, ",".join(diff[:3])),
                  "a FRESH instance fitted on the same data under the same seeds gives another model after other "
                  "estimators were fitted in the same process than before", {"differs": diff[:6]},
                  "the model depends on parameters, training set and seeds only")],
                {"entry": name, "kind": "process-order", "variants": [1], "seed": snap_seed, "dseed": snap_dseed})
    return list(vs.values()), {"evaluations": evals, "distinct_nontrivial": len(nontriv), "samples": samples,
                               "explanations_of_rejected_skeletons": expl}


def seed_independence(e, s1, s2, dseed):
    import numpy
    X, y, w = _menu.make_data(e.data, random.Random(dseed), 0)
    res = []
    for s in (s1, s2):
        est = e.factory()
        numpy.random.seed(s)
        _menu.call_fit(est, X, y, w)
        numpy.random.seed(s)
        res.append((est, observe_all(est, e, X, y, s)))
    return compare(e, res[0][0], res[1][0], res[0][1], res[1][1], "integer-random_state-vs-global-seed")


def explain(ctx):
    try:
        _, _, cases = lg.c03_cases(ctx.repo)
    except Exception as ex:  # noqa: BLE001
        return ["extractor failed: %s" % ex]
    out = []
    for cs in cases:
        e = [x for x in diag.explain_fresh(cs["prog"], cs["required"]) if "exit 'exc'" not in x[0]]
        rng = [r["site"] for r in cs["rng"] if not r["guarded"]] if cs["documents_seed"] else []
        if e or rng:
            out.append({"class": cs["class"], "rho": cs["rho"], "fresh": [str(x) for x in e],
                        "unguarded_global_rng": rng})
    return out


def replay(ctx, item):
    ctx.shadow(need_cython=True)
    import warnings
    warnings.filterwarnings("ignore")
    inp = item["input"]
    e = {m.name: m for m in _menu.build_menu()}[inp["entry"]]
    if inp.get("override"):
        e = derived(e, inp["override"])
    if inp["kind"] == "prior-arrays":
        return [Violation(k, w, inp, o, r) for k, w, o, r in prior_arrays_untouched(e, inp["seed"], inp["dseed"])]
    if inp["kind"] == "process-order":
        # replayed as: snapshot, the refit histories of the class, snapshot
        menu = [m for m in _menu.build_menu() if m.cls == e.cls]
        a = process_snapshot(menu, inp["seed"], inp["dseed"])
        for m in menu:
            for variants in ((0, 1), (1, 2), (2, 0)):
                try:
                    history(m, variants, inp["seed"] + 7, inp["dseed"] + 7)
                except Exception:  # noqa: BLE001
                    pass
        b = process_snapshot(menu, inp["seed"], inp["dseed"])
        if a.get(e.name) != b.get(e.name):
            return [Violation(item["key"], "a fresh instance fitted before and after other fits of the class differs", inp,
                              "differs", "identical")]
        return []
    if inp["kind"] == "state-stability":
        bad = state_stability(e, inp["seed"], inp["dseed"], inp["variants"][0])
    elif inp["kind"] == "seed-independence":
        bad = seed_independence(e, inp["seed"], inp["seed2"], inp["dseed"])
    elif inp["kind"] == "shared-components":
        bad, _ = shared_components(e, inp["seed"], inp["dseed"])
    elif inp["kind"] == "reconfigured":
        e2 = {m.name: m for m in _menu.build_menu()}[inp["entry2"]]
        est, fresh, last, ref = reconfigured(e, e2, inp["seed"], inp["dseed"])
        bad = compare(e2, est, fresh, last, ref, "reconfigured", state=False)
    else:
        try:
            est, fresh, last, ref = history(e, tuple(inp["variants"]), inp["seed"], inp["dseed"], failing=inp.get("failing"),
                                            corrected=bool(inp.get("corrected")))
        except Exception as ex:  # noqa: BLE001
            if not inp.get("failing"):
                raise
            return [Violation(k, w, inp, o, r)
                    for k, w, o, r in failed_history_raises(e, inp["seed"], inp["dseed"], inp["failing"], ex)]
        bad = compare(e, est, fresh, last, ref, ("refit-after-failed-fit" if inp.get("failing") else
                                                 "refit-on-corrected-copy" if inp.get("corrected") else "refit")
                      if inp["kind"] == "refit" else "same-global-seed")
    return [Violation(k, w, inp, o, r) for k, w, o, r in bad]
