"""C15 — learner-to-transformer wrappers are transparent."""
import ast

from core import Corr, Violation, run_driver
from extract import pyexpr

ID = "C15"
#: functions the hand-written model transcribes: their control skeleton (extract/shape.py) is regenerated into
#: Gen/C15.lean and compared with the literal in Properties/C15.lean (`modelled_functions_have_the_transcribed_shape`)
SHAPES = [
    ("shapeTransferFit", "mlinsights/mlmodel/transfer_transformer.py", "TransferTransformer.fit", "full"),
    ("shapeTransferInit", "mlinsights/mlmodel/transfer_transformer.py", "TransferTransformer.__init__"),
]
LEAN_TARGETS = ["MlVerif.Gen.C15", "MlVerif.Model.Wrappers", "MlVerif.Lemmas.Wrappers", "MlVerif.Properties.C15"]
PROPERTY_FILE = "MlVerif/Properties/C15.lean"
DRIVER = "Drivers/C15.lean"
TRUSTED = [
    "the wrapped models are external components: what their methods return is a parameter of the model (`Beh`); the "
    "recording estimators of the harness compute an exact integer function of (hyper-parameter, last fit call, method, batch)",
    "clone_with_fitted_parameters / sklearn.base.clone / copy.deepcopy are modelled as a deep copy of the record under a "
    "fresh id (validated on the recording models by the correspondence run, not verified)",
    "numpy.hstack on 2-D blocks with equal row counts is row-wise concatenation; res[:, numpy.newaxis] turns a 1-D result "
    "into one column",
    "inspect.signature(est.fit).parameters as a pair of flags (has y, has sample_weight)",
]
ASSUMPTIONS = [
    "stacking members are learners, raw models or transformers (a stacking inside a stacking and a learner wrapping a "
    "learner are covered by C01's protocol model, not by this data-flow model)",
    "'exactly as a direct fit would': the wrapped model receives exactly one fit call per wrapper fit, with the same X, y "
    "and keyword arguments (y passed as the keyword y=..., as the source does)",
    "assert_estimator_equal is the self-check of TransferTransformer.fit; it is modelled as a no-op when the copy is faithful, "
    "and its false alarms on objects without value equality (D23) are found by the search on real trees",
]
RULE = ("recording models for every method (predict, predict_proba, decision_function, transform, callable) and every fit "
        "signature; random histories of fit / transform / set_params(model=) on learners, stackings (1-6 members, reuse vs wrap) "
        "and transfer transformers (copy x trainable); outputs, fit logs and before/after snapshots of every wrapped object are "
        "compared with the model after every op. Non-trivial = the op reaches a wrapped model; distinct = (wrapper, op, method, flags)")
LEVEL_TEXT = ("Lean proofs for every store, batch and history: a learner's transform is the selected method's output of its current "
              "model as a 2-D block, a stacking's transform is the ordered row-wise concatenation, each wrapper fit is exactly one "
              "fit(X, y=y, **kw) per wrapped model, a transfer returns the fitted target's output, leaves it frozen unless trainable and "
              "with copy_estimator only ever writes ids allocated after the call started. Dispatch tables and guards are regenerated.")
LEVEL_NOTE = "partial: clone_with_fitted_parameters is modelled as a deep copy; wrapped models' numerics are parameters"
TECHNIQUE = ("Lean 4 proof (store frame lemmas, induction over member lists and histories) + AST-regenerated dispatch tables / guards "
             "+ differential correspondence with recording models")

LEARNER = "mlinsights/sklapi/sklearn_base_transform_learner.py"
STACKING = "mlinsights/sklapi/sklearn_base_transform_stacking.py"
TRANSFER = "mlinsights/mlmodel/transfer_transformer.py"


# ------------------------------------------------------------------------------ extractor

def _s(node):
    return node.value if isinstance(node, ast.Constant) and isinstance(node.value, str) else None


def lstr(xs):
    return "[" + ", ".join('"%s"' % x for x in xs) + "]"


def _body(fn):
    """normalised statements of a function body (docstring dropped)"""
    return [ast.unparse(st) for st in fn.body if not (isinstance(st, ast.Expr) and isinstance(st.value, ast.Constant))]


def extract(ctx):
    lt = ast.parse(ctx.source(LEARNER))
    sm = pyexpr.find_function(lt, "SkBaseTransformLearner._set_method")
    # dispatch table: `method == "<name>"` -> `self.method_ = self.model.<attr>`
    table = []
    for n in ast.walk(sm):
        if isinstance(n, ast.If) and isinstance(n.test, ast.Compare) and len(n.test.ops) == 1 \
                and isinstance(n.test.ops[0], ast.Eq) and ast.unparse(n.test.left) == "method" \
                and _s(n.test.comparators[0]) is not None and len(n.body) == 1 and isinstance(n.body[0], ast.Assign):
            tgt, val = n.body[0].targets[0], n.body[0].value
            if ast.unparse(tgt) == "self.method_" and isinstance(val, ast.Attribute) and ast.unparse(val.value) == "self.model":
                table.append((n.lineno, _s(n.test.comparators[0]), val.attr))
            else:
                table.append((n.lineno, _s(n.test.comparators[0]), "?" + ast.unparse(val)[:30].replace('"', "'")))
    table = [(a, b) for _, a, b in sorted(table)]
    callable_ok = any(isinstance(n, ast.If) and ast.unparse(n.test) == "callable(method)" and
                      ast.unparse(n.body[0]) == "self.method_ = method" for n in ast.walk(sm))
    init = pyexpr.find_function(lt, "SkBaseTransformLearner.__init__")
    order, last_wins = [], True
    for n in ast.walk(init):
        if isinstance(n, ast.For) and isinstance(n.iter, ast.List) and all(_s(e) is not None for e in n.iter.elts):
            order = [_s(e) for e in n.iter.elts]
            last_wins = not any(isinstance(b, ast.Break) for b in ast.walk(n))
    lfit = pyexpr.find_function(lt, "SkBaseTransformLearner.fit")
    fit_calls = [c for c in ast.walk(lfit) if isinstance(c, ast.Call) and ast.unparse(c.func) == "self.model.fit"]
    l_fit_ok = _body(lfit) == ["self.model.fit(X, y=y, **kwargs)", "return self"] and \
        len(fit_calls) == 1 and [ast.unparse(a) for a in fit_calls[0].args] == ["X"] and \
        sorted((k.arg or "**", ast.unparse(k.value)) for k in fit_calls[0].keywords) == [("**", "kwargs"), ("y", "y")]
    l_fit_ykw = len(fit_calls) == 1 and any(k.arg == "y" for k in fit_calls[0].keywords)
    ltr = pyexpr.find_function(lt, "SkBaseTransformLearner.transform")
    src = ast.unparse(ltr)
    # the wrappers are three-line methods: the model transcribes them statement for statement, so the whole body counts
    reshapes = _body(ltr) == ["res = self.method_(X)", "if len(res.shape) == 1:\n    res = res[:, numpy.newaxis]", "return res"]
    lset = pyexpr.find_function(lt, "SkBaseTransformLearner.set_params")
    # is `_set_method` called on every path (a top-level statement of set_params), i.e. also when only `model` is given?
    rebinds = any(isinstance(s, ast.Expr) and isinstance(s.value, ast.Call) and ast.unparse(s.value.func) == "self._set_method"
                  for s in lset.body)

    st = ast.parse(ctx.source(STACKING))
    sfit = pyexpr.find_function(st, "SkBaseTransformStacking.fit")
    sf = [c for c in ast.walk(sfit) if isinstance(c, ast.Call) and ast.unparse(c.func) == "m.fit"]
    s_fit_ok = _body(sfit) == ["for m in self.models:\n    m.fit(X, y=y, **kwargs)", "return self"] and \
        len(sf) == 1 and [ast.unparse(a) for a in sf[0].args] == ["X"] and \
        sorted((k.arg or "**", ast.unparse(k.value)) for k in sf[0].keywords) == [("**", "kwargs"), ("y", "y")] and \
        any(isinstance(n, ast.For) and ast.unparse(n.iter) == "self.models" for n in ast.walk(sfit))
    s_fit_ykw = len(sf) == 1 and any(k.arg == "y" for k in sf[0].keywords)
    str_ = ast.unparse(pyexpr.find_function(st, "SkBaseTransformStacking.transform"))
    hstack = _body(pyexpr.find_function(st, "SkBaseTransformStacking.transform")) == \
        ["Xs = [m.transform(X) for m in self.models]", "return numpy.hstack(Xs)"]
    sinit = pyexpr.find_function(st, "SkBaseTransformStacking.__init__")
    conv = pyexpr.find_function(sinit, "convert2transform")
    rewraps = False
    for n in ast.walk(conv):
        if isinstance(n, ast.If) and ast.unparse(n.test) == "isinstance(m, SkBaseTransformLearner)":
            rewraps = any(isinstance(c, ast.Call) and ast.unparse(c.func) == "SkBaseTransformLearner" for b in n.body
                          for c in ast.walk(b))

    tt = ast.parse(ctx.source(TRANSFER))
    tinit = pyexpr.find_function(tt, "TransferTransformer.__init__")
    torder = []
    for n in ast.walk(tinit):
        if isinstance(n, ast.If) and isinstance(n.test, ast.Call) and ast.unparse(n.test.func) == "hasattr" \
                and len(n.test.args) == 2 and ast.unparse(n.test.args[0]) == "estimator" and _s(n.test.args[1]):
            if len(n.body) == 1 and isinstance(n.body[0], ast.Assign) and _s(n.body[0].value) == _s(n.test.args[1]):
                torder.append((n.lineno, _s(n.test.args[1])))
    torder = [a for _, a in sorted(torder)]
    tfit = pyexpr.find_function(tt, "TransferTransformer.fit")
    guard = False
    copy_branch = False
    fit_target_ok = True
    for n in tfit.body:
        if isinstance(n, ast.If) and ast.unparse(n.test) == "self.trainable":
            calls = [c for c in ast.walk(n) if isinstance(c, ast.Call) and ast.unparse(c.func).endswith(".fit")]
            guard = len(calls) >= 1
            fit_target_ok = all(ast.unparse(c.func) == "self.estimator_.fit" for c in calls)
        if isinstance(n, ast.If) and ast.unparse(n.test) == "self.copy_estimator":
            a = [ast.unparse(b) for b in n.body if isinstance(b, ast.Assign)]
            o = [ast.unparse(b) for b in n.orelse if isinstance(b, ast.Assign)]
            copy_branch = ("self.estimator_ = clone_with_fitted_parameters(self.estimator)" in a
                           and o == ["self.estimator_ = self.estimator"])
    unguarded = [c for n in tfit.body if not isinstance(n, ast.If) for c in ast.walk(n)
                 if isinstance(c, ast.Call) and ast.unparse(c.func).endswith(".fit")]
    ttr = ast.unparse(pyexpr.find_function(tt, "TransferTransformer.transform"))
    t_transform_ok = _body(pyexpr.find_function(tt, "TransferTransformer.transform")) == \
        ["meth = getattr(self.estimator_, self.method)", "return meth(X)"]

    b = lambda x: "true" if x else "false"
    body = pyexpr.HEADER + """import MlVerif.Gen.Base
namespace MlVerif.Gen.C15

/-- `_set_method`: (value of `method`, attribute of `self.model` bound to `method_`), in source order -/
def setMethodTable : List (String × String) := [%s]
/-- `elif callable(method): self.method_ = method` -/
def setMethodAcceptsCallable : Bool := %s
/-- `SkBaseTransformLearner.__init__`, method=None: `for name in [...]: if hasattr(model.__class__, name): method = name` -/
def learnerDefaultOrder : List String := %s
/-- no `break` in that loop: the last candidate the class has wins -/
def learnerDefaultLastWins : Bool := %s
/-- `fit` is exactly `self.model.fit(X, y=y, **kwargs)` -/
def learnerFitIsDirect : Bool := %s
def learnerFitYKeyword : Bool := %s
/-- `transform`: `res = self.method_(X)`, a 1-D result becomes `res[:, numpy.newaxis]` -/
def learnerReshapes1D : Bool := %s
/-- `set_params` calls `_set_method` on every path (so `method_` follows `set_params(model=...)`) -/
def learnerSetParamsRebinds : Bool := %s
/-- `SkBaseTransformStacking.fit` is `for m in self.models: m.fit(X, y=y, **kwargs)` -/
def stackingFitIsDirect : Bool := %s
def stackingFitYKeyword : Bool := %s
/-- `transform` is `numpy.hstack([m.transform(X) for m in self.models])` -/
def stackingHstackInOrder : Bool := %s
/-- `convert2transform` builds a new learner for a member that already is an SkBaseTransformLearner -/
def stackingRewrapsLearners : Bool := %s
/-- `TransferTransformer.__init__`, method=None: `if/elif hasattr(estimator, name): method = name` chain -/
def transferDefaultOrder : List String := %s
/-- every `fit` call of `TransferTransformer.fit` is under `if self.trainable:` -/
def transferTrainableGuard : Bool := %s
/-- `if self.copy_estimator: estimator_ = clone_with_fitted_parameters(estimator) else: estimator_ = estimator` -/
def transferCopyBranch : Bool := %s
/-- the object that is (re)fitted is `self.estimator_` (never `self.estimator`) -/
def transferFitsTarget : Bool := %s
/-- `transform` is `getattr(self.estimator_, self.method)(X)` -/
def transferTransformIsMethod : Bool := %s

end MlVerif.Gen.C15
""" % (", ".join('("%s", "%s")' % t for t in table), b(callable_ok), lstr(order), b(last_wins), b(l_fit_ok), b(l_fit_ykw),
       b(reshapes), b(rebinds), b(s_fit_ok), b(s_fit_ykw), b(hstack), b(rewraps), lstr(torder),
       b(guard and not unguarded), b(copy_branch), b(fit_target_ok), b(t_transform_ok))
    return {"MlVerif/Gen/C15.lean": body}


# ------------------------------------------------------------------------------ recording models

CAPS = ["predict", "decision_function", "predict_proba", "transform"]
OFFSET = {"predict": 0, "decision_function": 1000, "predict_proba": 2000, "transform": 3000}
_CLASSES = {}


def rec_class(caps, sig):
    """A recording estimator class with the given methods; `sig` in {'gen', 'yw', 'y', 'w', 'x'} is the shape of fit."""
    from sklearn.base import BaseEstimator
    import numpy
    key = (tuple(caps), sig)
    if key in _CLASSES:
        return _CLASSES[key]

    def __init__(self, a=1):
        self.a = a

    def _record(self, X, y, yk, kw):
        call = ([[int(v) for v in row] for row in numpy.asarray(X)], None if y is None else [int(v) for v in y], bool(yk),
                [(k, [] if v is None else [int(t) for t in v]) for k, v in kw])
        self.log_ = list(getattr(self, "log_", [])) + [call]
        # a fitted array updated IN PLACE (as partial_fit / warm-started solvers do): a copy of this model must own its own
        if not hasattr(self, "acc_"):
            self.acc_ = numpy.zeros(2, dtype=numpy.float64)
        self.acc_ += numpy.array([1.0, float(len(call[0]))])
        return self

    if sig == "gen":
        def fit(self, X, **kwargs):
            return _record(self, X, kwargs.get("y"), "y" in kwargs, [(k, v) for k, v in kwargs.items() if k != "y"])
    elif sig == "yw":
        def fit(self, X, y=None, sample_weight=None):
            return _record(self, X, y, False, [("sample_weight", sample_weight)])
    elif sig == "y":
        def fit(self, X, y=None):
            return _record(self, X, y, False, [])
    elif sig == "w":
        def fit(self, X, sample_weight=None):
            return _record(self, X, None, False, [("sample_weight", sample_weight)])
    else:
        def fit(self, X):
            return _record(self, X, None, False, [])

    def _base(self, X, attr):
        X = numpy.asarray(X).astype(numpy.int64)
        log = getattr(self, "log_", [])
        sig_ = 0
        if log:
            last = log[-1]
            sig_ = len(last[0]) + ((sum(last[1]) % 97) if last[1] is not None else 50)
        return X.sum(axis=1) * self.a + OFFSET[attr] + sig_

    ns = {"__init__": __init__, "fit": fit}
    if "predict" in caps:
        ns["predict"] = lambda self, X: _base(self, X, "predict")
    if "decision_function" in caps:
        ns["decision_function"] = lambda self, X: _base(self, X, "decision_function")
    if "predict_proba" in caps:
        ns["predict_proba"] = lambda self, X: numpy.stack([_base(self, X, "predict_proba"),
                                                           _base(self, X, "predict_proba") + 1], axis=1)
    if "transform" in caps:
        ns["transform"] = lambda self, X: numpy.stack([_base(self, X, "transform"), -_base(self, X, "transform")], axis=1)
    name = "Rec_" + "".join(c[0] + c[-1] for c in caps) + "_" + sig
    cls = type(name, (BaseEstimator,), ns)
    cls.__module__ = __name__
    globals()[name] = cls
    _CLASSES[key] = cls
    return cls


def call_col(X):
    import numpy
    return numpy.asarray(X).astype(numpy.int64).sum(axis=1) + 7


def call_two(X):
    import numpy
    X = numpy.asarray(X).astype(numpy.int64)
    return numpy.stack([X.sum(axis=1), numpy.ones(len(X), dtype=numpy.int64)], axis=1)


CALLABLES = {"col": call_col, "two": call_two}


def fmt_mat(X):
    return ";".join(",".join(str(int(v)) for v in row) for row in X)


def fmt_vec(v):
    return "none" if v is None else (",".join(str(int(t)) for t in v) if len(v) else "-")


def fmt_out(r):
    import numpy
    r = numpy.asarray(r)
    if r.ndim == 1:
        return "v:" + (",".join(str(int(v)) for v in r) if len(r) else "-")
    return "m:" + fmt_mat(r)


def fmt_call(c):
    X, y, yk, kw = c
    return "X=%s/y=%s/yk=%d/kw=%s" % (fmt_mat(X), "none" if y is None else (",".join(map(str, y)) if y else "-"), 1 if yk else 0,
                                     "&".join("%s=%s" % (k, ",".join(map(str, v)) if v else "-") for k, v in kw) if kw else "-")


class World:
    """real objects with alias ids in allocation order"""

    def __init__(self):
        self.objs = []

    def add(self, o):
        self.objs.append(o)
        return len(self.objs) - 1

    def id_of(self, o):
        for i, x in enumerate(self.objs):
            if x is o:
                return i
        return None

    def snapshot(self):
        out = []
        for i, o in enumerate(self.objs):
            if type(o).__name__.startswith("Rec_"):
                out.append("%d:%s:%d:[%s]" % (i, type(o).__name__, o.a, " , ".join(fmt_call(c) for c in getattr(o, "log_", []))))
        return " ".join(out)


def err(e):
    n = type(e).__name__
    return "err " + (n if n in ("AttributeError", "ValueError", "TypeError", "AssertionError") else "Other:" + n)


def rand_X(rng, rows=None):
    r = rows or rng.randint(1, 4)
    c = rng.randint(1, 3)
    return [[rng.randint(-5, 9) for _ in range(c)] for _ in range(r)]


def gen_scenario(rng, n_ops):
    """Build and run one scenario on the real code; returns (tokens, expected outputs, op kinds)."""
    import numpy
    from mlinsights.sklapi import SkBaseTransformLearner, SkBaseTransformStacking
    from mlinsights.mlmodel import TransferTransformer
    W = World()
    toks, exp, kinds = [], [], []
    models, learners, stackings, transfers = [], [], [], []
    n_models = rng.randint(2, 6)
    for mi in range(n_models):
        caps = [c for c in CAPS if rng.random() < 0.55]
        sig = "gen" if mi < 2 else rng.choice(["gen", "gen", "gen", "yw", "y", "w", "x"])
        a = rng.randint(1, 4)
        m = rec_class(caps, sig)(a=a)
        i = W.add(m)
        models.append(i)
        toks += ["M", type(m).__name__, ",".join(caps) or "-", "1" if sig in ("yw", "y") else "0",
                 "1" if sig in ("yw", "w") else "0", str(a)]
        exp.append("new %d" % i)
        kinds.append("new-model")

    def sig_of(i):
        return type(W.objs[i]).__name__.rsplit("_", 1)[1]

    def caps_of(i):
        return [c for c in CAPS if hasattr(W.objs[i], c)]

    def fit_args(i, X, y):
        """a direct fit the model's signature accepts: (call kwargs, recorded yk, recorded kw)"""
        s = sig_of(i)
        if s == "gen":
            return dict(y=y), 1, "-"
        if s == "yw":
            return dict(y=y), 0, "sample_weight=-"
        if s == "y":
            return dict(y=y), 0, "-"
        if s == "w":
            return {}, 0, "sample_weight=-"
        return {}, 0, "-"

    for stepno in range(n_ops):
        r = rng.random()
        X = rand_X(rng)
        y = [rng.randint(-3, 12) for _ in X]
        Xa = numpy.array(X, dtype=numpy.int64)
        ya = numpy.array(y, dtype=numpy.int64)
        mark = (len(toks), len(exp), len(kinds))
        try:
            if r < 0.08:
                i = rng.choice(models)
                kwargs, yk, kw = fit_args(i, X, y)
                W.objs[i].fit(Xa, **{k: ya for k in kwargs})
                yy = fmt_vec(y) if kwargs else "none"
                toks += ["MF", str(i), fmt_mat(X), yy, str(yk), kw]
                exp.append("ok # " + W.snapshot())
                kinds.append("model-fit")
            elif r < (0.30 if stepno < 4 else 0.13):
                gens = [i for i in models if sig_of(i) == "gen"]
                i = rng.choice(gens)
                spec = rng.choice(["-", "-"] + ["n:" + c for c in CAPS] + ["n:bogus", "c:col", "c:two"])
                meth = None if spec == "-" else (spec[2:] if spec[0] == "n" else CALLABLES[spec[2:]])
                toks += ["NL", str(i), spec]
                try:
                    w = SkBaseTransformLearner(W.objs[i], meth)
                    j = W.add(w)
                    learners.append(j)
                    exp.append("new %d %s" % (j, ("n:" + w.method) if isinstance(w.method, str) else spec))
                    kinds.append("new-learner:" + ("default" if spec == "-" else spec[:1]))
                except Exception as e:
                    exp.append(err(e))
                    kinds.append("new-learner-err")
            elif r < (0.50 if stepno < 6 else 0.19):
                pool = [i for i in models if sig_of(i) == "gen"] + learners
                if not pool:
                    continue
                k = rng.randint(1, min(6, len(pool)))
                ids = rng.sample(pool, k)
                method = rng.choice(["predict", "predict", "predict_proba", "decision_function"])
                toks += ["NS", str(len(ids))] + [str(i) for i in ids] + [method]
                try:
                    s = SkBaseTransformStacking([W.objs[i] for i in ids], method)
                    for m in s.models:
                        if W.id_of(m) is None:
                            learners.append(W.add(m))
                    j = W.add(s)
                    stackings.append(j)
                    exp.append("new %d members=%s" % (j, ",".join(str(W.id_of(m)) for m in s.models)))
                    kinds.append("new-stacking:%s" % ("wrap" if len(W.objs) - 1 - j or any(W.id_of(m) not in ids for m in s.models) else "reuse"))
                except Exception as e:
                    exp.append(err(e))
                    kinds.append("new-stacking-err")
            elif r < (0.70 if stepno < 6 else 0.26):
                i = rng.choice(models)
                spec = rng.choice(["-", "-"] + ["n:" + c for c in CAPS])
                cp, tr = rng.random() < 0.6, rng.random() < 0.5
                toks += ["NT", str(i), spec, "1" if cp else "0", "1" if tr else "0"]
                try:
                    t = TransferTransformer(W.objs[i], None if spec == "-" else spec[2:], copy_estimator=cp, trainable=tr)
                    j = W.add(t)
                    transfers.append(j)
                    exp.append("new %d %s" % (j, t.method))
                    kinds.append("new-transfer:copy=%d,trainable=%d" % (cp, tr))
                except Exception as e:
                    exp.append(err(e))
                    kinds.append("new-transfer-err")
            elif r < 0.48 and learners:
                j = rng.choice(learners)
                w = W.objs[j]
                if rng.random() < 0.5:
                    kw = {"sample_weight": numpy.array([rng.randint(1, 3) for _ in X])} if rng.random() < 0.3 else {}
                    toks += ["LF", str(j), fmt_mat(X), fmt_vec(y),
                             "&".join("%s=%s" % (k, fmt_vec(v)) for k, v in kw.items()) or "-"]
                    try:
                        ret = w.fit(Xa, ya, **kw)
                        exp.append(("ok" if ret is w else "not-self") + " # " + W.snapshot())
                        kinds.append("learner-fit")
                    except Exception as e:
                        exp.append(err(e) + " # " + W.snapshot())
                        kinds.append("learner-fit-err")
                else:
                    toks += ["LT", str(j), fmt_mat(X)]
                    try:
                        exp.append(fmt_out(w.transform(Xa)) + " # " + W.snapshot())
                        kinds.append("learner-transform:%s" % (w.method if isinstance(w.method, str) else "callable"))
                    except Exception as e:
                        exp.append(err(e) + " # " + W.snapshot())
                        kinds.append("learner-transform-err")
            elif r < 0.56 and learners:
                j = rng.choice(learners)
                w = W.objs[j]
                need = w.method if isinstance(w.method, str) else None
                cands = [i for i in models if sig_of(i) == "gen" and (need is None or need in caps_of(i))]
                if not cands:
                    continue
                i = rng.choice(cands)
                toks += ["LM", str(j), str(i)]
                w.set_params(model=W.objs[i])
                exp.append("ok # " + W.snapshot())
                kinds.append("learner-set-model")
            elif r < 0.80 and stackings:
                j = rng.choice(stackings)
                s = W.objs[j]
                if rng.random() < 0.5:
                    toks += ["SF", str(j), fmt_mat(X), fmt_vec(y), "-"]
                    try:
                        ret = s.fit(Xa, ya)
                        exp.append(("ok" if ret is s else "not-self") + " # " + W.snapshot())
                        kinds.append("stacking-fit:%d" % len(s.models))
                    except Exception as e:
                        exp.append(err(e) + " # " + W.snapshot())
                        kinds.append("stacking-fit-err")
                else:
                    toks += ["ST", str(j), fmt_mat(X)]
                    try:
                        exp.append(fmt_out(s.transform(Xa)) + " # " + W.snapshot())
                        kinds.append("stacking-transform:%d" % len(s.models))
                    except Exception as e:
                        exp.append(err(e) + " # " + W.snapshot())
                        kinds.append("stacking-transform-err")
            elif transfers:
                j = rng.choice(transfers)
                t = W.objs[j]
                if rng.random() < 0.5:
                    w = [rng.randint(1, 3) for _ in X] if rng.random() < 0.4 else None
                    toks += ["TF", str(j), fmt_mat(X), fmt_vec(y), fmt_vec(w)]
                    try:
                        ret = t.fit(Xa, ya, None if w is None else numpy.array(w))
                        if W.id_of(t.estimator_) is None:
                            W.add(t.estimator_)
                        exp.append(("ok" if ret is t else "not-self") + " # " + W.snapshot())
                        kinds.append("transfer-fit:copy=%d,trainable=%d" % (t.copy_estimator, t.trainable))
                    except Exception as e:
                        exp.append(err(e) + " # " + W.snapshot())
                        kinds.append("transfer-fit-err")
                else:
                    toks += ["TT", str(j), fmt_mat(X)]
                    try:
                        exp.append(fmt_out(t.transform(Xa)) + " # " + W.snapshot())
                        kinds.append("transfer-transform:" + t.method)
                    except Exception as e:
                        exp.append(err(e) + " # " + W.snapshot())
                        kinds.append("transfer-transform-err")
        except Exception as e:   # an operation the generator believed valid raised: drop it and end the scenario
            del toks[mark[0]:], exp[mark[1]:], kinds[mark[2]:]
            kinds.append("aborted:" + type(e).__name__)
            break
    return toks, exp, kinds


def correspond(ctx):
    ctx.shadow(need_cython=True)
    import warnings
    warnings.filterwarnings("ignore")
    corr = Corr()
    corr.rule = RULE
    rng = ctx.rng
    lines, cases = ["tables"], [("tables", None, None)]
    for t in range(ctx.pick(600, 12000)):
        toks, exp, kinds = gen_scenario(rng, rng.randint(6, ctx.pick(14, 40)))
        lines.append("scn " + "|".join(toks))
        cases.append(("scn", exp, kinds))
    out = run_driver(DRIVER, lines)
    from mlinsights.sklapi import SkBaseTransformLearner
    for (kind, exp, kinds), got in zip(cases, out):
        if kind == "tables":
            corr.case(("tables",), nontrivial=True, sample={"op": "tables", "model": got})
            continue
        got_l = got.split(" ## ")
        if kinds and kinds[-1].startswith("aborted:"):
            corr.hit(kinds[-1])
            corr.errors.append("scenario aborted: an operation valid by construction raised %s after %s"
                               % (kinds[-1][8:], kinds[-4:-1])) if len(corr.errors) < 3 else None
        for j, want in enumerate(exp):
            g = got_l[j] if j < len(got_l) else "<missing>"
            k = kinds[j]
            corr.case((k, want), nontrivial=not k.startswith("new-model"),
                      sample={"op": k, "impl": want[:200]} if k.startswith(("stacking-transform", "transfer-fit")) else None)
            corr.hit(k.split(":")[0])
            if ":" in k:
                corr.hit(k)
            if g != want:
                corr.disagree(k, {"history": kinds[: j + 1]}, g[:500], want[:500])
                break
    return corr


# ------------------------------------------------------------------------------ search (oracle from the statement)

def as2d(r):
    import numpy
    r = numpy.asarray(r)
    return r[:, numpy.newaxis] if r.ndim == 1 else r


def same_arr(a, b):
    import numpy
    a, b = numpy.asarray(a), numpy.asarray(b)
    return a.shape == b.shape and bool((a == b).all())


def snap(m):
    """observable state of a wrapped model: parameters, fit log, predictions on a probe batch"""
    import numpy
    probe = numpy.array([[1, 2], [3, -1], [0, 5]], dtype=numpy.int64)
    out = {"a": m.a, "log": [fmt_call(c) for c in getattr(m, "log_", [])],
           "acc": numpy.asarray(getattr(m, "acc_", [])).tolist()}
    for c in CAPS:
        if hasattr(m, c):
            out[c] = numpy.asarray(getattr(m, c)(probe)).tolist()
    return out


def _check_learner(rng, vs, stats):
    import copy
    import numpy
    from mlinsights.sklapi import SkBaseTransformLearner
    caps = [c for c in CAPS if rng.random() < 0.6] or ["predict"]
    m = rec_class(caps, "gen")(a=rng.randint(1, 4))
    spec = rng.choice([None] + caps + ["col", "two"])
    meth = CALLABLES.get(spec, spec)
    w = SkBaseTransformLearner(m, meth)
    hist = []
    inp = {"kind": "learner", "caps": caps, "method": spec if spec else "None", "a": m.a}
    for stepno in range(rng.randint(1, 6)):
        X = numpy.array(rand_X(rng), dtype=numpy.int64)
        y = numpy.array([rng.randint(-3, 12) for _ in X], dtype=numpy.int64)
        if rng.random() < 0.5:
            kw = {"sample_weight": numpy.ones(len(X), dtype=numpy.int64)} if rng.random() < 0.3 else {}
            twin = copy.deepcopy(m)
            twin.fit(X, y=y, **kw)
            ret = w.fit(X, y, **kw)
            hist.append("fit")
            stats["evaluations"] += 1
            if ret is not w:
                vs.append(Violation("SkBaseTransformLearner.fit:returns-not-self", "fit does not return self", dict(inp, history=list(hist)),
                                    repr(ret)[:40], "self"))
            if snap(m) != snap(twin):
                vs.append(Violation("SkBaseTransformLearner.fit:not-a-direct-fit", "the wrapped model is not trained as a direct "
                                    "fit(X, y=y, **kw) would train it", dict(inp, history=list(hist)), snap(m)["log"][-2:],
                                    snap(twin)["log"][-2:]))
                return
        else:
            hist.append("transform")
            stats["evaluations"] += 1
            got = w.transform(X)
            want = as2d(meth(X) if callable(meth) else getattr(m, w.method)(X))
            if not same_arr(got, want) or numpy.asarray(got).ndim != 2:
                vs.append(Violation("SkBaseTransformLearner.transform:not-method-output", "transform differs from the chosen method's "
                                    "output as a 2-D array", dict(inp, history=list(hist)), numpy.asarray(got).tolist(), want.tolist()))
                return
    # set_params(model=other): the wrapper must now be transparent for the model it reports
    if isinstance(w.method, str):
        other = rec_class(caps, "gen")(a=m.a + 3)
        X = numpy.array(rand_X(rng), dtype=numpy.int64)
        try:
            w.set_params(model=other)
            got = w.transform(X)
        except Exception as e:
            vs.append(Violation("SkBaseTransformLearner.set_params:raises-on-model", "set_params(model=...) raises", inp,
                                "%s: %s" % (type(e).__name__, str(e)[:80]), "the model is replaced"))
            return
        stats["evaluations"] += 1
        want = as2d(getattr(w.get_params(deep=False)["model"], w.method)(X))
        if not same_arr(got, want):
            vs.append(Violation("SkBaseTransformLearner.set_params:method_-bound-to-old-model",
                                "after set_params(model=m) transform is not the output of the model the wrapper reports",
                                dict(inp, history=hist + ["set_params(model)", "transform"]), numpy.asarray(got).tolist(), want.tolist()))
    stats["nontrivial"].add(("learner", tuple(caps), spec))


def _check_stacking(rng, vs, stats):
    import copy
    import numpy
    from mlinsights.sklapi import SkBaseTransformLearner, SkBaseTransformStacking
    k = rng.randint(1, 6)
    method = rng.choice(["predict", "predict_proba", "decision_function"])
    members, inner = [], []
    for i in range(k):
        q = rng.random()
        if q < 0.5:
            m = rec_class([method] + ([c for c in CAPS if c != "transform" and rng.random() < 0.3]), "gen")(a=i + 1)
            members.append(m)
            inner.append((m, method))
        elif q < 0.75:
            m = rec_class(["transform"], "gen")(a=i + 1)
            members.append(m)
            inner.append((m, "transform"))
        else:
            me = rng.choice(CAPS[:3])
            m = rec_class([me, method], "gen")(a=i + 1)
            members.append(SkBaseTransformLearner(m, me))
            inner.append((m, me))
    inp = {"kind": "stacking", "method": method, "members": ["%s:%s" % (type(m).__name__, me) for m, me in inner]}
    s = SkBaseTransformStacking(members, method)
    # which method does each member end up using? (reuse vs wrap) -- read it from the object the stacking holds
    used = []
    for obj, (m, me) in zip(s.models, inner):
        used.append((m, obj.method if isinstance(obj, SkBaseTransformLearner) else "transform"))
    hist = []
    for stepno in range(rng.randint(1, 5)):
        X = numpy.array(rand_X(rng), dtype=numpy.int64)
        y = numpy.array([rng.randint(-3, 12) for _ in X], dtype=numpy.int64)
        if rng.random() < 0.5:
            twins = [copy.deepcopy(m) for m, _ in inner]
            kw = {}
            if rng.random() < 0.5:      # fit parameters must reach every wrapped model, as in a direct fit
                kw = {"sample_weight": numpy.array([rng.randint(1, 5) for _ in X], dtype=numpy.int64)}
            for t in twins:
                t.fit(X, y=y, **kw)
            s.fit(X, y, **kw)
            hist.append("fit" + ("+sample_weight" if kw else ""))
            stats["evaluations"] += 1
            bad = [i for i, ((m, _), t) in enumerate(zip(inner, twins)) if snap(m) != snap(t)]
            if bad:
                vs.append(Violation("SkBaseTransformStacking.fit:not-a-direct-fit", "a member is not trained exactly as one direct "
                                    "fit(X, y=y) would train it", dict(inp, history=list(hist)), {"members": bad}, "one fit per member"))
                return
        else:
            hist.append("transform")
            stats["evaluations"] += 1
            got = s.transform(X)
            want = numpy.hstack([as2d(getattr(m, me)(X)) for m, me in used])
            if not same_arr(got, want):
                vs.append(Violation("SkBaseTransformStacking.transform:not-concatenation", "transform is not the column "
                                    "concatenation of the members' outputs in order", dict(inp, history=list(hist)),
                                    numpy.asarray(got).tolist(), want.tolist()))
                return
    stats["nontrivial"].add(("stacking", k, method))


def _check_transfer(rng, vs, stats):
    import numpy
    from mlinsights.mlmodel import TransferTransformer
    caps = [c for c in CAPS if rng.random() < 0.6] or ["predict"]
    sig = rng.choice(["gen", "yw", "y", "w", "x"])
    m = rec_class(caps, sig)(a=rng.randint(1, 4))
    X0 = numpy.array(rand_X(rng), dtype=numpy.int64)
    y0 = numpy.array([rng.randint(0, 5) for _ in X0], dtype=numpy.int64)
    m.fit(X0, **({"y": y0} if sig in ("gen", "yw", "y") else {}))
    cp, tr = rng.random() < 0.6, rng.random() < 0.5
    spec = rng.choice([None] + caps)
    t = TransferTransformer(m, spec, copy_estimator=cp, trainable=tr)
    inp = {"kind": "transfer", "caps": caps, "sig": sig, "copy_estimator": cp, "trainable": tr, "method": spec or "None"}
    before = snap(m)
    hist = []
    for stepno in range(rng.randint(1, 6)):
        X = numpy.array(rand_X(rng), dtype=numpy.int64)
        y = numpy.array([rng.randint(-3, 12) for _ in X], dtype=numpy.int64)
        if hist and rng.random() < 0.25:
            # the owner of the wrapped estimator trains it again (outside the transformer)
            m.fit(X, **({"y": y} if sig in ("gen", "yw", "y") else {}))
            before = snap(m)
            hist.append("owner-refits-original")
            continue
        if rng.random() < 0.5 or not hist or hist[-1] == "owner-refits-original":
            prev = snap(t.estimator_) if hasattr(t, "estimator_") else None
            try:
                t.fit(X, y)
            except Exception as e:
                vs.append(Violation("TransferTransformer.fit:raises", "fit raises %s" % type(e).__name__, dict(inp, history=hist + ["fit"]),
                                    "%s: %s" % (type(e).__name__, str(e)[:80]), "self"))
                return
            hist.append("fit")
            stats["evaluations"] += 1
            if not tr:
                if snap(t.estimator_) != before:
                    vs.append(Violation("TransferTransformer.fit:frozen-estimator-changed", "not trainable, yet the wrapped "
                                        "estimator or its predictions changed", dict(inp, history=list(hist)), snap(t.estimator_), before))
                    return
            if cp and (t.estimator_ is m or snap(m) != before):
                vs.append(Violation("TransferTransformer.fit:original-modified", "copy_estimator=True, yet the original object "
                                    "was modified or is used", dict(inp, history=list(hist)), snap(m), before))
                return
            if not cp and t.estimator_ is not m:
                vs.append(Violation("TransferTransformer.fit:not-an-alias", "copy_estimator=False, yet another object is used",
                                    dict(inp, history=list(hist))))
                return
        else:
            hist.append("transform")
            stats["evaluations"] += 1
            got = t.transform(X)
            want = getattr(t.estimator_, t.method)(X)
            if not same_arr(got, want):
                vs.append(Violation("TransferTransformer.transform:not-estimator-output", "transform is not the wrapped "
                                    "estimator's output", dict(inp, history=list(hist)), numpy.asarray(got).tolist(),
                                    numpy.asarray(want).tolist()))
                return
    stats["nontrivial"].add(("transfer", sig, cp, tr, spec))


def real_models():
    """fitted scikit-learn estimators: 'all wrapped models' includes them"""
    import numpy
    from sklearn.linear_model import LinearRegression, LogisticRegression
    from sklearn.tree import DecisionTreeRegressor, DecisionTreeClassifier
    from sklearn.ensemble import RandomForestRegressor
    from sklearn.preprocessing import StandardScaler
    from sklearn.cluster import KMeans
    X = numpy.array([[i % 5, (i * 7) % 11] for i in range(20)], dtype=float)
    yr = X[:, 0] * 2 - X[:, 1]
    yc = (numpy.arange(20) % 2)
    return X, yr, yc, [
        ("DecisionTreeRegressor", lambda: DecisionTreeRegressor(max_depth=2, random_state=0).fit(X, yr)),
        ("DecisionTreeClassifier", lambda: DecisionTreeClassifier(max_depth=2, random_state=0).fit(X, yc)),
        ("RandomForestRegressor", lambda: RandomForestRegressor(n_estimators=2, max_depth=2, random_state=0).fit(X, yr)),
        ("LinearRegression", lambda: LinearRegression().fit(X, yr)),
        ("LogisticRegression", lambda: LogisticRegression().fit(X, yc)),
        ("StandardScaler", lambda: StandardScaler().fit(X)),
        ("KMeans", lambda: KMeans(n_clusters=2, n_init=1, random_state=0).fit(X)),
    ]


def _check_real(name, fac, X, yr, copy_estimator, vs, stats):
    import numpy
    from mlinsights.mlmodel import TransferTransformer
    est = fac()
    inp = {"kind": "real", "estimator": name, "copy_estimator": copy_estimator}
    stats["evaluations"] += 1
    stats["nontrivial"].add(("real", name, copy_estimator))
    t = TransferTransformer(est, copy_estimator=copy_estimator)
    want = numpy.asarray(getattr(est, t.method)(X))
    try:
        t.fit(X, yr)
    except Exception as e:
        vs.append(Violation("TransferTransformer.fit:raises:copy_estimator=%s" % copy_estimator,
                            "fit raises %s for a fitted %s" % (type(e).__name__, name), inp,
                            "%s: %s" % (type(e).__name__, str(e)[:100]), "self, transform = the estimator's output"))
        return
    got = numpy.asarray(t.transform(X))
    now = numpy.asarray(getattr(t.estimator_, t.method)(X))
    if got.shape != now.shape or not numpy.allclose(got, now, rtol=0, atol=0):
        vs.append(Violation("TransferTransformer.transform:not-estimator-output", "transform differs from estimator_'s output (%s)" % name,
                            inp, got.ravel()[:4].tolist(), now.ravel()[:4].tolist()))
    if got.shape != want.shape or not numpy.allclose(got, want, rtol=0, atol=0):
        vs.append(Violation("TransferTransformer.fit:frozen-estimator-changed", "not trainable, yet after fit the transfer of a fitted "
                            "%s no longer returns what the estimator returned" % name, inp, got.ravel()[:4].tolist(), want.ravel()[:4].tolist()))
    after = numpy.asarray(getattr(est, t.method)(X))
    if after.shape != want.shape or not numpy.allclose(after, want, rtol=0, atol=0):
        vs.append(Violation("TransferTransformer.fit:frozen-estimator-changed", "the frozen %s predicts differently after fit" % name, inp))


def _dense(a):
    import numpy
    import scipy.sparse
    return a.toarray() if scipy.sparse.issparse(a) else numpy.asarray(a)


def _check_real_wrappers(vs, stats):
    """Wrappers around real scikit-learn models whose outputs are not plain float64 matrices: members of different
    output dtypes (labels + real predictions), sparse outputs (OneHotEncoder, a scaler fed with sparse rows)."""
    import numpy
    import scipy.sparse
    from sklearn.linear_model import LinearRegression
    from sklearn.tree import DecisionTreeClassifier
    from sklearn.preprocessing import OneHotEncoder, MaxAbsScaler, StandardScaler
    from sklearn.decomposition import PCA
    from mlinsights.sklapi import SkBaseTransformLearner, SkBaseTransformStacking
    X = numpy.array([[i % 5, (i * 7) % 11] for i in range(20)], dtype=float)
    yc = (numpy.arange(20) % 3)
    cases = []

    def stack_case(name, members, method):
        def run():
            st = SkBaseTransformStacking([m() for m in members], method=method)
            st.fit(X, yc)
            got = st.transform(X)
            want = numpy.hstack([_dense(numpy.asarray(getattr(m().fit(X, yc), meth)(X)).reshape(len(X), -1))
                                 for m, meth in zip(members, [method] * len(members))])
            return got, want
        cases.append(("SkBaseTransformStacking.transform:not-concatenation", name, run))
    stack_case("stacking[labels,real](predict)", [lambda: DecisionTreeClassifier(max_depth=3, random_state=0), LinearRegression], "predict")
    stack_case("stacking[real,labels](predict)", [LinearRegression, lambda: DecisionTreeClassifier(max_depth=3, random_state=0)], "predict")

    def learner_case(name, model, method, data):
        def run():
            le = SkBaseTransformLearner(model(), method=method)
            le.fit(data, yc)
            got = le.transform(data)
            want = getattr(model().fit(data, yc), method)(data)
            return got, want
        cases.append(("SkBaseTransformLearner.transform:not-method-output", name, run))
    # a callable that is a bound method of ANOTHER fitted instance of the wrapped model's class: the chosen method is that
    # callable, whatever model the wrapper trains
    ref = LinearRegression().fit(X, 3.0 * yc + 1.0)

    def bound_other():
        le = SkBaseTransformLearner(LinearRegression(), method=ref.predict)
        le.fit(X, yc)
        return le.transform(X), ref.predict(X)
    cases.append(("SkBaseTransformLearner.transform:not-method-output", "learner[method=bound method of another instance]",
                  bound_other))
    # twelve members, a nested key of member 10 set before fit: member i of the concatenation is member i as configured
    from sklearn.linear_model import Ridge

    def twelve():
        st = SkBaseTransformStacking([Ridge(alpha=1.0) for _ in range(12)], method="predict")
        st.set_params(**{"models_10__model__alpha": 500.0})
        st.fit(X, 3.0 * yc + X[:, 0])
        want = numpy.column_stack([Ridge(alpha=500.0 if i == 10 else 1.0).fit(X, 3.0 * yc + X[:, 0]).predict(X)
                                   for i in range(12)])
        return st.transform(X), want
    cases.append(("SkBaseTransformStacking.transform:not-concatenation", "stacking[12 members, models_10__model__alpha set]",
                  twelve))
    # one set_params call that REPLACES the model and configures it (what a grid over {'model': [...], 'model__alpha':
    # [...]} does): the nested values are for the model given in the same call, in either key order, and the wrapper is
    # then transparent for that configured model; the replaced model keeps its own parameters
    def replace_and_configure(first):
        def run():
            old = Ridge(alpha=1.0)
            le = SkBaseTransformLearner(old, method="predict")
            keys = [("model", Ridge(alpha=2.0)), ("model__alpha", 500.0)]
            le.set_params(**dict(keys if first == "model" else keys[::-1]))
            yy = 3.0 * yc + X[:, 0]
            le.fit(X, yy)
            want = Ridge(alpha=500.0).fit(X, yy).predict(X)
            if old.alpha != 1.0:
                return numpy.array([[old.alpha]]), numpy.array([[1.0]])
            return le.transform(X), want
        return run
    for first in ("model", "model__alpha"):
        cases.append(("SkBaseTransformLearner.set_params:model-and-nested-keys-in-one-call",
                      "learner[set_params(model=Ridge(2), model__alpha=500), %s first]" % first, replace_and_configure(first)))
    # copy_estimator=True: the copy is independent of the original - no array reachable from `estimator_` (through
    # attributes, lists, tuples, dicts, nested estimators) shares memory with an array of the original, so that training
    # or updating one in place (warm starts, partial fits) cannot modify the other
    def _arrays(obj, depth=0, seen=None):
        seen = set() if seen is None else seen
        if id(obj) in seen or depth > 6:
            return []
        seen.add(id(obj))
        if isinstance(obj, numpy.ndarray):
            return [obj] if obj.size else []
        if isinstance(obj, (list, tuple)):
            return [a for o in obj for a in _arrays(o, depth + 1, seen)]
        if isinstance(obj, dict):
            return [a for o in obj.values() for a in _arrays(o, depth + 1, seen)]
        if hasattr(obj, "get_params") and hasattr(obj, "__dict__"):
            return [a for o in vars(obj).values() for a in _arrays(o, depth + 1, seen)]
        return []

    def independent_copy(make):
        def run():
            from mlinsights.mlmodel.transfer_transformer import TransferTransformer
            est = make()
            tt = TransferTransformer(est, copy_estimator=True).fit()
            shared = [(a.shape, str(a.dtype)) for a in _arrays(est) for b in _arrays(tt.estimator_)
                      if numpy.shares_memory(a, b)]
            return numpy.array([[float(len(shared))]]), numpy.array([[0.0]])
        return run
    from sklearn.neural_network import MLPRegressor

    class ListModel(LinearRegression):
        """a model that keeps per-block coefficient arrays in a list and a dict (as scikit-learn's MLP does)"""

        def fit(self, X, y, sample_weight=None):
            super().fit(X, y)
            self.blocks_ = [numpy.array(self.coef_, dtype=float), numpy.array([self.intercept_], dtype=float)]
            self.table_ = {"coef": numpy.array(self.coef_, dtype=float), "nested": (numpy.arange(3.0),)}
            return self
    yy_ = 3.0 * yc + X[:, 0]
    for label, make in (("MLPRegressor", lambda: MLPRegressor(hidden_layer_sizes=(3,), max_iter=30, random_state=0).fit(X, yy_)),
                        ("model with lists / dicts of arrays", lambda: ListModel().fit(X, yy_)),
                        ("Ridge", lambda: Ridge().fit(X, yy_))):
        cases.append(("TransferTransformer.fit:copy-shares-arrays-with-original",
                      "transfer[copy_estimator=True, %s]: arrays shared between estimator_ and the original" % label,
                      independent_copy(make)))
    learner_case("learner[OneHotEncoder sparse output]", OneHotEncoder, "transform", X)
    learner_case("learner[MaxAbsScaler on sparse rows]", MaxAbsScaler, "transform", scipy.sparse.csr_matrix(X))
    learner_case("learner[StandardScaler]", StandardScaler, "transform", X)
    learner_case("learner[PCA float32 rows]", lambda: PCA(n_components=1), "transform", X.astype(numpy.float32))
    for key, name, run in cases:
        stats["evaluations"] += 1
        stats["nontrivial"].add(("real-wrapper", name))
        inp = {"kind": "real-wrapper", "case": name}
        try:
            got, want = run()
        except Exception as e:  # noqa: BLE001
            vs.append(Violation(key + ":raises", "%s raises %s" % (name, type(e).__name__), inp,
                                "%s: %s" % (type(e).__name__, str(e)[:120]), "the wrapped model's output"))
            continue
        g, w = _dense(got), _dense(want)
        if w.ndim == 1:
            w = w.reshape(-1, 1)
        if getattr(got, "shape", None) != w.shape or g.shape != w.shape or not numpy.array_equal(g.astype(float), w.astype(float)):
            vs.append(Violation(key, "%s: transform is not what the wrapped model(s) return" % name, inp,
                                {"shape": list(getattr(got, "shape", ())), "head": [v if isinstance(v, (int, float)) else str(v)[:40]
                                                                                   for v in numpy.asarray(g, dtype=object).ravel()[:6].tolist()]},
                                {"shape": list(w.shape), "head": w.ravel()[:6].tolist()}))


def search(ctx, hints):
    ctx.shadow(need_cython=True)
    import warnings
    warnings.filterwarnings("ignore")
    rng = ctx.rng
    vs = []
    stats = {"evaluations": 0, "nontrivial": set()}
    X, yr, yc, facs = real_models()
    _check_real_wrappers(vs, stats)
    for name, fac in facs:
        for cp in (True, False):
            _check_real(name, fac, X, yr, cp, vs, stats)
    for t in range(ctx.pick(400, 8000)):
        for chk in (_check_learner, _check_stacking, _check_transfer):
            try:
                chk(rng, vs, stats)
            except (AttributeError, ValueError, AssertionError, TypeError) as e:
                # constructor of the wrapper rejected the configuration (method the model does not have...)
                stats["rejected"] = stats.get("rejected", 0) + 1
    best = {}
    for v in vs:
        size = len(str(v.input))
        if v.key not in best or size < best[v.key][0]:
            best[v.key] = (size, v)
    out = [v for _, v in sorted(best.values(), key=lambda t: t[1].key)]
    return out, {"evaluations": stats["evaluations"], "distinct_nontrivial": len(stats["nontrivial"]),
                 "rejected_configurations": stats.get("rejected", 0), "samples": []}


def replay(ctx, item):
    ctx.shadow(need_cython=True)
    import random
    import warnings
    warnings.filterwarnings("ignore")
    inp = item["input"]
    vs = []
    stats = {"evaluations": 0, "nontrivial": set()}
    if inp.get("kind") == "real-wrapper":
        _check_real_wrappers(vs, stats)
        return [v for v in vs if v.key == item["key"]][:1]
    if inp.get("kind") == "real":
        X, yr, yc, facs = real_models()
        for name, fac in facs:
            if name == inp["estimator"]:
                _check_real(name, fac, X, yr, inp["copy_estimator"], vs, stats)
    else:
        chk = {"learner": _check_learner, "stacking": _check_stacking, "transfer": _check_transfer}[inp["kind"]]
        for seed in range(400):
            try:
                chk(random.Random(seed), vs, stats)
            except (AttributeError, ValueError, AssertionError, TypeError):
                pass
            if any(v.key == item["key"] for v in vs):
                break
    return [v for v in vs if v.key == item["key"]][:1]
