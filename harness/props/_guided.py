"""Source-driven hyper-parameter configurations.

The estimator menu (`_menu.py`) is a hand-written list of configurations.  A change of the source can make a
behaviour depend on a COMBINATION of hyper-parameter values the menu does not hold (`strategy == 'weights' and
balanced_predictions`).  This module reads, with `ast` only, every value the current source of a class compares one
of its constructor parameters with (`self.p == 'x'`, `self.p in ('a', 'b')`, `self.p is None`, `self.p` used as a
truth value, boolean defaults), and builds from a menu entry the variants obtained by `set_params` of one or two of
those values.  The searches of C02 / C03 run their oracles on these variants as well, so that a failing input can be
found for a configuration that only the (regenerated) source knows about.

Nothing here decides anything: it only proposes inputs; every proposed configuration is built on the real class and
silently dropped when `set_params` or the constructor refuses it.
"""
import ast
import itertools

from extract import classes

_CACHE = {}


def _const(node):
    if isinstance(node, ast.Constant) and isinstance(node.value, (str, int, float, bool, type(None))):
        return [node.value]
    if isinstance(node, ast.UnaryOp) and isinstance(node.op, ast.USub) and isinstance(node.operand, ast.Constant) \
            and isinstance(node.operand.value, (int, float)):
        return [-node.operand.value]
    if isinstance(node, (ast.Tuple, ast.List, ast.Set)):
        out = []
        for e in node.elts:
            c = _const(e)
            if c is None:
                return None
            out += c
        return out
    return None


def _param_of(node, params):
    if isinstance(node, ast.Attribute) and isinstance(node.value, ast.Name) and node.value.id == "self" \
            and node.attr in params:
        return node.attr
    return None


def candidates(repo, clsname):
    """{param: [values]} read from the source of the class lineage (in-package part)"""
    key = (repo, clsname)
    if key in _CACHE:
        return _CACHE[key]
    table = classes.collect(repo)
    out = {}
    if clsname not in table:
        _CACHE[key] = out
        return out
    info = table[clsname]
    sig = info.facts.get("ctor_params")
    params = [p for p, _ in sig["params"]] if isinstance(sig, dict) else []
    cls, init = info.find_method(table, "__init__")
    defaults = {}
    if init is not None:
        a = init.args
        pos = a.posonlyargs + a.args
        for arg, d in list(zip(pos[len(pos) - len(a.defaults):], a.defaults)) + list(zip(a.kwonlyargs, a.kw_defaults)):
            c = _const(d) if d is not None else None
            if c is not None and len(c) == 1:
                defaults[arg.arg] = c[0]

    def add(p, vals):
        for v in vals:
            if not any(type(v) is type(w) and v == w for w in out.setdefault(p, [])):
                out[p].append(v)
    for p, d in defaults.items():
        if isinstance(d, bool):
            add(p, [True, False])
    for c in info.lineage(table):
        for n in ast.walk(c.node):
            if isinstance(n, ast.Compare) and len(n.ops) == 1:
                l, r = n.left, n.comparators[0]
                for a_, b_ in ((l, r), (r, l)):
                    p = _param_of(a_, params)
                    v = _const(b_)
                    if p and v is not None:
                        add(p, v)
                        if isinstance(n.ops[0], (ast.Lt, ast.LtE, ast.Gt, ast.GtE)):
                            add(p, [x + d for x in v if isinstance(x, (int, float)) and not isinstance(x, bool)
                                    for d in (-1, 1)])
            elif isinstance(n, (ast.If, ast.IfExp, ast.While, ast.Assert)):
                tests = [n.test]
                while tests:
                    t = tests.pop()
                    if isinstance(t, ast.BoolOp):
                        tests += t.values
                    elif isinstance(t, ast.UnaryOp) and isinstance(t.op, ast.Not):
                        tests.append(t.operand)
                    else:
                        p = _param_of(t, params)
                        if p and isinstance(defaults.get(p), bool):
                            add(p, [True, False])
    # string options are often tested in a helper function of the same package that receives the parameter under its
    # own name (`if strategy == 'weights'`): comparisons of a NAME equal to a string-valued parameter with strings
    import os
    strp = {p for p, d in defaults.items() if isinstance(d, str)}
    seen = set()
    todo = [c.relpath for c in info.lineage(table)]
    while todo and strp:
        rel = todo.pop()
        if rel in seen:
            continue
        seen.add(rel)
        try:
            tree = ast.parse(open(os.path.join(repo, rel), encoding="utf-8").read())
        except (OSError, SyntaxError):
            continue
        for n in ast.walk(tree):
            if isinstance(n, ast.ImportFrom) and n.level == 1 and n.module:
                cand = os.path.join(os.path.dirname(rel), n.module + ".py")
                if os.path.exists(os.path.join(repo, cand)) and len(seen) < 6:
                    todo.append(cand)
            if isinstance(n, ast.Compare) and len(n.ops) == 1:
                l, r = n.left, n.comparators[0]
                for a_, b_ in ((l, r), (r, l)):
                    if isinstance(a_, ast.Name) and a_.id in strp:
                        v = _const(b_)
                        if v is not None and all(isinstance(x, str) for x in v):
                            add(a_.id, v)
    # inside the constructors of the lineage the parameters are plain names: `verbose == 'tqdm'`, `n_jobs not in (None, 1)`
    for c in info.lineage(table):
        m = c.method("__init__")
        if m is None:
            continue
        for n in ast.walk(m):
            if isinstance(n, ast.Compare) and len(n.ops) == 1:
                l, r = n.left, n.comparators[0]
                for a_, b_ in ((l, r), (r, l)):
                    if isinstance(a_, ast.Name) and a_.id in params:
                        v = _const(b_)
                        if v is not None:
                            add(a_.id, v)
                            if isinstance(n.ops[0], (ast.NotIn, ast.NotEq)):
                                add(a_.id, [x + 1 for x in v if isinstance(x, int) and not isinstance(x, bool)])
    # every value but the default itself; a string option may replace a boolean flag (`verbose='tqdm'`), so the kinds
    # are not filtered except that numbers do not replace strings
    for p in list(out):
        d = defaults.get(p, "<no default>")
        vals = [v for v in out[p] if not (type(v) is type(d) and v == d)]
        if isinstance(d, str):
            vals = [v for v in vals if isinstance(v, str) or v is None]
        out[p] = vals[:6]
        if not out[p]:
            del out[p]
    _CACHE[key] = out
    return out


def overrides(repo, clsname, pairs=True, cap=40):
    """list of {param: value} with one and (optionally) two parameters replaced"""
    cand = candidates(repo, clsname)
    singles = [{p: v} for p in sorted(cand) for v in cand[p]]
    out = list(singles)
    if pairs:
        for (p, q) in itertools.combinations(sorted(cand), 2):
            for v in cand[p]:
                for w in cand[q]:
                    out.append({p: v, q: w})
    return out[:cap]


def apply(entry, override, inner=None):
    """the menu entry's estimator with `override` applied through set_params; None when refused"""
    try:
        est = entry.factory(inner) if inner is not None else entry.factory()
        est.set_params(**override)
        return est
    except Exception:  # noqa: BLE001
        return None
