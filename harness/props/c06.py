"""C06 — KMeansL1L2: L1 is self-consistent in Manhattan geometry, L2 is exactly KMeans."""
import json
import warnings
from fractions import Fraction

from core import Corr, Violation, run_driver
from extract import c06_kmeans

ID = "C06"
#: functions the hand-written model transcribes: their control skeleton (extract/shape.py) is regenerated into
#: Gen/C06.lean and compared with the literal in Properties/C06.lean (`modelled_functions_have_the_transcribed_shape`)
SHAPES = [
    ("shapeLloyd", "mlinsights/mlmodel/kmeans_l1.py", "_kmeans_single_lloyd"),
    ("shapeCentersDense", "mlinsights/mlmodel/kmeans_l1.py", "_centers_dense"),
    ("shapeLabelsInertia", "mlinsights/mlmodel/kmeans_l1.py", "_labels_inertia"),
    ("shapeInitCentroids", "mlinsights/mlmodel/kmeans_l1.py", "_init_centroids"),
    ("shapeFit", "mlinsights/mlmodel/kmeans_l1.py", "KMeansL1L2.fit"),
    ("shapeFitL1", "mlinsights/mlmodel/kmeans_l1.py", "KMeansL1L2._fit_l1"),
    ("shapePredict", "mlinsights/mlmodel/kmeans_l1.py", "KMeansL1L2.predict"),
    ("shapePredictL1", "mlinsights/mlmodel/kmeans_l1.py", "KMeansL1L2._predict_l1"),
    ("shapeTransform", "mlinsights/mlmodel/kmeans_l1.py", "KMeansL1L2.transform"),
    ("shapeTransformL1", "mlinsights/mlmodel/kmeans_l1.py", "KMeansL1L2._transform_l1"),
]
SRC = c06_kmeans.SRC
LEAN_TARGETS = ["MlVerif.Gen.C06", "MlVerif.Model.KMedians", "MlVerif.Lemmas.KMedians", "MlVerif.Properties.C06"]
PROPERTY_FILE = "MlVerif/Properties/C06.lean"
DRIVER = "Drivers/C06.lean"
TRUSTED = [
    "sklearn.metrics.pairwise_distances_argmin_min(metric='manhattan') returns, per row, the index of the FIRST "
    "minimal Manhattan distance and that distance, and rejects NaN input with ValueError (validated on every run: "
    "estep/predict ops)",
    "numpy.median(axis=0) of a non-empty slice = middle / mean of the two middle order statistics per column, NaN "
    "row for an empty slice (validated: median/mstep ops); numpy.argsort returns a permutation of range(n) "
    "(its tie order is implementation-defined, so distances.argsort()[::-1] is recorded and fed to the model)",
    "scikit-learn's KMeans itself (norm='L2' is proved to be a verbatim delegation to it, and compared bit for bit "
    "with sklearn.cluster.KMeans on every run); check_array / manhattan_distances / check_random_state",
    "the initial centres of each of the n_init runs (what _init_centroids returned: explicit array, 'random', "
    "'k-means++' or callable) are inputs of the model, captured by wrapping the function for the duration of fit",
    "rationals stand in for floats: the theorems say nothing about rounding; the correspondence runs on integer-grid "
    "data where every distance, median (half-integers), inertia and centre shift is exact in float32/float64",
]
ASSUMPTIONS = [
    "sample_weight=None (the statement does not mention weights; non-uniform weights raise NotImplementedError)",
    "'fit succeeds' is read as: no exception and no NaN in cluster_centers_; the model proves it under the weaker "
    "hypothesis n_samples >= k (k distinct points imply it)",
    "'nearest' allows any nearest centre on ties (the code returns the first one, which is also proved)",
    "_tolerance('L1', X, tol) ignores tol (returns the mean L1 norm of the rows); not a property matter: the "
    "theorems hold for every tolerance value, the recorded value is an input of the model",
    "fit_transform/score are inherited from KMeans and are Euclidean even when norm='L1'; the statement only "
    "speaks of transform/predict, so they are not checked for L1",
]
RULE = ("correspondence: integer-grid data sets (duplicates, ties, n==k, k==1, far/duplicate initial centres that empty "
        "clusters, float32/float64) x init modes (array, 'random', 'k-means++', callable) x n_init x max_iter; per fit "
        "the captured initial centres, tolerance and argsort permutations are fed to the Lean model and labels_, "
        "cluster_centers_, inertia_, n_iter_ (or the error kind) are compared exactly; every recorded _centers_dense "
        "call, predict, transform, _labels_inertia, _tolerance and numpy.median are compared op by op; norm='L2' is "
        "compared bit for bit with sklearn.cluster.KMeans and the extracted delegation table with the calls observed "
        "at run time. Non-trivial = n > 1 and (k > 1 or d > 1); distinct = distinct (data, k, init, n_init, max_iter, "
        "dtype) tuples")
LEVEL_TEXT = ("Lean proof, for every data set, k, dimension, tolerance, initial centres and argsort tie order: predict / "
              "transform / inertia definitions, medians and relocated centres lie in the coordinate-wise data range, the "
              "returned labels are nearest-centre labels and inertia_ their distance sum both when the final E-step runs "
              "and when it does not (shift 0; via 'a coordinate-wise median minimises the sum of absolute deviations' and "
              "monotonicity of the inertia), fit never yields a NaN centre when n >= k on the repaired code, and L2 is a "
              "verbatim delegation (decide on the regenerated table). Float rounding and ties under rounding are outside "
              "the proof (exact-arithmetic model).")
LEVEL_NOTE = ("model = hand transcription over Rat, tied to the source by the regenerated loop tests / median-loop guard / "
              "delegation table and by the per-run differential correspondence; sklearn's argmin/median/KMeans trusted")
TECHNIQUE = ("Lean 4 proof (induction over the Lloyd loop with an inertia-monotonicity invariant, sorted-list peeling for "
             "the median) + AST-regenerated definitions + differential correspondence on exact data")


# ------------------------------------------------------------------------------ extractor

def extract(ctx):
    return {"MlVerif/Gen/C06.lean": c06_kmeans.generate(ctx.source(SRC))}


# ------------------------------------------------------------------------------ helpers

def fr(v):
    f = Fraction(float(v))
    return "%d/%d" % (f.numerator, f.denominator) if f.denominator != 1 else "%d" % f.numerator


def frow(r):
    r = list(r)
    return ",".join(fr(v) for v in r) if r else "-"


def fmat(m):
    m = list(m)
    return ";".join(frow(r) for r in m) if m else "-"


def fnats(l):
    l = list(l)
    return ",".join(str(int(v)) for v in l) if l else "-"


def fcentres(C):
    import numpy
    rows = []
    for r in C:
        rows.append("nan" if numpy.isnan(r).any() else frow(r))
    return ";".join(rows) if rows else "-"


def err_kind(e):
    if isinstance(e, ValueError):
        return "error:nan" if "NaN" in str(e) else "error:value"
    if isinstance(e, IndexError):
        return "error:index"
    return "error:" + type(e).__name__


class Capture:
    """Wraps _init_centroids / _centers_dense / _tolerance of the shadow module for the duration of a call."""

    def __init__(self, K):
        self.K = K
        self.inits, self.msteps, self.tols = [], [], []

    def __enter__(self):
        import numpy
        K = self.K
        self.orig = (K._init_centroids, K._centers_dense, K._tolerance)
        o_init, o_cd, o_tol = self.orig

        def init_centroids(*a, **k):
            c = o_init(*a, **k)
            self.inits.append(numpy.array(c, dtype=float).copy())
            return c

        def centers_dense(X, sample_weight, labels, n_clusters, distances, *rest, **kw):
            dist = numpy.array(distances, dtype=float).copy()
            far = distances.argsort()[::-1].copy()
            entry = {"X": X, "labels": numpy.array(labels).copy(), "k": int(n_clusters), "dists": dist,
                     "far": far, "out": None, "err": None,
                     "empty": bool((numpy.bincount(labels, minlength=n_clusters) == 0).any())}
            self.msteps.append(entry)
            try:
                with warnings.catch_warnings():
                    warnings.simplefilter("ignore")
                    out = o_cd(X, sample_weight, labels, n_clusters, distances, *rest, **kw)
            except Exception as e:
                entry["err"] = err_kind(e)
                raise
            entry["out"] = numpy.array(out, dtype=float).copy()
            return out

        def tolerance(*a, **k):
            t = o_tol(*a, **k)
            self.tols.append(float(t))
            return t
        K._init_centroids, K._centers_dense, K._tolerance = init_centroids, centers_dense, tolerance
        return self

    def __exit__(self, *a):
        K = self.K
        K._init_centroids, K._centers_dense, K._tolerance = self.orig


def callable_init(norm, X, k, random_state=None):
    """a user-supplied init callable: the k first rows in reverse order"""
    return X[:k][::-1].copy()


def make_estimator(K, case, norm="L1"):
    import numpy
    init = case["init"]
    if init == "callable":
        init = callable_init
    elif isinstance(init, list):
        init = numpy.array(init, dtype=case["dtype"])
    return K.KMeansL1L2(n_clusters=case["k"], init=init, n_init=case["n_init"], max_iter=case["max_iter"],
                        random_state=case["seed"], norm=norm)


def gen_data(rng, big=False):
    """integer-grid data set + k, biased towards degenerate shapes"""
    flavour = rng.choice(["grid", "grid", "dups", "dups", "n==k", "one-cluster", "blobs", "line-ties", "constant-col"])
    d = rng.choice([1, 1, 2, 2, 3])
    k = rng.choice([1, 2, 2, 3, 3, 4, 5])
    nmax = 40 if big else 14
    if flavour == "one-cluster":
        k = 1
    if flavour == "n==k":
        n = k
    else:
        n = rng.randint(k, max(k, nmax))
    r = rng.choice([1, 2, 3, 6])
    if flavour in ("grid", "n==k", "one-cluster"):
        X = [[rng.randint(-r, r) for _ in range(d)] for _ in range(n)]
    elif flavour == "dups":
        base = [[rng.randint(-r, r) for _ in range(d)] for _ in range(rng.randint(1, max(1, min(n, k + 1))))]
        X = [list(rng.choice(base)) for _ in range(n)]
    elif flavour == "blobs":
        cs = [[rng.choice([-20, 0, 20, 40]) for _ in range(d)] for _ in range(k)]
        X = [[c + rng.randint(-1, 1) for c in rng.choice(cs)] for _ in range(n)]
    elif flavour == "line-ties":
        X = [[rng.randint(-2, 2) * 2] + [0] * (d - 1) for _ in range(n)]
    else:
        X = [[rng.randint(-r, r) for _ in range(d - 1)] + [7] for _ in range(n)]
    return flavour, X, k, d


def gen_case(rng, big=False):
    flavour, X, k, d = gen_data(rng, big)
    n = len(X)
    mode = rng.choice(["array-data", "array-data", "array-far", "array-dup", "random", "random", "k-means++", "callable"])
    if mode == "array-data":
        init = [list(X[i]) for i in rng.sample(range(n), k)]
    elif mode == "array-far":
        init = [[rng.choice([-60, -30, 0, 30, 60, 90]) + rng.randint(-1, 1) for _ in range(d)] for _ in range(k)]
    elif mode == "array-dup":
        init = [list(X[rng.randrange(n)]) for _ in range(k)]
        if k > 1:
            init[-1] = list(init[0])
    else:
        init = mode
    n_init = 1 if isinstance(init, list) else rng.choice([1, 1, 2, 3])
    return {"flavour": flavour, "mode": mode, "X": X, "k": k, "d": d, "init": init, "n_init": n_init,
            "max_iter": rng.choice([1, 2, 3, 5, 10, 30]), "dtype": rng.choice(["float64", "float64", "float32"]),
            "seed": rng.randrange(1 << 30)}


def case_key(c):
    return json.dumps([c["X"], c["k"], c["init"], c["n_init"], c["max_iter"], c["dtype"], c["seed"]])


def run_fit(K, case, norm="L1"):
    """Fit on the real code with the capture on; returns (estimator or None, error kind or None, capture)."""
    import numpy
    X = numpy.array(case["X"], dtype=case["dtype"])
    est = make_estimator(K, case, norm)
    with warnings.catch_warnings():
        warnings.simplefilter("ignore")
        with Capture(K) as cap:
            try:
                est.fit(X)
                err = None
            except Exception as e:      # canonical error kind
                err = err_kind(e)
    return (est if err is None else None), err, cap


def query_points(rng, case, m=6):
    d = case["d"]
    pts = [list(x) for x in case["X"][:3]]
    pts += [[rng.randint(-8, 8) for _ in range(d)] for _ in range(m)]
    return pts


# ------------------------------------------------------------------------------ correspondence

def correspond(ctx):
    ctx.shadow(need_cython=True)
    import numpy
    import mlinsights.mlmodel.kmeans_l1 as K
    import mlinsights.mlmodel._kmeans_022 as K22
    from sklearn.cluster import KMeans
    corr = Corr()
    corr.rule = RULE
    rng = ctx.rng
    lines, expect = [], []

    def emit(op, line, inp, impl):
        lines.append(line)
        expect.append((op, inp, impl))

    # ---- (1) whole fits with norm='L1'
    n_fits = ctx.pick(260, 5000)
    for t in range(n_fits):
        case = gen_case(rng, big=ctx.thorough and t % 3 == 0)
        est, err, cap = run_fit(K, case)
        X = case["X"]
        d, k = case["d"], case["k"]
        if not cap.tols:
            # rejected before the tolerance is computed (does not happen with generated cases)
            corr.hit("fit_rejected_early")
            continue
        tol = cap.tols[0]
        table = [e for e in cap.msteps if e["empty"]]
        fartab = "|".join("%s>%s" % (frow(e["dists"]), fnats(e["far"])) for e in table) or "-"
        inits = "|".join(fmat(c) for c in cap.inits) or "-"
        if err is None:
            impl = "ok labels=%s centers=%s inertia=%s niter=%d" % (
                fnats(est.labels_), fcentres(est.cluster_centers_), fr(est.inertia_), est.n_iter_)
        else:
            impl = err
        # the model is given n_init initial-centre sets: all that were drawn before an error stopped the loop
        # are known; the runs after an error never happened in either, so the recorded list is complete
        emit("fit", "fit %d %d %d %s %s %s %s" % (d, k, case["max_iter"], fr(tol), fmat(X), inits, fartab),
             {"case": case}, impl)
        nontriv = len(X) > 1 and (k > 1 or d > 1)
        corr.case(case_key(case), nontrivial=nontriv,
                  sample={"op": "fit", "case": case, "impl": impl} if t < 3 else None)
        corr.hit("flavour:" + case["flavour"])
        corr.hit("init:" + case["mode"])
        corr.hit("dtype:" + case["dtype"])
        corr.hit("fit:" + (err or "ok"))
        corr.hit("empty_cluster_relocation" if table else "no_empty_cluster")
        if err is None:
            corr.hit("n_iter=%s" % (est.n_iter_ if est.n_iter_ < 4 else "4+"))
            if numpy.isnan(est.cluster_centers_).any():
                corr.hit("fit_returns_nan_centre")
            D = numpy.abs(numpy.array(X, dtype=float)[:, None, :] - est.cluster_centers_[None, :, :].astype(float)).sum(-1)
            if D.shape[1] > 1 and numpy.isfinite(D).all():
                two = numpy.sort(D, axis=1)[:, :2]
                if (two[:, 0] == two[:, 1]).any():
                    corr.hit("tie_between_nearest_centres")
        # every recorded M-step (first 3 per fit), E-step by E-step
        for e in cap.msteps[:3]:
            impl_m = e["err"] if e["out"] is None else fcentres(e["out"])
            if impl_m is None:
                continue
            emit("mstep", "mstep %d %d %s %s %s %s" % (d, k, fmat(X), fnats(e["labels"]), frow(e["dists"]),
                                                     fnats(e["far"])),
                 {"case": case, "labels": [int(v) for v in e["labels"]]}, impl_m)
            corr.case(("mstep", case_key(case), tuple(int(v) for v in e["labels"])), nontrivial=nontriv)
        # predict / transform on the fitted model (also on models whose centres contain NaN)
        if est is not None:
            Q = query_points(rng, case)
            Qa = numpy.array(Q, dtype=case["dtype"])
            cs = fcentres(est.cluster_centers_)
            for op, fn in (("predict", est.predict), ("transform", est.transform)):
                try:
                    with warnings.catch_warnings():
                        warnings.simplefilter("ignore")
                        out = fn(Qa)
                    impl_q = fnats(out) if op == "predict" else fmat(out)
                except Exception as ex:
                    impl_q = err_kind(ex)
                emit(op, "%s %d %s %s" % (op, d, cs, fmat(Q)), {"case": case, "Q": Q}, impl_q)
                corr.case((op, case_key(case)), nontrivial=nontriv)

    # ---- (2) _labels_inertia (kmeans_l1) / _labels_inertia_precompute_dense (_kmeans_022) directly
    for t in range(ctx.pick(150, 2500)):
        flavour, X, k, d = gen_data(rng)
        C = [[rng.randint(-6, 6) * 0.5 for _ in range(d)] for _ in range(k)]
        if k > 1 and rng.random() < 0.3:
            C[-1] = list(C[0])
        dt = rng.choice(["float64", "float32"])
        Xa, Ca = numpy.array(X, dtype=dt), numpy.array(C, dtype=dt)
        dist = numpy.zeros(len(X), dtype=dt)
        lab, inert = K._labels_inertia("L1", Xa, None, Ca, distances=dist)
        lab2, inert2 = K22._labels_inertia_precompute_dense("L1", Xa, numpy.ones(len(X), dtype=dt), Ca,
                                                            numpy.zeros(len(X), dtype=dt))
        impl = "%s|%s|%s" % (fnats(lab), frow(dist), fr(inert))
        if not ((lab == lab2).all() and inert == inert2):
            impl += "|precompute_dense-differs"
        emit("estep", "estep %d %s %s" % (d, fmat(C), fmat(X)), {"X": X, "C": C, "dtype": dt}, impl)
        corr.case(("estep", json.dumps([X, C])), nontrivial=len(X) > 1 and k > 1)

    # ---- (3) numpy.median and _tolerance
    for t in range(ctx.pick(100, 1500)):
        l = [rng.randint(-9, 9) * rng.choice([1, 1, 0.5]) for _ in range(rng.randint(1, 12))]
        emit("median", "median %s" % frow(l), l, fr(numpy.median(numpy.array(l))))
        corr.case(("median", tuple(l)), nontrivial=len(l) > 2)
    for t in range(ctx.pick(40, 400)):
        d = rng.choice([1, 2, 3])
        n = rng.choice([1, 2, 4, 8, 16])      # division by n exact in binary floating point
        X = [[rng.randint(-9, 9) for _ in range(d)] for _ in range(n)]
        tolv = K._tolerance("L1", numpy.array(X, dtype=float), rng.choice([1e-4, 0.5, 10.0]))
        emit("tol", "tol %d %s" % (d, fmat(X)), X, fr(tolv))
        corr.case(("tol", json.dumps(X)), nontrivial=n > 1)

    out = run_driver(DRIVER, lines)
    for (op, inp, impl), got in zip(expect, out):
        if op == "fit" and got.startswith("ok "):
            got, shift = got.rsplit(" shift=", 1)
            niter = got.rsplit(" niter=", 1)[1]
            if shift == "0":
                corr.hit("final_shift=0(no final E-step)" + (",n_iter>=2" if niter != "1" else ""))
            elif shift == "none":
                corr.hit("final_shift=NaN")
            else:
                corr.hit("final_shift>0(final E-step runs)")
        if got != impl:
            corr.disagree(op, inp, got, impl)

    # ---- (4) norm='L2' against sklearn.cluster.KMeans, bit for bit
    for t in range(ctx.pick(60, 600)):
        case = gen_case(rng)
        if case["init"] == "callable":
            case["init"], case["mode"] = "random", "random"
        X = numpy.array(case["X"], dtype=case["dtype"])
        Q = numpy.array(query_points(rng, case), dtype=case["dtype"])
        algo = rng.choice(["lloyd", "elkan"])
        tol = rng.choice([1e-4, 1e-2, 0.0])

        def build(cls, **extra):
            init = numpy.array(case["init"], dtype=case["dtype"]) if isinstance(case["init"], list) else case["init"]
            return cls(n_clusters=case["k"], init=init, n_init=case["n_init"], max_iter=case["max_iter"], tol=tol,
                       random_state=case["seed"], algorithm=algo, **extra)
        res = []
        for est in (build(K.KMeansL1L2, norm="L2"), build(KMeans)):
            with warnings.catch_warnings():
                warnings.simplefilter("ignore")
                try:
                    est.fit(X)
                    r = [est.labels_.tolist(), est.cluster_centers_.tolist(), float(est.inertia_), int(est.n_iter_),
                         est.predict(Q).tolist(), est.transform(Q).tolist(), est.fit_predict(X).tolist()]
                except Exception as e:
                    r = ["error:" + type(e).__name__]
            res.append(json.dumps(r))
        corr.case(("L2", case_key(case), algo, tol), nontrivial=len(case["X"]) > 1 and case["k"] > 1,
                  sample={"op": "L2", "case": case, "algorithm": algo} if t < 1 else None)
        corr.hit("L2:" + algo)
        if res[0] != res[1]:
            corr.disagree("L2", {"case": case, "algorithm": algo, "tol": tol}, res[1][:300], res[0][:300])

    # ---- (5) the extracted delegation table against the calls observed at run time
    observed = observe_delegation(K, KMeans)
    table = delegation_from_source(ctx)
    corr.case(("deleg",), nontrivial=True, sample={"op": "deleg", "observed": observed})
    if observed != table:
        corr.disagree("deleg", "KMeansL1L2(norm='L2').fit/predict/transform", table, observed)
    return corr


def observe_delegation(K, KMeans):
    """Which KMeans methods are entered, with how many positional and which keyword arguments, when the
    L2 / L1 estimators are used."""
    import numpy
    X = numpy.array([[0.0], [1.0], [5.0], [6.0]])
    seen = []
    origs = {m: getattr(KMeans, m) for m in ("fit", "predict", "transform")}

    def wrap(name, f):
        def w(*a, **k):
            seen.append([name, len(a), sorted(k)])
            return f(*a, **k)
        return w
    out = {}
    try:
        for m, f in origs.items():
            setattr(KMeans, m, wrap(m, f))
        for norm in ("L2", "L1"):
            est = K.KMeansL1L2(n_clusters=2, n_init=1, random_state=0, norm=norm)
            for m, call in (("fit", lambda e: e.fit(X)), ("predict", lambda e: e.predict(X)),
                            ("transform", lambda e: e.transform(X))):
                del seen[:]
                with warnings.catch_warnings():
                    warnings.simplefilter("ignore")
                    call(est)
                out["%s.%s" % (norm, m)] = [s for s in seen if s[0] == m][:1]
    finally:
        for m, f in origs.items():
            setattr(KMeans, m, f)
    return out


def delegation_from_source(ctx):
    """The same facts predicted from the extracted table."""
    import ast
    tree = ast.parse(ctx.source(SRC))
    _, _, rows, _ = c06_kmeans.delegation_table(tree)
    out = {}
    for m in ("fit", "predict", "transform"):
        row = next((r for r in rows if r["method"] == m), None)
        if row is None or row["callee"] != "KMeans." + m:
            out["L2." + m] = []
        else:
            out["L2." + m] = [[m, len(row["args"]), sorted(k for k, _ in row["kwargs"])]]
        out["L1." + m] = []
    return out


# ------------------------------------------------------------------------------ search (oracle from the statement)

def distinct_points(X):
    return len({tuple(r) for r in X})


def check_l1(K, case):
    """Oracle written from the statement, on the real code.  Integer-grid data: every quantity below is exact
    in floating point, so all comparisons are exact.  Returns [(key, what, observed, required)]."""
    import numpy
    X64 = numpy.array(case["X"], dtype=float)
    X = numpy.array(case["X"], dtype=case["dtype"])
    k = case["k"]
    est = make_estimator(K, case, "L1")
    bad = []
    enough = distinct_points(case["X"]) >= k
    try:
        with warnings.catch_warnings():
            warnings.simplefilter("ignore")
            est.fit(X)
    except Exception as e:
        if enough:
            return [("fit[L1]:raises-with-k-distinct-points",
                     "fit(norm='L1') raises %s on finite data with >= k distinct points" % type(e).__name__,
                     "%s: %s" % (type(e).__name__, str(e)[:120]), "fit succeeds")]
        return []
    C = numpy.asarray(est.cluster_centers_, dtype=float)
    if not enough:
        return []
    if C.shape != (k, X.shape[1]) or not numpy.isfinite(C).all():
        return [("fit[L1]:nan-centre", "fit(norm='L1') returns a non-finite centre on data with >= k distinct points",
                 C.tolist(), "finite centres")]
    D = numpy.abs(X64[:, None, :] - C[None, :, :]).sum(-1)
    lab = numpy.asarray(est.labels_)
    if lab.shape != (len(X64),) or (lab < 0).any() or (lab >= k).any():
        return [("fit[L1]:labels-shape", "labels_ malformed", lab.tolist(), "one label in range(k) per sample")]
    own = D[numpy.arange(len(X64)), lab]
    if not (own == D.min(axis=1)).all():
        i = int(numpy.argmax(own != D.min(axis=1)))
        bad.append(("fit[L1]:label-not-nearest", "a training point does not carry the label of a Manhattan-nearest centre",
                    {"row": i, "label": int(lab[i]), "distances": D[i].tolist()}, "label in argmin of the distances"))
    if float(est.inertia_) != float(own.sum()):
        bad.append(("fit[L1]:inertia-not-sum", "inertia_ is not the sum of the distances to the labelled centres",
                    float(est.inertia_), float(own.sum())))
    lo, hi = X64.min(axis=0), X64.max(axis=0)
    if not ((C >= lo).all() and (C <= hi).all()):
        bad.append(("fit[L1]:centre-out-of-range", "a centre lies outside the coordinate-wise range of the data",
                    C.tolist(), {"min": lo.tolist(), "max": hi.tolist()}))
    Qf = numpy.array(case.get("Q") or case["X"], dtype=case["dtype"])
    # the query batch in the training dtype, and (the grid is integral) as an integer-typed array: the centres the
    # distances refer to are the fitted ones whatever the dtype of the rows to label
    variants = [("", Qf)]
    if (Qf == numpy.round(Qf)).all():
        variants.append(("[int64 batch]", Qf.astype(numpy.int64)))
    for tag, Q in variants:
        Q64 = Q.astype(float)
        DQ = numpy.abs(Q64[:, None, :] - C[None, :, :]).sum(-1)
        try:
            with warnings.catch_warnings():
                warnings.simplefilter("ignore")
                p = numpy.asarray(est.predict(Q))
                tr = numpy.asarray(est.transform(Q), dtype=float)
        except Exception as e:
            return bad + [("predict[L1]:raises", "predict/transform raise on a fitted L1 model" + tag,
                           "%s: %s" % (type(e).__name__, str(e)[:120]), "labels / distances")]
        if p.shape != (len(Q),) or not (DQ[numpy.arange(len(Q)), p] == DQ.min(axis=1)).all():
            bad.append(("predict[L1]:not-nearest", "predict does not return a Manhattan-nearest centre" + tag, p.tolist(),
                        DQ.argmin(axis=1).tolist()))
        if tr.shape != DQ.shape or not (tr == DQ).all():
            bad.append(("transform[L1]:not-manhattan", "transform is not the Manhattan distance to every centre" + tag,
                        tr.tolist(), DQ.tolist()))
    return bad


def check_l2(K, case):
    import numpy
    from sklearn.cluster import KMeans
    X = numpy.array(case["X"], dtype=case["dtype"])
    Q = numpy.array(case.get("Q") or case["X"], dtype=case["dtype"])
    res = []
    for cls, extra in ((K.KMeansL1L2, {"norm": "L2"}), (KMeans, {})):
        init = numpy.array(case["init"], dtype=case["dtype"]) if isinstance(case["init"], list) else case["init"]
        if init == "callable" if isinstance(init, str) else False:
            init = "random"
        est = cls(n_clusters=case["k"], init=init, n_init=case["n_init"], max_iter=case["max_iter"],
                  random_state=case["seed"], tol=case.get("tol", 1e-4), algorithm=case.get("algorithm", "lloyd"),
                  **extra)
        if case.get("history") == "l1-array-init" and cls is K.KMeansL1L2:
            # the same object served an L1 fit started from given centres first, then received its L2 configuration
            # through set_params: "L2 exactly KMeans" is about the parameters the object reports NOW
            with warnings.catch_warnings():
                warnings.simplefilter("ignore")
                try:
                    est.set_params(norm="L1", init=numpy.unique(X, axis=0)[:case["k"]].copy())
                    est.fit(X)
                except Exception:  # noqa: BLE001
                    pass
                est.set_params(norm="L2", init=init)
        # the same call on both: optional sample weights (constant, or small integers) are part of "the same fit"
        w = None
        if case.get("w") == "const":
            w = numpy.full(len(X), 2.5)
        elif case.get("w") == "ints":
            w = numpy.array([1 + (i * 7 + case["seed"]) % 3 for i in range(len(X))], dtype=float)
        with warnings.catch_warnings():
            warnings.simplefilter("ignore")
            try:
                est.fit(X, sample_weight=w)
                res.append({"labels": est.labels_.tolist(), "centers": est.cluster_centers_.tolist(),
                            "inertia": float(est.inertia_), "n_iter": int(est.n_iter_),
                            "predict": est.predict(Q).tolist(), "transform": est.transform(Q).tolist(),
                            "fit_predict": est.fit_predict(X).tolist()})
            except Exception as e:
                res.append({"error": type(e).__name__})
    bad = []
    for key in sorted(set(res[0]) | set(res[1])):
        if res[0].get(key) != res[1].get(key):
            bad.append(("L2:%s-differs-from-KMeans" % key, "norm='L2' differs from sklearn.cluster.KMeans with the same "
                        "parameters and seed (%s)" % key, str(res[0].get(key))[:200], str(res[1].get(key))[:200]))
    return bad


def degenerate_cases(rng):
    """hand-written degenerate shapes named in the statement's quantifier"""
    out = []
    for dtype in ("float64", "float32"):
        base = {"n_init": 1, "max_iter": 10, "dtype": dtype, "seed": 0}
        # duplicates + duplicate / far initial centres (a cluster empties)
        out.append(dict(base, X=[[0], [0], [1]], k=2, init=[[0], [0]]))
        out.append(dict(base, X=[[0, 0], [0, 0], [0, 0], [1, 0], [10, 0], [11, 0]], k=3, init=[[0, 0], [10, 0], [100, 0]]))
        out.append(dict(base, X=[[0], [1], [2], [3]], k=2, init=[[50], [60]]))
        for seed in range(12):
            out.append(dict(base, X=[[0], [0], [0], [1], [5]], k=3, init="random", seed=seed, n_init=2))
            out.append(dict(base, X=[[0, 1], [0, 1], [2, 3], [2, 3], [4, 4]], k=3, init="random", seed=seed))
            out.append(dict(base, X=[[0], [0], [0], [1], [5]], k=3, init="k-means++", seed=seed))
        # n == k, one cluster, ties, constant data
        out.append(dict(base, X=[[3, 1], [0, 2], [5, 5]], k=3, init="random"))
        out.append(dict(base, X=[[3], [1], [4], [1], [5]], k=1, init="k-means++"))
        out.append(dict(base, X=[[-2], [0], [2], [4]], k=2, init=[[-1], [3]]))          # point 0 / 2 tie
        out.append(dict(base, X=[[0], [2]], k=2, init=[[1], [1]]))
        out.append(dict(base, X=[[7, 7]] * 4 + [[8, 8]], k=2, init="random", seed=3))
        out.append(dict(base, X=[[1], [1], [1]], k=1, init="random"))
        out.append(dict(base, X=[[0], [1], [2], [3], [4], [5]], k=3, init=[[0], [0], [0]], max_iter=1))
        out.append(dict(base, X=[[0], [1], [2], [3], [4], [5]], k=3, init=[[0], [0], [0]], max_iter=2))
    for c in out:
        c["d"] = len(c["X"][0])
        c["flavour"], c["mode"] = "hand", "hand"
        c["kind"] = "L1"
    return out


def size_of(inp):
    return (len(inp["X"]) * len(inp["X"][0]), inp["k"], 0 if isinstance(inp["init"], str) else 1, len(json.dumps(inp)))


def search(ctx, hints):
    ctx.shadow(need_cython=True)
    import mlinsights.mlmodel.kmeans_l1 as K
    rng = ctx.rng
    found, evals, nontriv, samples = {}, 0, set(), []

    def record(case, kind, bad):
        for key, what, obs, req in bad:
            inp = {kk: case[kk] for kk in ("X", "k", "init", "n_init", "max_iter", "dtype", "seed")}
            inp["kind"] = kind
            if kind == "L2":
                inp["tol"], inp["algorithm"] = case.get("tol", 1e-4), case.get("algorithm", "lloyd")
                inp["w"] = case.get("w")
                if case.get("history"):
                    inp["history"] = case["history"]
            if "Q" in case:
                inp["Q"] = case["Q"]
            v = Violation("KMeansL1L2." + key, what, inp, obs, req)
            if v.key not in found or size_of(inp) < size_of(found[v.key].input):
                found[v.key] = v

    cases = []
    for h in hints or []:
        hi = h.get("input") if isinstance(h.get("input"), dict) else {}
        c = hi.get("case")
        if c:
            c = dict(c)
            if h.get("op") == "L2":
                c["tol"], c["algorithm"], c["kind"] = hi.get("tol", 1e-4), hi.get("algorithm", "lloyd"), "L2"
            cases.append(("hint", c))
    cases += [("hand", c) for c in degenerate_cases(rng)]
    budget = ctx.pick(250, 4000) * (2 if getattr(ctx, "broken", None) else 1)
    for t in range(budget):
        cases.append(("gen", gen_case(rng, big=ctx.thorough and t % 4 == 0)))
    # many small fits on symmetric integer grids (ties everywhere): the inertia can plateau while the centres still move,
    # which is where labels_ / inertia_ and the returned centres can come apart
    for t in range(ctx.pick(3000, 20000)):
        n = rng.randint(8, 14)
        cases.append(("grid", {"flavour": "grid", "mode": "random", "X": [[rng.randint(-3, 3), rng.randint(-3, 3)] for _ in range(n)],
                               "k": rng.choice([2, 3]), "d": 2, "init": "random", "n_init": 1,
                               "max_iter": rng.choice([3, 5, 10, 30]), "dtype": "float64", "seed": rng.randrange(1 << 30),
                               "Q": [[0, 0]]}))
    # histories: an L1 fit from given centres, then the L2 configuration through set_params; several initialisations
    # on data where the best of them beats the first
    for t in range(ctx.pick(6, 40)):
        n, k = rng.randint(60, 140), rng.randint(5, 8)
        cases.append(("history", {"flavour": "history", "mode": "random", "kind": "L2", "history": "l1-array-init",
                                  "X": [[rng.randint(0, 40) / 4.0, rng.randint(0, 40) / 4.0] for _ in range(n)],
                                  "k": k, "d": 2, "init": "random", "n_init": rng.choice([5, 10]), "max_iter": 30,
                                  "dtype": "float64", "seed": rng.randrange(1 << 30), "Q": [[0, 0]]}))
    for origin, case in cases:
        if case["init"] == "callable" and case.get("kind") == "L2":
            case["init"] = "random"
        case.setdefault("Q", query_points(rng, case))
        evals += 1
        if len(case["X"]) > 1:
            nontriv.add(case_key(case))
        if case.get("kind") == "L2":
            record(case, "L2", check_l2(K, case))
            continue
        record(case, "L1", check_l1(K, case))
        if origin != "hand" and evals % 3 == 0 and case["init"] != "callable":
            evals += 1
            case["tol"] = rng.choice([1e-4, 1e-2, 0.0, 0.5])
            case["algorithm"] = rng.choice(["lloyd", "elkan"])
            case["w"] = rng.choice([None, None, "const", "ints"])
            record(case, "L2", check_l2(K, case))
        if len(samples) < 2 and origin == "gen":
            samples.append({"X": case["X"], "k": case["k"], "init": case["init"], "dtype": case["dtype"]})
    return list(found.values()), {"evaluations": evals, "distinct_nontrivial": len(nontriv), "samples": samples}


def replay(ctx, item):
    ctx.shadow(need_cython=True)
    import mlinsights.mlmodel.kmeans_l1 as K
    inp = dict(item["input"])
    inp.setdefault("d", len(inp["X"][0]))
    bad = check_l2(K, inp) if inp.get("kind") == "L2" else check_l1(K, inp)
    return [Violation("KMeansL1L2." + k, w, item["input"], o, r) for k, w, o, r in bad]
