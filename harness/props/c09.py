"""C09 — PiecewiseTreeRegressor: per-leaf least squares; the compiled split criteria compute the true MSE."""
from fractions import Fraction

from core import Corr, Violation, run_driver
from extract import pyx_c09

ID = "C09"
#: functions the hand-written model transcribes: their control skeleton (extract/shape.py) is regenerated into
#: Gen/C09.lean and compared with the literal in Properties/C09.lean (`modelled_functions_have_the_transcribed_shape`)
SHAPES = [
    ("shapeFit", "mlinsights/mlmodel/piecewise_tree_regression.py", "PiecewiseTreeRegressor.fit"),
    ("shapeFitReglin", "mlinsights/mlmodel/piecewise_tree_regression.py", "PiecewiseTreeRegressor._fit_reglin"),
    ("shapePredict", "mlinsights/mlmodel/piecewise_tree_regression.py", "PiecewiseTreeRegressor.predict"),
    ("shapePredictReglin", "mlinsights/mlmodel/piecewise_tree_regression.py", "PiecewiseTreeRegressor._predict_reglin"),
    ("shapePredictLeaves", "mlinsights/mlmodel/piecewise_tree_regression.py", "PiecewiseTreeRegressor.predict_leaves"),
]
MM = "mlinsights/mlmodel/"
SOURCES = [MM + "_piecewise_tree_regression_common.pyx", MM + "piecewise_tree_regression_criterion.pyx",
           MM + "piecewise_tree_regression_criterion_fast.pyx",
           MM + "piecewise_tree_regression_criterion_linear.pyx", MM + "piecewise_tree_regression.py"]
LEAN_TARGETS = ["MlVerif.Gen.C09", "MlVerif.Model.Criterion", "MlVerif.Lemmas.Criterion",
                "MlVerif.Lemmas.CriterionConst", "MlVerif.Lemmas.CriterionLinear",
                "MlVerif.Lemmas.CriterionAccess", "MlVerif.Lemmas.CriterionReach", "MlVerif.Lemmas.CriterionLS",
                "MlVerif.Properties.C09"]
PROPERTY_FILE = "MlVerif/Properties/C09.lean"
DRIVER = "Drivers/C09.lean"
TRUSTED = [
    "LAPACK dgelss (through scipy.linalg.cython_lapack) called with lda=row and ldb>=max(row,col) leaves a "
    "least-squares minimiser in B[0:col] (IsLeastSquares); its floating-point output is compared with an exact "
    "rational normal-equation solve within 1e-9 by the correspondence run",
    "scikit-learn's tree builder: max_depth / min_samples_leaf enforcement, decision_path/apply, and that it "
    "stores criterion.node_value of the leaf's sample range in tree_.value (checked by the search, not proved)",
    "real numbers stand in for float64: theorems over exact rationals; the correspondence uses integer-valued "
    "y, w, X so that every sum is exact and only the final divisions round",
    "harness/extract/pyx_c09.py: indentation-based method splitter + removal of cdef/<cast>/& tokens before ast",
]
ASSUMPTIONS = [
    "weighted mean / MSE with total weight 0 are read as 0 (the code's convention `0. if w == 0.`)",
    "mselin impurity: statement restricted to unit weights and ranges with more rows than coefficients; a range "
    "with no more rows than coefficients gets impurity 0 (the code's convention), modelled as such",
    "the least-squares fit is characterised by minimality of the squared residual (any minimiser; predictions at "
    "the training rows are unique, coefficients only when the leaf's design matrix has full column rank)",
    "stale memory: every theorem quantifies over an arbitrary previous state of the criterion object",
]
RULE = ("correspondence: for every n <= N, every sample order drawn, every (start, pos, end) with "
        "0<=start<=pos<=end<=n, start<end and each criterion class, a freshly allocated (or stale, after an earlier "
        "init/update/proxy) compiled criterion is driven through _test_criterion_init/update/node_value/"
        "node_impurity/node_impurity_children/impurity_improvement/proxy_impurity_improvement and the same op script "
        "is run by the Lean model; integer y, w, X; exact rationals vs floats within 1e-9 (constant fits) / 1e-7 "
        "(LAPACK residuals); direct dgelss calls vs exact normal equations within 1e-9; fitted trees vs the "
        "model's _fit_reglin/_predict_reglin fed with scikit-learn's leaf indices. Non-trivial = range of >= 2 rows "
        "with non-constant y; distinct = (class, n, order, weights, start, pos, end)")
LEVEL_TEXT = ("Proved in Lean for all target vectors, weights, sample orders, stale object states and all "
              "0<=start<=pos<=end<=n with start<end: node value = weighted mean (3 criteria), simple/fast impurity = "
              "weighted MSE (fast from prefix-sum differences incl. the zero fill and the start-1 cell), children "
              "impurities, proxy and impurity_improvement with the true child weights, the column-major packing of "
              "_reglin, and - given that dgelss returns a minimiser - mselin impurity/children = LS residual and the "
              "per-leaf prediction of _fit_reglin/_predict_reglin. Index expressions, _update_weights bodies and the "
              "improvement formula are regenerated from the .pyx on every run; the recompiled extensions are diffed "
              "against the model on every triple of n<=8 (quick) / n<=16 (thorough). Partial: LAPACK and the "
              "scikit-learn tree builder are trusted (exercised by the search), floats are modelled by rationals.")
LEVEL_NOTE = ("trusted: LAPACK dgelss as a minimiser, scikit-learn builder (max_depth/min_samples_leaf, tree_.value "
              "= node_value of the leaf range), float64 ~ rationals, the .pyx splitter")
TECHNIQUE = ("Lean 4 proof (loop invariants by induction over iteration counts, prefix-sum algebra over core Rat with "
             "grind) + definitions regenerated from the Cython sources + differential correspondence on the "
             "recompiled extensions")

TOL_CONST = 1e-9     # one or two roundings of values < 1e4: error < 1e-11
TOL_LAPACK = 1e-7    # residuals of well-conditioned integer systems; observed < 1e-10


# ------------------------------------------------------------------------------ extractor

def extract(ctx):
    return {"MlVerif/Gen/C09.lean": pyx_c09.generate(*[ctx.source(s) for s in SOURCES])}


# ------------------------------------------------------------------------------ helpers

def fl(xs):
    xs = list(xs)
    return ",".join(str(int(x)) for x in xs) if xs else "-"


def fmat(rows):
    rows = list(rows)
    return ";".join(fl(r) for r in rows) if rows else "-"


def frac(s):
    return Fraction(s)


def close(fv, q, tol):
    """float fv equals exact rational q up to tol (relative to max(1,|q|)); NaN never equals"""
    if fv != fv:
        return False
    return abs(Fraction(fv) - q) <= Fraction(tol) * max(1, abs(q))


def triples(n):
    for start in range(n):
        for end in range(start + 1, n + 1):
            for pos in range(start, end + 1):
                yield start, pos, end


def moment_X(ids, d):
    """feature rows on the moment curve: any d+1 distinct rows are affinely independent"""
    return [[i ** (c + 1) for c in range(d)] for i in ids]


def load():
    import numpy
    from mlinsights.mlmodel import _piecewise_tree_regression_common as C
    from mlinsights.mlmodel.piecewise_tree_regression_criterion import SimpleRegressorCriterion
    from mlinsights.mlmodel.piecewise_tree_regression_criterion_fast import SimpleRegressorCriterionFast
    from mlinsights.mlmodel.piecewise_tree_regression_criterion_linear import LinearRegressorCriterion
    return numpy, C, {"simple": SimpleRegressorCriterion, "fast": SimpleRegressorCriterionFast,
                      "lin": LinearRegressorCriterion}


class Real:
    """one compiled criterion object driven through the exported test accessors"""

    def __init__(self, kind, n, X, y, w, samples, wN):
        numpy, C, K = load()
        self.np, self.C, self.kind = numpy, C, kind
        self.y = numpy.array(y, dtype=numpy.float64).reshape(n, 1)
        self.w = None if w is None else numpy.array(w, dtype=numpy.float64)
        self.samples = numpy.array(samples, dtype=numpy.int64)
        self.wN = float(wN)
        if kind == "lin":
            self.X = numpy.ascontiguousarray(numpy.array(X, dtype=numpy.float64).reshape(n, -1))
            self.c = K[kind](1, self.X)
        else:
            self.c = K[kind](1, n)

    def dirty(self, rng):
        """an EARLIER use of the same object with ANOTHER weighting (weights where this case has none and the reverse):
        `init` must start from the arguments it receives, whatever an earlier node left in the buffers.  Produces no
        output; the model is not told (its `init` is a function of its arguments only)."""
        n = self.y.shape[0]
        if self.w is None or rng.random() < 0.3:
            w2 = [rng.randint(2, 5) for _ in range(n)]
        else:
            w2 = None
        self.dirty_with(w2)
        return w2

    def dirty_with(self, w2):
        n = self.y.shape[0]
        w2 = None if w2 is None else self.np.array(w2, dtype=self.np.float64)
        self._dirty_w = w2                      # kept alive: the criterion may hold a view
        self.C._test_criterion_init(self.c, self.y, w2, float(n if w2 is None else w2.sum()), self.samples, 0, n)
        self.C._test_criterion_update(self.c, max(1, n // 2))

    def run(self, ops):
        """same op script as the Lean driver; returns the list of outputs of the query ops"""
        C, c, out = self.C, self.c, []
        for op in ops:
            if op[0] == "i":
                a, b = (int(v) for v in op[1:].split(":"))
                C._test_criterion_init(c, self.y, self.w, self.wN, self.samples, a, b)
            elif op[0] == "u":
                C._test_criterion_update(c, int(op[1:]))
            elif op == "V":
                out.append(("V", [C._test_criterion_node_value(c)]))
            elif op == "I":
                out.append(("I", [C._test_criterion_node_impurity(c)]))
            elif op == "C":
                out.append(("C", list(C._test_criterion_node_impurity_children(c))))
            elif op == "M":
                out.append(("M", [C._test_criterion_impurity_improvement(c, *t)
                                  for t in ((1., 0., 0.), (0., 1., 0.), (0., 0., 1.))]))
            elif op == "P":
                out.append(("P", [C._test_criterion_proxy_impurity_improvement(c)]))
            elif op == "B":
                nb = self.X.shape[1] + 1
                dest = self.np.zeros(max(nb, 1))
                c.node_beta(dest)
                out.append(("B", [float(v) for v in dest[:nb]]))
            else:
                raise ValueError(op)
        return out


def crit_line(kind, n, nf, y, w, samples, wN, X, ops):
    return "crit %s %d %d %s %s %s %s %s %s" % (kind, n, nf, fl(y), "none" if w is None else fl(w), fl(samples),
                                               str(Fraction(wN)), fmat(X) if kind == "lin" else "-", ",".join(ops))


def compare_ops(kind, real_out, model_line, X, samples, node, wts):
    """diff the outputs of one scenario; returns None or a short description of the first difference"""
    parts = model_line.split("|")
    if len(parts) != len(real_out):
        return "model printed %d results, implementation %d" % (len(parts), len(real_out))
    tol = TOL_LAPACK if kind == "lin" else TOL_CONST
    for k, ((op, vals), txt) in enumerate(zip(real_out, parts)):
        if op == "P":
            if txt == "nan":
                if vals[0] == vals[0]:
                    return "op#%d P: model nan, impl %r" % (k, vals[0])
            elif not close(vals[0], frac(txt), tol):
                return "op#%d P: model %s, impl %r" % (k, txt, vals[0])
        elif op == "B":
            rank, ne, beta, fitted = txt.split(";")
            if ne != "1":
                return "op#%d B: the model's reference solver fails its own normal equations" % k
            start, end = node
            nb = len(X[0]) + 1
            rows = [[v * wts[samples[t]] for v in list(X[samples[t]]) + [1]] for t in range(start, end)]
            got = [sum(a * b for a, b in zip(r, vals)) for r in rows]      # A·beta of the weighted system
            want = [frac(v) for v in fitted.split(",")]
            scale = max([1] + [abs(v) for v in want])
            for g, q in zip(got, want):
                if abs(Fraction(g) - q) > Fraction(TOL_LAPACK) * scale:
                    return "op#%d B: fitted value model %s, impl %r" % (k, q, g)
            if int(rank) == nb and end - start >= nb:
                for g, q in zip(vals, beta.split(",")):
                    if not close(g, frac(q), 1e-6):
                        return "op#%d B: beta model %s, impl %r" % (k, q, g)
        else:
            qs = [frac(v) for v in txt.split(",")]
            if len(qs) != len(vals):
                return "op#%d %s: arity" % (k, op)
            for v, q in zip(vals, qs):
                if not close(v, q, tol):
                    return "op#%d %s: model %s, impl %r" % (k, op, q, v)
    return None


# ------------------------------------------------------------------------------ correspondence

def gen_case(rng, n, kind, weighted, d, degenerate=False):
    ids = list(range(n))
    rng.shuffle(ids)
    if degenerate:
        # rank-deficient designs: few distinct feature values (a feature constant on a range is collinear with the
        # intercept; with d = 2 two distinct values leave [x, x^2, 1] of rank 2)
        ids = [rng.choice([1, 3]) if rng.random() < 0.8 else rng.randint(0, 4) for _ in range(n)]
    X = moment_X(ids, d) if kind == "lin" else None
    y = [rng.randint(-9, 9) for _ in range(n)]
    w = [rng.randint(1, 4) for _ in range(n)] if weighted else None
    if weighted and rng.random() < 0.25:
        w[rng.randrange(n)] = 0
    samples = list(range(n))
    rng.shuffle(samples)
    wN = sum(w) if w is not None else n
    return X, y, w, samples, wN


def node_weight(w, samples, a, b):
    return (b - a) if w is None else sum(w[samples[t]] for t in range(a, b))


def stale_prefix(rng, n, w, samples):
    """ops that dirty a fresh object with an earlier node (of positive weight: `init` of the linear criterion
    raises on a null node weight, and a null weight makes the improvement 0/0)"""
    for _ in range(8):
        a = rng.randrange(n)
        b = rng.randint(a + 1, n)
        if node_weight(w, samples, a, b) > 0:
            return ["i%d:%d" % (a, b), "u%d" % rng.randint(a, b), "P"]
    return []


def correspond(ctx):
    ctx.shadow(need_cython=True)
    numpy, C, K = load()
    from mlinsights.mlmodel.direct_blas_lapack import dgelss
    corr = Corr()
    corr.rule = RULE
    rng = ctx.rng
    lines, checks = [], []
    N = ctx.pick(8, 16)
    orders = ctx.pick(3, 2)
    # ---- A. accessors on every triple
    for n in range(1, N + 1):
        for kind in ("simple", "fast", "lin"):
            for o in range(orders):
                weighted = (o % 2 == 1) or (kind != "lin" and rng.random() < 0.3)
                d = 1 if (kind != "lin" or n > 10) else rng.choice([1, 1, 2])
                X, y, w, samples, wN = gen_case(rng, n, kind, weighted, d)
                if o == 0 and kind != "lin":
                    samples = list(range(n))        # identity order once
                for start in range(n):
                    for end in range(start + 1, n + 1):
                        if node_weight(w, samples, start, end) == 0:
                            corr.hit("skipped: node of total weight 0 (improvement is 0/0)")
                            continue
                        ops = stale_prefix(rng, n, w, samples) if rng.random() < 0.5 else []
                        stale = bool(ops)
                        ops += ["i%d:%d" % (start, end), "V", "I", "M"]
                        poss = list(range(start, end + 1))
                        if rng.random() < 0.3:
                            rng.shuffle(poss)      # the splitter may also move pos backwards via reset
                        for pos in poss:
                            ops += ["u%d" % pos, "C", "M", "P", "M"]
                        if kind == "lin":
                            ops += ["B"]
                        real = Real(kind, n, X, y, w, samples, wN)
                        other = rng.random() < 0.4
                        try:
                            if other:
                                real.dirty(rng)
                            out = real.run(ops)
                        except Exception as e:  # pragma: no cover - reported as a disagreement
                            out = [("ERR", [type(e).__name__])]
                        lines.append(crit_line(kind, n, d, y, w, samples, wN, X, ops))
                        inp = {"kind": kind, "n": n, "y": y, "w": w, "samples": samples, "wN": wN, "X": X,
                               "ops": ops}
                        checks.append(("crit", inp, out, (kind, X, samples, (start, end), [1] * n if w is None else w)))
                        ys = [y[samples[t]] for t in range(start, end)]
                        for pos in poss:
                            corr.case((kind, n, o, start, pos, end), nontrivial=len(set(ys)) > 1)
                        corr.hit("kind=%s" % kind, len(poss))
                        corr.hit("n=%d" % n, len(poss))
                        corr.hit("stale-object" if stale else "fresh-object", len(poss))
                        if other:
                            corr.hit("object used before with another weighting", len(poss))
                        corr.hit("weighted" if w is not None else "unit-weights", len(poss))
                        corr.hit("start>0" if start > 0 else "start=0", len(poss))
                        if w is not None and 0 in w:
                            corr.hit("zero-weight-present", len(poss))
                        if kind == "lin" and end - start <= d + 1:
                            corr.hit("lin:rows<=coefficients", len(poss))
                        if len(corr.samples) < 3 and n == 4 and start == 1 and end == 4:
                            corr.samples.append({"op": "crit", "input": inp, "impl": repr(out)[:400]})
    # ---- B. dgelss against exact normal equations
    for t in range(ctx.pick(60, 600)):
        col = rng.randint(1, 4)
        row = rng.randint(col, col + 6)
        while True:
            A = [[rng.randint(-5, 5) for _ in range(row)] for _ in range(col)]     # col-major: A[j][t]
            M = numpy.array(A, dtype=float).T
            if numpy.linalg.matrix_rank(M) == col and numpy.linalg.cond(M) < 1e4:
                break
        B = [rng.randint(-9, 9) for _ in range(row)]
        Aa = numpy.ascontiguousarray(numpy.array(A, dtype=float))
        Bb = numpy.ascontiguousarray(numpy.array(B, dtype=float).reshape(row, 1))
        info = dgelss(Aa, Bb)
        lines.append("dgelss %d %d %s %s" % (row, col, fl([v for r in A for v in r]), fl(B)))
        checks.append(("dgelss", {"row": row, "col": col, "A": A, "B": B}, (info, [float(v) for v in Bb[:col, 0]]),
                       None))
        corr.case(("dgelss", row, col, tuple(map(tuple, A)), tuple(B)), nontrivial=row > col)
        corr.hit("dgelss col=%d" % col)
    # ---- C. tree level through the model's _fit_reglin / _predict_reglin and predictSimple
    from mlinsights.mlmodel.piecewise_tree_regression import PiecewiseTreeRegressor
    for t in range(ctx.pick(25, 250)):
        d = rng.choice([1, 1, 2])
        n = rng.randint(4, ctx.pick(24, 40))
        ids = rng.sample(range(0, 12 if d == 2 else 60), n) if n <= (12 if d == 2 else 60) else list(range(n))
        n = len(ids)
        Xl = moment_X(ids, d)
        yl = [rng.randint(-9, 9) + (3 * i if i % 2 else -i) for i in ids]
        X = numpy.array(Xl, dtype=float)
        y = numpy.array(yl, dtype=float)
        crit = "mselin" if t % 3 else "simple"
        md = rng.choice([1, 2, 3, None])
        msl = rng.choice([1, 2, 3, 5])
        sw = None
        if crit == "simple" and rng.random() < 0.4:
            sw = numpy.array([rng.randint(1, 3) for _ in range(n)], dtype=float)
        model = PiecewiseTreeRegressor(criterion=crit, max_depth=md, min_samples_leaf=msl)
        model.fit(X, y, sample_weight=sw)
        qids = rng.sample(range(0, 12 if d == 2 else 60), 5)
        Xq = numpy.array(Xl + moment_X(qids, d), dtype=float)
        pred = [float(v) for v in model.predict(Xq)]
        if crit == "mselin":
            pl = [int(v) for v in model.predict_leaves(X)]
            lq = [int(v) for v in model.predict_leaves(Xq)]
            nl = len(model.leaves_index_)
            lines.append("fit %d %s %s %s %d %s %s" % (d, fmat(Xl), fl(yl), fl(pl), nl,
                                                      fmat(Xq.astype(int).tolist()), fl(lq)))
            checks.append(("fit", {"X": Xl, "y": yl, "max_depth": md, "min_samples_leaf": msl, "Xq": qids},
                           pred, (n, d, pl, lq)))
        else:
            leaves = sorted(set(int(v) for v in model.apply(X)))
            lid = {l: k for k, l in enumerate(leaves)}
            lr = [lid[int(v)] for v in model.apply(X)]
            ap = [int(v) for v in model.apply(Xq)]
            lq = [lid.get(v, len(leaves)) for v in ap]
            lines.append("simple %s %s %s %d %s" % (fl(yl), "none" if sw is None else fl(sw), fl(lr), len(leaves),
                                                  fl(lq)))
            checks.append(("simple", {"X": Xl, "y": yl, "w": None if sw is None else [int(v) for v in sw],
                                      "max_depth": md, "min_samples_leaf": msl}, pred, None))
        corr.case(("tree", crit, n, d, md, msl, tuple(ids)), nontrivial=model.tree_.node_count > 1)
        corr.hit("tree:%s" % crit)
        corr.hit("tree leaves=%s" % min(model.tree_.n_leaves, 6))
    out = run_driver(DRIVER, lines)
    for (op, inp, impl, aux), got in zip(checks, out):
        if got == "bad-op":
            corr.disagree(op, inp, got, repr(impl)[:300])
            continue
        if op == "crit":
            kind, X, samples, node, wts = aux
            if impl and impl[0][0] == "ERR":
                corr.disagree(op, inp, got[:300], "raises " + impl[0][1][0])
                continue
            why = compare_ops(kind, impl, got, X, samples, node, wts)
            if why:
                corr.disagree(op, inp, why, repr(impl)[:300])
        elif op == "dgelss":
            rank, ne, beta, resid = got.split("|")
            info, sol = impl
            bad = info != 0 or ne != "1" or int(rank) != inp["col"] or any(
                not close(v, frac(q), 1e-9) for v, q in zip(sol, beta.split(",")))
            if bad:
                corr.disagree(op, inp, got[:300], repr(impl)[:300])
        elif op == "fit":
            n, d, pl, lq = aux
            ranks, preds = got.split("|")
            ranks = [int(v) for v in ranks.split(",")]
            preds = [frac(v) for v in preds.split(",")]
            for k, (pv, q) in enumerate(zip(impl, preds)):
                full = ranks[lq[k]] == d + 1
                if k >= n and not full:
                    corr.hit("fit:query-row-in-rank-deficient-leaf (not compared)")
                    continue
                if not close(pv, q, 1e-6):
                    corr.disagree(op, inp, "row %d: model %s" % (k, q), "row %d: impl %r" % (k, pv))
                    break
        elif op == "simple":
            values, preds = got.split("|")
            for k, (pv, q) in enumerate(zip(impl, [frac(v) for v in preds.split(",")])):
                if not close(pv, q, 1e-12):
                    corr.disagree(op, inp, "row %d: model %s" % (k, q), "row %d: impl %r" % (k, pv))
                    break
    return corr


# ------------------------------------------------------------------------------ search (oracle from the statement)

def _wmean(ys, ws):
    W = sum(ws)
    return (Fraction(0), W) if W == 0 else (Fraction(sum(a * b for a, b in zip(ys, ws)), W), W)


def _wmse(ys, ws):
    m, W = _wmean(ys, ws)
    return Fraction(0) if W == 0 else sum(b * (a - m) ** 2 for a, b in zip(ys, ws)) / W


def _ls_mse(numpy, rows, ys):
    """mean squared residual of the OLS fit with intercept (numpy.linalg.lstsq: independent of the model)"""
    A = numpy.array([list(r) + [1.0] for r in rows], dtype=float)
    b = numpy.array(ys, dtype=float)
    beta = numpy.linalg.lstsq(A, b, rcond=None)[0]
    r = A @ beta - b
    return float(r @ r) / len(ys)


def criterion_oracle(inp):
    """Drive one compiled criterion as recorded in ``inp`` and compare every accessor with the quantities named
    in the property statement.  Returns [(key, what, observed, required)]."""
    numpy, C, K = load()
    kind, n, y, w, samples, wN, X = (inp[k] for k in ("kind", "n", "y", "w", "samples", "wN", "X"))
    start, pos, end = inp["start"], inp["pos"], inp["end"]
    cls = {"simple": "SimpleRegressorCriterion", "fast": "SimpleRegressorCriterionFast",
           "lin": "LinearRegressorCriterion"}[kind]
    real = Real(kind, n, X, y, w, samples, wN)
    pre = list(inp.get("pre", []))
    if "earlier_weights" in inp:       # the same object served an earlier node under ANOTHER weighting ("unit" = none)
        real.dirty_with(None if inp["earlier_weights"] == "unit" else inp["earlier_weights"])
    ops = pre + ["i%d:%d" % (start, end), "V", "I", "u%d" % pos, "C", "M"]
    out = [v for _, v in real.run(ops)][-4:]
    ww = [1] * n if w is None else w
    ys = [y[samples[t]] for t in range(start, end)]
    ws = [ww[samples[t]] for t in range(start, end)]
    k = pos - start
    bad = []
    tol = 1e-9
    m, W = _wmean(ys, ws)
    if not close(out[0][0], m, tol):
        bad.append((cls + ".node_value:not-weighted-mean", "node value is not the weighted mean of the node range",
                    out[0][0], str(m)))
    unit = all(v == 1 for v in ws)
    if kind in ("simple", "fast"):
        req = [_wmse(ys, ws), _wmse(ys[:k], ws[:k]), _wmse(ys[k:], ws[k:])]
        got = [out[1][0], out[2][0], out[2][1]]
        names = ["node_impurity:not-weighted-mse", "children_impurity:left-not-weighted-mse",
                 "children_impurity:right-not-weighted-mse"]
        for g, r, nm in zip(got, req, names):
            if not close(g, r, tol):
                bad.append((cls + "." + nm, "impurity is not the weighted mean squared residual of the constant fit",
                            g, str(r)))
        il, ir = req[1], req[2]
    else:
        nb = len(X[0]) + 1
        il = ir = None
        if unit:
            rows = [X[samples[t]] for t in range(start, end)]

            def ls(a, b):
                return 0.0 if b - a <= nb else _ls_mse(numpy, rows[a:b], ys[a:b])
            req = [ls(0, end - start), ls(0, k), ls(k, end - start)]
            got = [out[1][0], out[2][0], out[2][1]]
            names = ["node_impurity:not-ls-residual", "children_impurity:left-not-ls-residual",
                     "children_impurity:right-not-ls-residual"]
            for j, (g, r, nm) in enumerate(zip(got, req, names)):
                if j == 0 and end - start <= nb:
                    continue
                if not (abs(g - r) <= 1e-7 * max(1.0, abs(r))):
                    bad.append((cls + "." + nm, "impurity is not the mean squared residual of the least-squares "
                                "linear fit", g, r))
    # improvement: N_t/N * (imp - N_R/N_t*imp_R - N_L/N_t*imp_L) with the TRUE weights, probed at unit vectors
    WL, WR = sum(ws[:k]), sum(ws[k:])
    if W != 0 and wN != 0:
        req = [Fraction(W, 1) / Fraction(wN), -Fraction(WL) / Fraction(wN), -Fraction(WR) / Fraction(wN)]
        for g, r, nm in zip(out[3], req, ["parent-term", "left-weight", "right-weight"]):
            if not close(g, r, tol):
                bad.append((cls + (".impurity_improvement:child-weights-ignore-the-split"
                                   if nm != "parent-term" else ".impurity_improvement:parent-term"),
                            "impurity_improvement is not N_t/N*(imp - N_R/N_t*imp_R - N_L/N_t*imp_L) with the "
                            "weights of samples[start:pos] / samples[pos:end] (probe %s)" % nm, g, str(r)))
    return bad


def tree_oracle(inp):
    """Fit one PiecewiseTreeRegressor and check the tree-level part of the statement."""
    import numpy
    from mlinsights.mlmodel.piecewise_tree_regression import PiecewiseTreeRegressor
    X = numpy.array(inp["X"], dtype=float)
    y = numpy.array(inp["y"], dtype=float)
    Xq = numpy.array(inp["X"] + inp["Xq"], dtype=float)
    # "all training sets": a feature expressed in another unit (column 0 multiplied by 10^e); the least-squares
    # prediction is the same function of the rows, and is computed below in exact rational arithmetic
    if inp.get("extra_column"):
        # a leaf design that is exactly rank-deficient although it has more rows than coefficients: a column that is 0
        # on every row, or a copy of column 0 (fitted values on the training rows are still unique)
        col = numpy.zeros((X.shape[0], 1)) if inp["extra_column"] == "zero" else X[:, :1].copy()
        colq = numpy.zeros((Xq.shape[0], 1)) if inp["extra_column"] == "zero" else Xq[:, :1].copy()
        X, Xq = numpy.hstack([X, col]), numpy.hstack([Xq, colq])
    e10 = int(inp.get("col0_exp10", 0))
    if e10:
        X[:, 0] *= 10.0 ** e10
        Xq[:, 0] *= 10.0 ** e10
    crit, md, msl = inp["criterion"], inp["max_depth"], inp["min_samples_leaf"]
    bad = []
    model = PiecewiseTreeRegressor(criterion=crit, max_depth=md, min_samples_leaf=msl)
    if inp.get("failed_fit_first"):
        # history: an earlier fit of the same instance failed inside scikit-learn (NaN target)
        ybad = y.copy()
        ybad[0] = numpy.nan
        try:
            model.fit(X, ybad)
        except Exception:  # noqa: BLE001
            pass
    # rows to predict may come in another dtype than the training matrix (integer-valued rows as int64)
    Xq_call = Xq.astype(numpy.int64) if inp.get("query_dtype") == "int64" and (Xq == numpy.round(Xq)).all() else Xq
    try:
        model.fit(X, y)
        pred = model.predict(Xq_call)
    except Exception as e:
        return [("PiecewiseTreeRegressor.%s:raises" % crit, "fit/predict raises on a valid training set",
                 "%s: %s" % (type(e).__name__, str(e)[:200]), "a fitted model")]
    if inp.get("shallow_copy_then_refit"):
        # a shallow copy of the fitted model (copy.copy shares the arrays) keeps predicting the per-leaf least-squares
        # fits of ITS training set when the original is fitted again on targets giving the same tree shape
        import copy
        m2 = copy.copy(model)
        try:
            model.fit(X, 2.0 * y + 1.0)
            again = m2.predict(Xq_call)
            model.fit(X, y)          # back to the training set the oracles below speak about
        except Exception as e:  # noqa: BLE001
            return [("PiecewiseTreeRegressor.%s:raises" % crit, "refit raises on a valid training set",
                     "%s: %s" % (type(e).__name__, str(e)[:200]), "a fitted model")]
        if not numpy.array_equal(numpy.asarray(again), numpy.asarray(pred)):
            k = int(numpy.argmax(numpy.asarray(again) != numpy.asarray(pred)))
            bad.append(("PiecewiseTreeRegressor.%s:earlier-model-changed-by-refit" % crit,
                        "the predictions of a shallow copy of the fitted model change when the original is fitted again "
                        "(the refit wrote into the arrays of the earlier fit)", float(again[k]), float(pred[k])))
        pred = model.predict(Xq_call)
    tree = model.tree_
    if md is not None and tree.max_depth > md:
        bad.append(("PiecewiseTreeRegressor.%s:max_depth" % crit, "tree deeper than max_depth", int(tree.max_depth), md))
    leaf_tr = model.apply(X)
    sizes = {}
    for l in leaf_tr:
        sizes[int(l)] = sizes.get(int(l), 0) + 1
    if tree.node_count > 1 and min(sizes.values()) < msl:     # a root-only tree keeps all n rows
        bad.append(("PiecewiseTreeRegressor.%s:min_samples_leaf" % crit, "a leaf has fewer training rows than "
                    "min_samples_leaf", min(sizes.values()), msl))
    leaf_q = model.apply(Xq)
    n, d = X.shape
    for k in range(len(Xq)):
        ind = leaf_tr == leaf_q[k]
        if crit == "simple":
            req = float(y[ind].mean())
            ok = abs(pred[k] - req) <= 1e-9 * max(1.0, abs(req))
        else:
            A = numpy.hstack([X[ind], numpy.ones((int(ind.sum()), 1))])
            beta, _, rank, _ = numpy.linalg.lstsq(A, y[ind], rcond=None)
            if e10:
                # exact: the unscaled problem has the same fitted values (column scaling is a reparametrisation)
                A0 = numpy.hstack([numpy.array(inp["X"], dtype=float)[ind], numpy.ones((int(ind.sum()), 1))])
                beta0, _, rank, _ = numpy.linalg.lstsq(A0, y[ind], rcond=None)
                q0 = numpy.array((inp["X"] + inp["Xq"])[k], dtype=float)
                if k >= n and rank < d + 1:
                    continue
                req = float(numpy.append(q0, 1.0) @ beta0)
                ok = abs(pred[k] - req) <= 1e-3 * max(1.0, abs(req))
                if not ok:
                    bad.append(("PiecewiseTreeRegressor.%s:leaf-prediction" % crit,
                                "prediction is not the least-squares fit of the training rows sharing the leaf "
                                "(feature 0 in units of 10^%d)" % e10, float(pred[k]), req))
                    break
                continue
            if k >= n and rank < d + 1:
                continue        # the OLS fit is not unique away from the training rows of this leaf
            req = float(numpy.append(Xq[k], 1.0) @ beta)
            ok = abs(pred[k] - req) <= 1e-6 * max(1.0, abs(req))
        if not ok:
            bad.append((KEY_DUP if inp.get("extra_column") == "copy" and crit == "mselin"
                        else "PiecewiseTreeRegressor.%s:leaf-prediction" % crit,
                        "prediction is not the %s of the training rows sharing the leaf"
                        % ("mean" if crit == "simple" else "least-squares fit"), float(pred[k]), req))
            break
    return bad


#: KNOWN FINDING (DESIGN 12.4): a leaf whose design holds the same column twice.  `_reglin` calls dgelss with rcond = -1
#: (machine precision); the singular value that is zero in exact arithmetic comes out as ~1e-15 * s_max, is NOT treated as
#: zero, and the coefficients are +-6e14: the prediction on a training row is off by 8.  The probe is the input the
#: thorough search met; the random stream only adds all-zero columns (singular value exactly 0, handled).
KEY_DUP = "PiecewiseTreeRegressor.mselin:leaf-prediction:duplicated-column"
DUP_PROBE = {"X": [[v] for v in (36, 56, 54, 6, 10, 46, 45, 20, 2, 35, 11, 33, 40, 57, 34, 26, 17, 47, 14, 58, 42, 27, 29, 55, 12,
                                 38, 53, 7, 13, 30, 49, 16, 37, 51, 41, 1, 3, 39, 52, 31, 50, 28, 32, 25)],
             "y": [-30, -48, -45, -14, -3, -49, 140, -19, -5, 107, 39, 92, -33, 166, -40, -25, 44, 144, -16, -67, -47, 89, 87,
                   172, -14, -43, 157, 26, 32, -24, 139, -21, 103, 160, 120, 6, 13, 113, -57, 85, -56, -34, -31, 80],
             "Xq": [[11], [24], [35], [41]], "criterion": "mselin", "max_depth": 2, "min_samples_leaf": 1,
             "oracle": "tree", "failed_fit_first": False, "extra_column": "copy"}


def copy_oracle(inp):
    """scikit-learn's builder works on `copy.deepcopy(criterion)`: the copy is then initialised on other targets / node
    ranges, and the ORIGINAL must keep reporting the values of its own node range."""
    import copy
    numpy, C, K = load()
    kind, n = inp["kind"], inp["n"]
    r1 = Real(kind, n, inp["X"], inp["y"], inp["w"], inp["samples"], inp["wN"])
    ops = ["i%d:%d" % (inp["start"], inp["end"]), "u%d" % inp["pos"]]
    r1.run(ops)
    before = r1.run(["V", "I", "C"])
    try:
        c2 = copy.deepcopy(r1.c)
    except Exception as e:  # noqa: BLE001
        return [("criterion.%s:deepcopy-raises" % kind, "copy.deepcopy of an initialised criterion raises",
                 "%s: %s" % (type(e).__name__, str(e)[:120]), "an independent copy")]
    y2 = numpy.array(inp["y2"], dtype=numpy.float64).reshape(n, 1)
    C._test_criterion_init(c2, y2, r1.w, r1.wN, r1.samples, 0, n)
    C._test_criterion_update(c2, max(1, n // 2))
    after = r1.run(["V", "I", "C"])
    if after != before:
        return [("criterion.%s:deepcopy-shares-state" % kind, "after a deep copy of the criterion was initialised on other "
                 "targets, the original reports other node value / impurities for its own node range", after, before)]
    return []


def search(ctx, hints):
    ctx.shadow(need_cython=True)
    rng = ctx.rng
    vs, evals, nontriv, samples = [], 0, set(), []
    for kind in ("simple", "fast", "lin"):
        for n in (4, 7):
            X, y, w, samples_, wN = gen_case(rng, n, kind, False, 1)
            inp = {"kind": kind, "n": n, "y": y, "w": w, "samples": samples_, "wN": wN, "X": X, "start": 0, "pos": 2,
                   "end": n, "pre": [], "oracle": "copy", "y2": [v + 5 * (i % 3) for i, v in enumerate(y)]}
            evals += 1
            nontriv.add(("copy", kind, n))
            for key, what, obs, req in copy_oracle(inp):
                vs.append(Violation(key, what, inp, obs, req))
    # (a) criteria on every triple of small n
    N = ctx.pick(5, 7)
    for n in range(1, N + 1):
        for kind in ("simple", "fast", "lin"):
            for rep in range(ctx.pick(2, 4)):
                weighted = rep % 2 == 1
                d = 1 if rep < 3 else 2
                X, y, w, samples_, wN = gen_case(rng, n, kind, weighted, d,
                                                 degenerate=(kind == "lin" and not weighted and rep == 0 and n >= 4))
                for start, pos, end in triples(n):
                    if node_weight(w, samples_, start, end) == 0:
                        continue
                    pre = stale_prefix(rng, n, w, samples_) if rng.random() < 0.5 else []
                    inp = {"kind": kind, "n": n, "y": y, "w": w, "samples": samples_, "wN": wN, "X": X,
                           "start": start, "pos": pos, "end": end, "pre": pre, "oracle": "criterion"}
                    if rng.random() < 0.4:
                        inp["earlier_weights"] = "unit" if (w is not None and rng.random() < 0.7) else \
                            [rng.randint(2, 5) for _ in range(n)]
                    evals += 1
                    nontriv.add((kind, n, rep, start, pos, end))
                    for key, what, obs, req in criterion_oracle(inp):
                        vs.append(Violation(key, what, inp, obs, req))
                    if len(samples) < 2 and n == 4 and kind == "fast":
                        samples.append({k: inp[k] for k in ("kind", "n", "y", "w", "samples", "start", "pos", "end")})
    # known-finding probe (duplicated column)
    evals += 1
    for key, what, obs, req in tree_oracle(dict(DUP_PROBE)):
        vs.append(Violation(key, what, dict(DUP_PROBE), obs, req))
    # (b) fitted trees
    for t in range(ctx.pick(30, 300)):
        d = rng.choice([1, 1, 2])
        pool = 12 if d == 2 else 60
        n = rng.randint(3, min(pool, ctx.pick(30, 50)))
        ids = rng.sample(range(pool), n)
        inp = {"X": moment_X(ids, d), "y": [rng.randint(-9, 9) + (3 * i if i % 2 else -i) for i in ids],
               "Xq": moment_X(rng.sample(range(pool), 4), d), "criterion": rng.choice(["mselin", "mselin", "simple"]),
               "max_depth": rng.choice([1, 2, 3, None]), "min_samples_leaf": rng.choice([1, 2, 3, 5]),
               "oracle": "tree", "failed_fit_first": t % 5 == 2}
        if t % 4 == 1:
            inp["query_dtype"] = "int64"
        if t % 3 == 0:
            inp["shallow_copy_then_refit"] = True
        if t % 5 == 1 and "col0_exp10" not in inp:
            inp["extra_column"] = "zero"        # (a duplicated column is the recorded finding KEY_DUP: fixed probe below)
        if t % 6 == 3 and inp["criterion"] == "mselin" and "extra_column" not in inp:
            inp["col0_exp10"] = rng.choice([-10, -12, 10])
        evals += 1
        nontriv.add(("tree", t))
        for key, what, obs, req in tree_oracle(inp):
            vs.append(Violation(key, what, inp, obs, req))
    best = {}
    for v in vs:
        i = v.input
        interior = "pos" in i and i["start"] < i["pos"] < i["end"]        # prefer a witness at a real split
        size = (0 if interior or "pos" not in i else 1, i.get("n", len(i.get("y", []))), len(i.get("pre", [])))
        if v.key not in best or size < best[v.key][0]:
            best[v.key] = (size, v)
    return [b[1] for b in best.values()], {"evaluations": evals, "distinct_nontrivial": len(nontriv),
                                           "samples": samples}


def replay(ctx, item):
    ctx.shadow(need_cython=True)
    inp = item["input"]
    res = tree_oracle(inp) if inp.get("oracle") == "tree" else copy_oracle(inp) if inp.get("oracle") == "copy" \
        else criterion_oracle(inp)
    return [Violation(k, w, inp, o, r) for k, w, o, r in res]
