"""C16 — Pipeline introspection and drawing describe the pipeline they are given."""
import random
import warnings

from core import Corr, Violation, run_driver
from extract import c16_ast, c16_gen as G, c16_dot as D, c16_oracle as O

ID = "C16"
#: functions the hand-written model transcribes: their control skeleton / full text (extract/shape.py) is regenerated into
#: Gen/C16.lean and compared with the literal in Properties/C16.lean (`modelled_functions_have_the_transcribed_shape`)
SHAPES = [
    ("shapePipelineInfo", "mlinsights/plotting/visualize.py", "_pipeline_info"),
    ("shapePipeline2dot", "mlinsights/plotting/visualize.py", "pipeline2dot", "full"),
    ("shapePipeline2str", "mlinsights/plotting/visualize.py", "pipeline2str", "full"),
    ("shapeEnumerate", "mlinsights/helpers/pipeline.py", "enumerate_pipeline_models"),
    ("shapeAlterForDebugging", "mlinsights/helpers/pipeline.py", "alter_pipeline_for_debugging"),
]
SRC_PIPE = "mlinsights/helpers/pipeline.py"
SRC_VIS = "mlinsights/plotting/visualize.py"
LEAN_TARGETS = ["MlVerif.Gen.C16", "MlVerif.Model.Pipeline", "MlVerif.Lemmas.Pipeline", "MlVerif.Lemmas.PipelineReach",
                "MlVerif.Properties.C16"]
PROPERTY_FILE = "MlVerif/Properties/C16.lean"
DRIVER = "Drivers/C16.lean"
TRUSTED = [
    "scikit-learn executes Pipeline / FeatureUnion / ColumnTransformer as the abstract interpreter does (steps in "
    "order, members on the same input, column selection then horizontal stacking); validated on integer tables",
    "Python mechanics of alter_pipeline_for_debugging (MethodType replacement, _debug_* aliases) are exercised by the "
    "correspondence and the search, the Lean theorems are about the writer-style wrapper",
    "string formatting of the DOT text (labels, options, fontsize) is not modelled; the DOT text is parsed by "
    "harness/extract/c16_dot.py and compared as a graph",
    "OrderedDict / list / set semantics as transcribed (insertion order, `in`, iteration over keys)",
    "scikit-learn 1.9 object layout: a fitted FeatureUnion holds a FunctionTransformer in place of 'passthrough' "
    "(it is enumerated and records), Pipeline / ColumnTransformer.transformers keep the string; a fitted "
    "ColumnTransformer runs the clones kept in transformers_",
    "Kind (transformer / classifier / regressor / other) of a leaf class is computed by the harness with the priority "
    "TransformerMixin > ClassifierMixin > RegressorMixin that theorem source_info_dispatch checks on the source",
]
ASSUMPTIONS = [
    "'final outputs' are the ports of the record fed by the last drawn step; 'reachable' is port-level reachability "
    "from the ports of the input record sch0; acyclicity is at the level of DOT nodes (a record is one node)",
    "'every step appears' = every non-container estimator (and every 'passthrough', drawn as Identity) has its own box",
    "the title ('describe the pipeline they are given') is read as: the passthrough remainder of a top-level "
    "ColumnTransformer is fed by exactly the unselected input columns (oracle key pipeline2dot:remainder-columns)",
    "the string 'drop' as a transformer is outside the statement (it lists passthrough only): enumerate raises "
    "TypeError on it, which the model reproduces (correspondence) and the search does not generate",
    "named columns are generated only where the drawing code still knows the column names (top level, members of a "
    "FeatureUnion, under named ColumnTransformer entries, first step of a pipeline); named columns below integer "
    "entries or after a 'passthrough' step make pipeline2dot raise AttributeError (reported, not generated)",
    "column positions are non-negative integers; column lists are non-empty",
    "reachability of the final outputs (dot_outputs_reachable) is stated under two explicit decidable hypotheses the "
    "generated cases satisfy: the schema is not empty (with no input column nothing is reachable: Lean example) and "
    "the named columns of the ColumnTransformers are columns of the schema (namedIn; otherwise an edge starts at an "
    "undeclared raw name: Lean example). A ColumnTransformer entry selecting zero columns needs no exclusion",
]
RULE = ("a seeded program generator builds each pipeline once as a spec and renders it as a scikit-learn object and as "
        "a Lean term: (1) arbitrary nesting (depth<=3 quick/<=6 thorough, 'drop' included) -> enumerate + pipeline2str "
        "compared exactly; (2) executable pipelines x {DataFrame, ndarray, list of names} -> pipeline2dot text parsed "
        "and compared as a graph; (3) executable integer pipelines fitted, instrumented and run -> every recorded "
        "(coordinate, input, output) compared with the Lean interpreter. Non-trivial = at least one container")
LEVEL_TEXT = ("Lean proofs by structural induction over the inductive type of pipelines (any nesting depth) for the "
              "enumeration (pre-order, distinct coordinates, length = depth), the text (one line per model, indent "
              "3*(len-1) regenerated from the source), the abstract instrumented interpreter (same output, recorded "
              "inputs/outputs chain) and the structured DOT graph (acyclic, endpoints declared, every step and column "
              "appears, and the final outputs - every port of the record of the last drawn step - are reachable from "
              "the ports of sch0: theorem dot_outputs_reachable, for every pipeline on every non-empty schema that "
              "contains the named columns the ColumnTransformers use, with no condition on the drawn graph; the "
              "input-less Identity of an empty passthrough remainder is covered). The model is tied to the working "
              "tree by regenerated definitions and an exact differential run on generated programs.")
LEVEL_NOTE = ("the bound-method replacement of alter_pipeline_for_debugging and scikit-learn's execution are validated "
              "by correspondence/search, not proved")
TECHNIQUE = ("Lean 4 proof (structural induction over pipelines) + AST-regenerated definitions + differential "
             "correspondence on generated programs")


# ------------------------------------------------------------------------------ extractor

def extract(ctx):
    return {"MlVerif/Gen/C16.lean": c16_ast.generate(ctx.source(SRC_PIPE), ctx.source(SRC_VIS))}


# ------------------------------------------------------------------------------ helpers

def _imports():
    from mlinsights.helpers.pipeline import enumerate_pipeline_models, alter_pipeline_for_debugging
    from mlinsights.plotting.visualize import pipeline2dot, pipeline2str
    return enumerate_pipeline_models, alter_pipeline_for_debugging, pipeline2dot, pipeline2str


def _coord(c):
    return ".".join(str(int(v)) for v in c)


def _cols(vs):
    if vs is None:
        return "-"
    vs = list(vs)
    if vs and isinstance(vs[0], int):
        return "i=" + ",".join(str(v) for v in vs)
    return "n=" + ",".join(vs)


def _mat(a):
    import numpy
    a = numpy.asarray(a)
    if a.ndim == 1:
        a = a.reshape(-1, 1)
    if a.shape[0] == 0:
        return "-"
    return ";".join(",".join(str(int(v)) for v in row) if len(row) else "-" for row in a)


def _schema(rng, lo=1, hi=5):
    return G.NAMES[:rng.randint(lo, hi)]


def impl_enum(spec):
    enum, _, _, p2s = _imports()
    pipe = G.build(spec)
    try:
        got = list(enum(pipe))
        e = ";".join("%s:%s:%s" % (_coord(c), type(m).__name__, _cols(v)) for c, m, v in got)
    except Exception as ex:
        e = type(ex).__name__
    try:
        s = p2s(pipe).replace("\n", "|")
    except Exception as ex:
        s = type(ex).__name__
    return e, s


def impl_dot(spec, data):
    _, _, p2d, _ = _imports()
    pipe = G.build(spec)
    try:
        text = p2d(pipe, data)
    except Exception as ex:
        return type(ex).__name__
    try:
        return D.canon(D.parse(text))
    except D.ParseError as ex:
        return "ParseError: %s" % ex


def impl_run(spec, data, X):
    """fit, instrument, call; returns 'same <out> coord:in>out;...' like the Lean driver"""
    enum, alter, _, _ = _imports()
    import numpy
    pipe = G.build(spec)
    y = numpy.arange(len(X)) % 2
    with warnings.catch_warnings():
        warnings.simplefilter("ignore")
        pipe.fit(data, y)
        meth = "predict" if hasattr(pipe, "predict") else "transform"
        before = getattr(pipe, meth)(data)
        alter(pipe)
        after = getattr(pipe, meth)(data)
    same = "same" if O._eq(before, after) else "DIFFERENT"
    recs = []
    for coor, model, _ in enum(pipe):
        dbg = getattr(model, "_debug", None)
        if dbg is None or not dbg.inputs:
            continue
        ks = sorted(dbg.inputs)
        if len(ks) != 1 or ks[0] not in dbg.outputs:
            recs.append("%s:methods=%s" % (_coord(coor), ",".join(ks)))
            continue
        recs.append("%s:%s>%s" % (_coord(coor), _mat(dbg.inputs[ks[0]]), _mat(dbg.outputs[ks[0]])))
    return "%s %s %s" % (same, _mat(after), ";".join(recs))


# ------------------------------------------------------------------------------ correspondence

def correspond(ctx):
    ctx.shadow(need_cython=False)
    corr = Corr()
    corr.rule = RULE
    rng = ctx.rng
    maxd = ctx.pick(3, 6)
    lines, expect = [], []

    def feat(spec, op):
        for k, v in G.features(spec).items():
            corr.hit("%s:%s" % (op, k), v)
        corr.hit("%s:depth=%d" % (op, G.depth(spec)))

    # (1) enumeration and text on arbitrary nesting
    for t in range(ctx.pick(400, 4000)):
        spec = G.gen_struct(rng, rng.randint(1, maxd), allow_drop=(rng.random() < 0.3))
        e, s = impl_enum(spec)
        toks = " ".join(G.tokens(spec))
        lines.append("enum " + toks)
        expect.append(("enum", spec, e))
        lines.append("str " + toks)
        expect.append(("str", spec, s))
        corr.case(("enum", toks), nontrivial=G.depth(spec) > 1,
                  sample={"op": "enum", "pipe": toks, "impl": e} if t < 2 else None)
        feat(spec, "enum")
        corr.hit("enum:TypeError" if e == "TypeError" else "enum:ok")
    # (2) the DOT graph on executable pipelines x data schemas
    for t in range(ctx.pick(600, 9000)):
        names = _schema(rng)
        kind = ("df", "nd", "list")[t % 3]
        spec = G.gen_exec(rng, rng.randint(1, maxd), names, kind != "nd")
        data, _ = G.make_data(rng, names, kind)
        impl = impl_dot(spec, data)
        shown = names if kind != "nd" else ["X%d" % i for i in range(len(names))]
        toks = " ".join(G.tokens(spec))
        lines.append("dot %s %s" % (",".join(shown), toks))
        expect.append(("dot", {"spec": spec, "schema": kind, "names": names}, impl))
        lines.append("dothyp %s %s" % (",".join(shown), toks))
        expect.append(("dothyp", None, None))
        corr.case(("dot", kind, tuple(names), toks), nontrivial=G.depth(spec) > 1,
                  sample={"op": "dot", "schema": kind, "pipe": toks, "impl": impl[:300]} if t < 3 else None)
        feat(spec, "dot")
        corr.hit("dot:schema=%s" % kind)
        corr.hit("dot:error:%s" % impl if " " not in impl and "=" not in impl else "dot:graph")
        if "=" in impl:
            # dot_outputs_reachable covers both classes; the graph-level dot_outputs_reachable_partial needs wellFed
            nodes = [part.split("~") for part in impl.split(" ; ")[1:]]
            corr.hit("dot:every-step-has-input" if all(len(n) > 2 and n[2] != "-" for n in nodes)
                     else "dot:input-less-step(empty remainder)")
    # (2b) the same on arbitrary nesting (predictors anywhere, unsupported leaves): error kinds must agree too
    for t in range(ctx.pick(150, 2000)):
        names = G.NAMES[:4]
        kind = ("df", "list")[t % 2]
        spec = G.gen_struct(rng, rng.randint(1, min(maxd, 4)), allow_drop=(rng.random() < 0.2), names=names, ncols=4)
        data, _ = G.make_data(rng, names, kind)
        impl = impl_dot(spec, data)
        toks = " ".join(G.tokens(spec))
        lines.append("dot %s %s" % (",".join(names), toks))
        expect.append(("dot", {"spec": spec, "schema": kind, "names": names}, impl))
        corr.case(("dot-any", kind, toks), nontrivial=G.depth(spec) > 1)
        corr.hit("dot-any:error:%s" % impl if " " not in impl and "=" not in impl else "dot-any:graph")
    # (3) the instrumented run on integer pipelines
    for t in range(ctx.pick(200, 2000)):
        names = _schema(rng)
        kind = ("df", "nd")[t % 2]
        spec = G.gen_exec(rng, rng.randint(1, maxd), names, kind == "df", leaves="exact")
        data, X = G.make_data(rng, names, kind, nrows=rng.randint(2, 4))
        try:
            impl = impl_run(spec, data, X)
        except Exception as ex:      # the generator promises executable pipelines
            corr.errors.append("run: %s: %s on %s" % (type(ex).__name__, ex, G.tokens(spec)))
            continue
        toks = " ".join(G.tokens(spec))
        lines.append("run %s %s %s" % (",".join(names) if kind == "df" else "-", _mat(X), toks))
        expect.append(("run", {"spec": spec, "schema": kind, "names": names, "X": X.tolist()}, impl))
        corr.case(("run", kind, _mat(X), toks), nontrivial=G.depth(spec) > 1,
                  sample={"op": "run", "schema": kind, "pipe": toks, "impl": impl[:300]} if t < 2 else None)
        feat(spec, "run")
        corr.hit("run:records=%d" % min(impl.count(">"), 12))
    out = run_driver(DRIVER, lines)
    for (op, inp, impl), got in zip(expect, out):
        if op == "dothyp":
            # hypothesis of the graph-level dot_outputs_reachable_partial (no longer needed by dot_outputs_reachable),
            # still evaluated by the model on this very case
            corr.hit("dot:" + got.replace(" ", ","))
            continue
        if got != impl:
            corr.disagree(op, inp, got, impl)
    return corr


# ------------------------------------------------------------------------------ search (oracle from the statement)

def _run_case(case):
    """case = {"op", "spec", "kind", "names", "data_seed"} -> [(key, what, observed, required)]"""
    op, spec = case["op"], case["spec"]
    if op == "enum":
        return O.check_enum(spec)
    names, kind = case["names"], case["kind"]
    data, X = G.make_data(random.Random(case["data_seed"]), names, kind)
    if op == "dot":
        return O.check_dot(spec, data, names, kind)[0]
    y = [i % 2 for i in range(len(X))]
    return O.check_debug(spec, data, y)[0]


def _has_named(spec):
    if spec["t"] == "cols":
        return any(isinstance(v, str) for _, cols in spec["items"] for v in cols) or \
            any(_has_named(c) for c, _ in spec["items"])
    if spec["t"] in ("pipe", "union"):
        return any(_has_named(c) for c in spec["items"])
    return False


def _rank(case):
    # smallest pipeline first; among equals a DataFrame / ndarray witness rather than a list of names
    return (case.get("kind") == "list", G.size(case["spec"]))


def search(ctx, hints):
    ctx.shadow(need_cython=False)
    rng = ctx.rng
    maxd = ctx.pick(3, 6)
    cases = []
    # inputs on which the model and the implementation disagreed come first
    for h in hints or []:
        inp = h.get("input")
        if h.get("op") in ("enum", "str") and isinstance(inp, dict) and "t" in inp:
            cases.append({"op": "enum", "spec": inp})
        elif h.get("op") in ("dot", "run") and isinstance(inp, dict) and "spec" in inp:
            cases.append({"op": "dot" if h["op"] == "dot" else "debug", "spec": inp["spec"],
                          "kind": inp["schema"], "names": inp["names"], "data_seed": 0})
    n_hint = len(cases)
    # small hand-made shapes (the pinned tests' typical usages) on every schema
    E = G.est
    basics = [E("T", "StandardScaler"), E("C", "LogisticRegression"), E("R", "LinearRegression"),
              {"t": "pipe", "items": [E("T", "StandardScaler"), {"t": "pass"}]},
              {"t": "pipe", "items": [E("T", "StandardScaler"),
                                      {"t": "cols", "items": [[E("T", "MinMaxScaler"), [0]]], "rem": "drop"}]},
              {"t": "cols", "items": [[E("T", "MinMaxScaler"), ["a"]], [E("T", "StandardScaler"), ["b"]]],
               "rem": "passthrough"},
              {"t": "pipe", "items": [E("T", "StandardScaler"),
                                      {"t": "cols", "items": [[E("T", "MinMaxScaler"), [0]]], "rem": "passthrough"},
                                      E("R", "LinearRegression")]}]
    for spec in basics:
        cases.append({"op": "enum", "spec": spec})
        named = _has_named(spec)
        for kind in ("df", "nd", "list"):
            if named and kind == "nd":
                continue
            cases.append({"op": "dot", "spec": spec, "kind": kind, "names": ["a", "b", "c"], "data_seed": 1})
        if not named:
            cases.append({"op": "debug", "spec": spec, "kind": "nd", "names": ["a", "b", "c"], "data_seed": 1})
    cases.append({"op": "debug", "spec": basics[5], "kind": "df", "names": ["a", "b", "c"], "data_seed": 1})
    for t in range(ctx.pick(300, 3000)):
        cases.append({"op": "enum", "spec": G.gen_struct(rng, rng.randint(1, maxd), allow_drop=False)})
    for t in range(ctx.pick(600, 6000)):
        names = _schema(rng)
        kind = ("df", "nd", "list")[t % 3]
        cases.append({"op": "dot", "spec": G.gen_exec(rng, rng.randint(1, maxd), names, kind != "nd"),
                      "kind": kind, "names": names, "data_seed": rng.randrange(1 << 30)})
    for t in range(ctx.pick(200, 1500)):
        names = _schema(rng)
        kind = ("df", "nd")[t % 2]
        cases.append({"op": "debug", "spec": G.gen_exec(rng, rng.randint(1, min(maxd, 5)), names, kind == "df",
                                                        leaves=("sk", "exact")[t % 2]),
                      "kind": kind, "names": names, "data_seed": rng.randrange(1 << 30)})
    # column names that are another name plus a digit (x1 ... x10), a FeatureUnion on one named column next to a
    # transformer on the column whose name the union's generated output names could collide with
    xs = ["x%d" % i for i in range(1, 11)]
    for kind in ("df", "list"):
        cases.append({"op": "dot", "kind": kind, "names": xs, "data_seed": 1,
                      "spec": {"t": "cols", "rem": "drop",
                               "items": [[{"t": "union", "items": [E("T", "StandardScaler"), E("T", "MinMaxScaler")]}, ["x1"]],
                                         [E("T", "Normalizer"), ["x10"]]]}})
    # the same with SEVERAL consecutive collisions: the schema already holds the stem plus the first suffixes the name
    # generator would try (a, a0, a1, a2 / counters starting at 0 or 1 / a digit stem), every other column consumed by
    # its own transformer, unions of two and three members
    for fam in (["a", "a0", "a1", "a2"], ["a", "a1", "a2", "a3"], ["v", "v0", "v00", "v1", "v01"], ["a0", "a00", "a01", "a1"],
                ["c", "c0", "c1", "c2", "c3", "c4"], ["a", "a0", "b", "b0", "a1", "b1"]):
        for members in (2, 3):
            union = {"t": "union", "items": [E("T", ("StandardScaler", "MinMaxScaler", "MaxAbsScaler")[i]) for i in range(members)]}
            for kind in ("df", "list"):
                for c in fam[1:]:       # one consumer at a time: the oracle identifies a step by its class
                    cases.append({"op": "dot", "kind": kind, "names": fam, "data_seed": 1,
                                  "spec": {"t": "cols", "rem": "drop",
                                           "items": [[union, [fam[0]]], [E("T", "Normalizer"), [c]]]}})
    # KNOWN FINDING probe (input class excluded from the generator, see ASSUMPTIONS): named columns below an
    # integer-column entry / after a 'passthrough' step, where _pipeline_info only has a list of names left
    cases.append({"op": "dot", "probe": "named-columns-on-list-data", "kind": "df", "names": ["a", "b", "c"],
                  "data_seed": 1,
                  "spec": {"t": "cols", "rem": "drop",
                           "items": [[{"t": "cols", "rem": "drop", "items": [[E("T", "MinMaxScaler"), ["a"]]]}, [0, 1]]]}})
    best, nontriv, hist = {}, set(), {}
    for case in cases:
        try:
            bad = _run_case(case)
            if case.get("probe"):
                bad = [((k + ":" + case["probe"]) if k == "pipeline2dot:raises:AttributeError" else k, w, o, r)
                       for k, w, o, r in bad]
        except Exception as ex:
            bad = [("harness:%s:%s" % (case["op"], type(ex).__name__),
                    "the oracle could not run the case", "%s: %s" % (type(ex).__name__, str(ex)[:200]), "runs")]
        hist[case["op"]] = hist.get(case["op"], 0) + 1
        if G.depth(case["spec"]) > 1:
            nontriv.add((case["op"], case.get("kind"), " ".join(G.tokens(case["spec"]))))
        for key, what, obs, req in bad:
            v = Violation(key, what, case, obs, req)
            if key not in best or _rank(case) < _rank(best[key].input):
                best[key] = v
    samples = [{"op": c["op"], "pipe": " ".join(G.tokens(c["spec"])), "schema": c.get("kind")} for c in cases[n_hint:n_hint + 3]]
    return list(best.values()), {"evaluations": len(cases), "distinct_nontrivial": len(nontriv), "samples": samples,
                                 "by_op": hist, "from_disagreements": n_hint}


def replay(ctx, item):
    ctx.shadow(need_cython=False)
    if "input" not in item:
        # a `no-failing-input-found` replay: re-run the oracle on the inputs of the recorded disagreements
        out = []
        for b in item.get("no_longer_checks", []):
            for d in (b.get("detail") if isinstance(b.get("detail"), list) else []):
                if not isinstance(d, dict) or "input" not in d:
                    continue
                inp = d["input"]
                if d.get("op") in ("enum", "str"):
                    case = {"op": "enum", "spec": inp}
                elif isinstance(inp, dict) and "spec" in inp:
                    case = {"op": "dot" if d.get("op") == "dot" else "debug", "spec": inp["spec"],
                            "kind": inp["schema"], "names": inp["names"], "data_seed": 0}
                else:
                    continue
                out += [Violation(k, w, case, o, r) for k, w, o, r in _run_case(case)]
        return out
    case = item["input"]
    bad = _run_case(case)
    out, seen = [], set()
    for key, what, obs, req in bad:
        if key not in seen:
            seen.add(key)
            out.append(Violation(key, what, case, obs, req))
    # report the recorded key first if it still fails
    out.sort(key=lambda v: v.key != item.get("key"))
    return out
