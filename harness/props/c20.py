"""C20 — Time-series framing never looks ahead (build_ts_X_y, ts_mape)."""
import ast
from fractions import Fraction

from core import Corr, Violation, run_driver
from extract import pyexpr

ID = "C20"
#: functions the hand-written model transcribes: their control skeleton (extract/shape.py) is regenerated into
#: Gen/C20.lean and compared with the literal in Properties/C20.lean (`modelled_functions_have_the_transcribed_shape`)
SHAPES = [
    ("shapeBuildTsXy", "mlinsights/timeseries/utils.py", "build_ts_X_y"),
    ("shapeTsMape", "mlinsights/timeseries/metrics.py", "ts_mape"),
]
SRC_UTILS = "mlinsights/timeseries/utils.py"
SRC_METRICS = "mlinsights/timeseries/metrics.py"
SRC_BASE = "mlinsights/timeseries/base.py"
LEAN_TARGETS = ["MlVerif.Gen.C20", "MlVerif.Model.TimeSeries", "MlVerif.Lemmas.TimeSeries",
                "MlVerif.Lemmas.TimeSeriesFrame", "MlVerif.Lemmas.TimeSeriesMape", "MlVerif.Properties.C20"]
PROPERTY_FILE = "MlVerif/Properties/C20.lean"
DRIVER = "Drivers/C20.lean"
TRUSTED = [
    "Python/numpy slice semantics as transcribed in Model/TimeSeries.lean (`pySlice`: negative bounds wrap once, "
    "then clip to [0, len]); numpy slice assignment accepts a right-hand side of equal length or of length 1 "
    "(broadcast) and raises ValueError otherwise; numpy.empty/full raise ValueError on a negative dimension",
    "numpy.ma arithmetic: a term is masked when either operand is masked; numpy.sum of a masked array adds the "
    "unmasked terms and returns `masked` when there is none; bool(masked) is False",
    "float arithmetic stands for exact arithmetic: correspondence uses small integers, on which every sum is exact "
    "and the final division is correctly rounded on both sides",
    "X and y (and weights) have the same number of rows (X.shape[0] is read as n)",
]
ASSUMPTIONS = [
    "quantifier as in the statement: delay1 = 1, use_all_past = False; theorems additionally assume past >= 1 "
    "(the constructor's own message is 'past must be > 0'; past = 0 is accepted by the constructor, is modelled, "
    "is exercised by the correspondence, and yields no lag features at all)",
    "a series shorter than past + delay2 - 1 cannot be framed: the plain variant raises ValueError (proved: "
    "`plain_too_short_refused`); the same_rows variant either raises or returns an all-NaN table (proved: "
    "`same_too_short_no_row`)",
    "`ts_mape is non-negative` is read as: the call does not raise on two series of equal length n != 1 with "
    "non-negative weights, and a numeric result is >= 0; +inf counts as non-negative; numpy.ma.masked is returned "
    "when no pair of consecutive observations with a forecast exists (nothing to compare) and is accepted; "
    "n = 1 raises IndexError inside numpy.squeeze handling (reported as an observation, not as a violation)",
    "`equals 1 for the naive forecast` is read under the condition that the denominator (the naive forecast's own "
    "error over the compared rows) is non-zero; for a constant series the result is 0",
    "observation: in same_rows mode the weights are returned unshifted (row r keeps weight r); the statement "
    "constrains the table, whose NaN rows are dropped by the regressors together with their weights",
]
RULE = ("correspondence: every (n, past, delay1 in {1,2}, delay2, ncol in {None,0,1,2}, weights, same_rows) of a "
        "grid -> model buildTsXy (slice bounds regenerated from utils.py) vs build_ts_X_y on integer-valued float "
        "arrays, tables/weights/exception type compared exactly; random integer series with NaN forecasts and "
        "optional weights -> model tsMape (exact rationals) vs ts_mape. Non-trivial = a frame with at least one "
        "row, or a refused/all-NaN too-short series; a mape case with n >= 2")
LEVEL_TEXT = ("Proved in Lean for every series length n, every past >= 1 and delay2 >= 2 (delay1 = 1, "
              "use_all_past = False), any exogenous block and weights: no slice clips or wraps, the frame has "
              "n - delay2 - past + 2 rows, row r holds lags y[r..r+past-1], targets y[r+past..r+past+delay2-2], "
              "exogenous row and weight r+past-1; same_rows is that table after delay2+past-2 NaN rows; too-short "
              "series are refused / give no non-NaN row; ts_mape never raises, is >= 0 and is 1 on the naive forecast. "
              "Every slice bound in the theorems is regenerated from the current utils.py / metrics.py on each run and "
              "the executable model is diffed against the real functions on a full grid of configurations.")
LEVEL_NOTE = ("numpy slicing/broadcast/masked-array semantics are transcribed by hand (trusted, validated by the "
              "correspondence incl. wrap/clip/broadcast/error cases); floats are modelled by exact integers/rationals; "
              "the use_all_past=True branches are outside the property's quantifier and are not modelled")
TECHNIQUE = ("Lean 4 proof (list induction over the column-write loops, omega on the regenerated slice bounds, "
             "grind on rationals) + AST-regenerated definitions + differential correspondence")

VARS = "(n past d1 d2 ncol i : Int)"
BASE_TABLE = {
    "y.shape[0]": ("n", "int"), "X.shape[0]": ("n", "int"), "len(y)": ("n", "int"),
    "model.past": ("past", "int"), "model.delay1": ("d1", "int"), "model.delay2": ("d2", "int"),
    "X.shape[1]": ("ncol", "int"),
}
NCOL_SRC = "X.shape[1] if X is not None else 0"
BRANCH_FIELDS = ["nrow", "newXRows", "newXCols", "newYRows", "newYCols",
                 "xDstRow", "xDstColHi", "xSrcLo", "xSrcHi",
                 "lagLo", "lagHi", "lagDstRow", "lagDstCol", "lagSrcLo", "lagSrcHi",
                 "tgtLo", "tgtHi", "tgtDstRow", "tgtDstCol", "tgtSrcLo", "tgtSrcHi",
                 "wLo", "wHi"]


# ------------------------------------------------------------------------------ extractor

def _unk(msg):
    return '(MlVerif.Gen.unknownInt "%s")' % msg.replace('"', "'").replace("\\", "/")


def _find_branch(fn, same_rows, use_all_past):
    """Body of the branch of build_ts_X_y selected by (same_rows, use_all_past)."""
    top = [s for s in fn.body if isinstance(s, ast.If) and ast.unparse(s.test) == "same_rows"]
    if len(top) != 1:
        raise pyexpr.Unknown("`if same_rows:` not found exactly once")
    body = top[0].body if same_rows else top[0].orelse
    inner = [s for s in body if isinstance(s, ast.If) and ast.unparse(s.test) == "model.use_all_past"]
    if len(inner) != 1 or len(body) != 1:
        raise pyexpr.Unknown("`if model.use_all_past:` not the only statement of the same_rows=%s branch" % same_rows)
    return inner[0].body if use_all_past else inner[0].orelse


def _slice_bounds(sl, tr, allow_none_lower=True):
    """(lower, upper) of an ast.Slice as lean Int terms; upper None -> None."""
    if not isinstance(sl, ast.Slice) or sl.step is not None:
        raise pyexpr.Unknown("not a plain slice: %s" % ast.unparse(sl))
    if sl.lower is None:
        if not allow_none_lower:
            raise pyexpr.Unknown("slice without lower bound: %s" % ast.unparse(sl))
        lo = "(0 : Int)"
    else:
        lo = tr.int_expr(sl.lower)
    hi = None if sl.upper is None else tr.int_expr(sl.upper)
    return lo, hi


def _extract_branch(body, same_rows):
    out = {}
    seen = set()
    table = dict(BASE_TABLE)

    def put(name, val):
        if name in seen:
            raise pyexpr.Unknown("%s defined twice" % name)
        seen.add(name)
        out[name] = val

    def shape_of(call, rows, cols, want_nan):
        fn = ast.unparse(call.func)
        if fn not in ("numpy.empty", "numpy.full") or not call.args or not isinstance(call.args[0], ast.Tuple) \
                or len(call.args[0].elts) != 2:
            raise pyexpr.Unknown("unexpected allocation %s" % ast.unparse(call))
        if want_nan and not (fn == "numpy.full" and len(call.args) >= 2 and ast.unparse(call.args[1]) == "numpy.nan"):
            raise pyexpr.Unknown("same_rows table not filled with numpy.nan: %s" % ast.unparse(call))
        tr = pyexpr.Tr(table)
        put(rows, tr.int_expr(call.args[0].elts[0]))
        put(cols, tr.int_expr(call.args[0].elts[1]))

    def sub_assign(st, tab, prefix, dst_name, src_name):
        """new_X[rowslice, col] = y[lo:hi]  (one column) or new_X[rowslice, :hi] = X[lo:hi]."""
        tr = pyexpr.Tr(tab)
        tgt, val = st.targets[0], st.value
        if not (isinstance(tgt, ast.Subscript) and ast.unparse(tgt.value) == dst_name
                and isinstance(tgt.slice, ast.Tuple) and len(tgt.slice.elts) == 2):
            raise pyexpr.Unknown("unexpected target %s" % ast.unparse(tgt))
        if not (isinstance(val, ast.Subscript) and ast.unparse(val.value) == src_name):
            raise pyexpr.Unknown("unexpected source %s" % ast.unparse(val))
        rlo, rhi = _slice_bounds(tgt.slice.elts[0], tr)
        if rhi is not None:
            raise pyexpr.Unknown("row slice with an upper bound: %s" % ast.unparse(tgt))
        put(prefix + "DstRow", rlo)
        col = tgt.slice.elts[1]
        if prefix == "x":
            clo, chi = _slice_bounds(col, tr)
            if clo != "(0 : Int)" or chi is None:
                raise pyexpr.Unknown("unexpected column slice %s" % ast.unparse(col))
            put("xDstColHi", chi)
        else:
            if isinstance(col, ast.Slice):
                raise pyexpr.Unknown("column slice where a column index is expected: %s" % ast.unparse(tgt))
            put(prefix + "DstCol", tr.int_expr(col))
        slo, shi = _slice_bounds(val.slice, tr, allow_none_lower=False)
        if shi is None:
            raise pyexpr.Unknown("source slice without upper bound: %s" % ast.unparse(val))
        put(prefix + "SrcLo", slo)
        put(prefix + "SrcHi", shi)

    w_identity = None
    for st in body:
        if isinstance(st, ast.Assign) and len(st.targets) == 1 and isinstance(st.targets[0], ast.Name):
            name = st.targets[0].id
            if name == "ncol":
                if ast.unparse(st.value) != NCOL_SRC:
                    raise pyexpr.Unknown("ncol = %s" % ast.unparse(st.value))
                table["ncol"] = ("ncol", "int")
            elif name == "new_X":
                shape_of(st.value, "newXRows", "newXCols", same_rows)
            elif name == "new_y":
                shape_of(st.value, "newYRows", "newYCols", same_rows)
            elif name == "new_weights":
                src = ast.unparse(st.value)
                if src == "weights":
                    w_identity = True
                    put("wLo", "(0 : Int)")
                    put("wHi", "n")
                else:
                    v = st.value
                    if not (isinstance(v, ast.IfExp) and ast.unparse(v.test) == "weights is None"
                            and ast.unparse(v.body) == "None" and isinstance(v.orelse, ast.Subscript)
                            and ast.unparse(v.orelse.value) == "weights"):
                        raise pyexpr.Unknown("new_weights = %s" % src)
                    lo, hi = _slice_bounds(v.orelse.slice, pyexpr.Tr(table), allow_none_lower=False)
                    if hi is None:
                        raise pyexpr.Unknown("weights slice without upper bound")
                    w_identity = False
                    put("wLo", lo)
                    put("wHi", hi)
            else:
                term = pyexpr.Tr(table).int_expr(st.value)
                table[name] = (term, "int")
                if name == "nrow":
                    put("nrow", term)
        elif isinstance(st, ast.If) and ast.unparse(st.test) == "X is not None" and not st.orelse \
                and len(st.body) == 1 and isinstance(st.body[0], ast.Assign):
            sub_assign(st.body[0], table, "x", "new_X", "X")
        elif isinstance(st, ast.For) and isinstance(st.target, ast.Name) and st.target.id == "i" \
                and isinstance(st.iter, ast.Call) and ast.unparse(st.iter.func) == "range" \
                and 1 <= len(st.iter.args) <= 2 and not st.orelse:
            tr = pyexpr.Tr(table)
            if len(st.iter.args) == 1:
                lo, hi = "(0 : Int)", tr.int_expr(st.iter.args[0])
            else:
                lo, hi = tr.int_expr(st.iter.args[0]), tr.int_expr(st.iter.args[1])
            ltab = dict(table)
            ltab["i"] = ("i", "int")
            kind = None
            for s2 in st.body:
                if isinstance(s2, ast.Assign) and len(s2.targets) == 1 and isinstance(s2.targets[0], ast.Name):
                    ltab[s2.targets[0].id] = (pyexpr.Tr(ltab).int_expr(s2.value), "int")
                elif isinstance(s2, ast.Assign) and len(s2.targets) == 1 and isinstance(s2.targets[0], ast.Subscript):
                    dst = ast.unparse(s2.targets[0].value)
                    if kind is not None or dst not in ("new_X", "new_y"):
                        raise pyexpr.Unknown("unexpected loop body: %s" % ast.unparse(s2))
                    kind = "lag" if dst == "new_X" else "tgt"
                    sub_assign(s2, ltab, kind, dst, "y")
                else:
                    raise pyexpr.Unknown("unexpected statement in loop: %s" % ast.unparse(s2))
            if kind is None:
                raise pyexpr.Unknown("loop without slice assignment")
            put(kind + "Lo", lo)
            put(kind + "Hi", hi)
        else:
            raise pyexpr.Unknown("unexpected statement: %s" % ast.unparse(st)[:60])
    missing = [f for f in BRANCH_FIELDS if f not in out]
    if missing or w_identity is None:
        raise pyexpr.Unknown("missing: %s" % ",".join(missing or ["new_weights"]))
    return out, w_identity


def _branch_text(ns, tree_fn, same_rows):
    try:
        body = _find_branch(tree_fn, same_rows, False)
        defs, wid = _extract_branch(body, same_rows)
        note = ""
    except pyexpr.Unknown as e:
        defs = {f: _unk("%s: %s" % (ns, e)) for f in BRANCH_FIELDS}
        wid = None
        note = "-- NOT IN THE EXPECTED SHAPE: %s\n" % str(e).replace("\n", " ")
    lines = ["namespace %s" % ns, note.rstrip("\n")] if note else ["namespace %s" % ns]
    for f in BRANCH_FIELDS:
        lines.append("def %s %s : Int := %s" % (f, VARS, defs[f]))
    lines.append("/-- `new_weights = weights` (unshifted) rather than a slice -/")
    lines.append("def wIdentity : Bool := %s" % ("true" if wid else "false" if wid is not None
                                                 else '(MlVerif.Gen.unknownBool "new_weights")'))
    lines.append("end %s" % ns)
    return "\n".join(lines) + "\n"


def _opt_slice(node, base):
    """`base[lo:hi]` with literal/absent bounds -> lean `(Option Int × Option Int)` term."""
    if not (isinstance(node, ast.Subscript) and ast.unparse(node.value) == base and isinstance(node.slice, ast.Slice)
            and node.slice.step is None):
        raise pyexpr.Unknown("expected %s[a:b], found %s" % (base, ast.unparse(node)))
    tr = pyexpr.Tr({})

    def one(b):
        return "none" if b is None else "(some %s)" % tr.int_expr(b)
    return "(%s, %s)" % (one(node.slice.lower), one(node.slice.upper))


MAPE_FIELDS = ["maskDst", "maskSrc", "den1", "den2", "num1", "num2", "wden1", "wden2", "wdenW", "wnum1", "wnum2",
               "wnumW"]


def _extract_mape(tree):
    fn = pyexpr.find_function(tree, "ts_mape")
    out = {}
    # mask2[1:] |= numpy.isnan(predicted_y[:-1])
    aug = [s for s in fn.body if isinstance(s, ast.AugAssign) and isinstance(s.op, ast.BitOr)]
    if len(aug) != 1 or not (isinstance(aug[0].value, ast.Call) and ast.unparse(aug[0].value.func) == "numpy.isnan"
                             and len(aug[0].value.args) == 1):
        raise pyexpr.Unknown("mask2[...] |= numpy.isnan(...) not found exactly once")
    out["maskDst"] = _opt_slice(aug[0].target, "mask2")
    out["maskSrc"] = _opt_slice(aug[0].value.args[0], "predicted_y")
    ifs = [s for s in fn.body if isinstance(s, ast.If) and ast.unparse(s.test) == "sample_weight is None"]
    if len(ifs) != 1:
        raise pyexpr.Unknown("`if sample_weight is None` not found exactly once")

    def terms(stmts, weighted, which, names):
        st = [s for s in stmts if isinstance(s, ast.Assign) and ast.unparse(s.targets[0]) == which]
        if len(st) != 1 or len(stmts) != 2:
            raise pyexpr.Unknown("%s assignment" % which)
        v = st[0].value
        if not (isinstance(v, ast.Call) and ast.unparse(v.func) == "numpy.sum" and len(v.args) == 1):
            raise pyexpr.Unknown("%s is not numpy.sum(...)" % which)
        a = v.args[0]
        if weighted:
            if not (isinstance(a, ast.BinOp) and isinstance(a.op, ast.Mult)):
                raise pyexpr.Unknown("%s: weighted term is not a product" % which)
            out[names[2]] = _opt_slice(a.right, "sample_weight")
            a = a.left
        if not (isinstance(a, ast.Call) and ast.unparse(a.func) == "numpy.abs" and len(a.args) == 1
                and isinstance(a.args[0], ast.BinOp) and isinstance(a.args[0].op, ast.Sub)):
            raise pyexpr.Unknown("%s: not numpy.abs(a - b)" % which)
        lhs, rhs = a.args[0].left, a.args[0].right
        first_base = "expected_y" if which == "dy1" else "predicted_y"
        out[names[0]] = _opt_slice(lhs, first_base)
        out[names[1]] = _opt_slice(rhs, "expected_y")

    terms(ifs[0].body, False, "dy1", ("den1", "den2"))
    terms(ifs[0].body, False, "dy2", ("num1", "num2"))
    terms(ifs[0].orelse, True, "dy1", ("wden1", "wden2", "wdenW"))
    terms(ifs[0].orelse, True, "dy2", ("wnum1", "wnum2", "wnumW"))
    # if dy1 == 0: return 0 if dy2 == 0 else numpy.inf ; return dy2 / dy1
    tail = fn.body[-2:]
    if not (isinstance(tail[0], ast.If) and ast.unparse(tail[0].test) == "dy1 == 0" and len(tail[0].body) == 1
            and isinstance(tail[0].body[0], ast.Return) and isinstance(tail[0].body[0].value, ast.IfExp)
            and ast.unparse(tail[0].body[0].value.test) == "dy2 == 0"
            and isinstance(tail[1], ast.Return) and ast.unparse(tail[1].value) == "dy2 / dy1"):
        raise pyexpr.Unknown("final `if dy1 == 0: return a if dy2 == 0 else b; return dy2 / dy1` not found")
    ife = tail[0].body[0].value
    return out, ast.unparse(ife.body), ast.unparse(ife.orelse)


def extract(ctx):
    tree = ast.parse(ctx.source(SRC_UTILS))
    fn = pyexpr.find_function(tree, "build_ts_X_y")
    body = pyexpr.HEADER + """import MlVerif.Gen.Base
/-
C20: every slice bound, loop range, allocation shape and column index of the two
`use_all_past = False` branches of `build_ts_X_y` (mlinsights/timeseries/utils.py) as functions of
n = y.shape[0] (= X.shape[0]), past, d1 = delay1, d2 = delay2, ncol and the loop variable i;
local variables (`nrow`, `first`, `end`, `dec`) are inlined.  A missing lower bound is 0.
Then the slices and the two constant results of `ts_mape` (mlinsights/timeseries/metrics.py).
-/
set_option linter.unusedVariables false
namespace MlVerif.Gen.C20
open MlVerif.Gen

"""
    body += _branch_text("Plain", fn, False) + "\n" + _branch_text("Same", fn, True) + "\n"
    mtree = ast.parse(ctx.source(SRC_METRICS))
    try:
        m, zero_src, inf_src = _extract_mape(mtree)
        note = ""
    except pyexpr.Unknown as e:
        u = _unk("ts_mape: %s" % e)
        m = {f: "(some %s, some %s)" % (u, u) for f in MAPE_FIELDS}
        zero_src, inf_src = "?", "?"
        note = "-- NOT IN THE EXPECTED SHAPE: %s\n" % str(e).replace("\n", " ")
    body += "namespace Mape\n" + note
    for f in MAPE_FIELDS:
        body += "def %s : Option Int × Option Int := %s\n" % (f, m[f])
    body += ('/-- source text of what is returned when the denominator is 0 and the numerator is 0 / is not 0 -/\n'
             'def zeroOverZero : String := "%s"\ndef nonzeroOverZero : String := "%s"\nend Mape\n\n'
             % (zero_src.replace('"', "'"), inf_src.replace('"', "'")))
    # base.py: the configuration the regressors use
    btree = ast.parse(ctx.source(SRC_BASE))
    try:
        bf = pyexpr.find_function(btree, "BaseTimeSeries._base_fit_predict")
        cs = pyexpr.calls(bf, "build_ts_X_y")
        same = [k for c in cs for k in c.keywords if k.arg == "same_rows"]
        uses_same = "true" if len(cs) == 1 and len(same) == 1 and ast.unparse(same[0].value) == "True" else "false"
        init = pyexpr.find_function(btree, "BaseTimeSeries.__init__")
        asserts = sorted(ast.unparse(a.test) for a in ast.walk(init) if isinstance(a, ast.Assert))
    except pyexpr.Unknown:
        uses_same, asserts = "false", []
    body += "/-- `_base_fit_predict` frames with `same_rows=True` -/\ndef baseUsesSameRows : Bool := %s\n" % uses_same
    body += "/-- constructor guards of `BaseTimeSeries` -/\ndef ctorGuards : List String := [%s]\n" % ", ".join(
        '"%s"' % a.replace('"', "'") for a in asserts)
    body += "\nend MlVerif.Gen.C20\n"
    return {"MlVerif/Gen/C20.lean": body}


# ------------------------------------------------------------------------------ helpers

def _fl(xs):
    xs = list(xs)
    return ",".join(str(int(x)) for x in xs) if xs else "-"


def _cell(v):
    return "nan" if v != v else str(int(v))


def _table(a):
    """2-D numpy array -> the driver's flat matrix format."""
    if a.shape[0] == 0:
        return "-"
    return ";".join((",".join(_cell(v) for v in row) if a.shape[1] else "-") for row in a)


def _call_build(past, d1, d2, X, y, w, same, model=None):
    from mlinsights.timeseries.base import BaseTimeSeries
    from mlinsights.timeseries.utils import build_ts_X_y
    if model is None:
        model = BaseTimeSeries(past=past, delay1=d1, delay2=d2)
    return build_ts_X_y(model, X, y, w, same_rows=same)


def _used_model(before, past, d2):
    """A model object that has ALREADY framed a series under another configuration (`before` = n, past, delay2,
    ncol, weights) and is then given the current one through set_params: the frame depends on the series and on the
    CURRENT past / delays only, whatever the object framed earlier."""
    from mlinsights.timeseries.base import BaseTimeSeries
    model = BaseTimeSeries(past=before["past"], delay1=1, delay2=before["delay2"])
    X, y, w = _series(before["n"], before.get("ncol"), before.get("weights", False), "plain")
    for same in (False, True):
        try:
            _call_build(before["past"], 1, before["delay2"], X, y, w, same, model=model)
        except Exception:  # noqa: BLE001
            pass
    model.set_params(past=past, delay2=d2)
    return model


def _impl_build(past, d1, d2, X, y, w, same):
    try:
        nx, ny, nw = _call_build(past, d1, d2, X, y, w, same)
    except Exception as e:  # canonical error kind
        return type(e).__name__
    return "ok|%s|%s|%s" % (_table(nx), _table(ny), "none" if nw is None else _fl(nw))


def _frac(v):
    fr = Fraction(v)
    return "%d/%d" % (fr.numerator, fr.denominator) if fr.denominator != 1 else str(fr.numerator)


def _impl_mape(e, p, w):
    import numpy
    from mlinsights.timeseries.metrics import ts_mape
    try:
        r = ts_mape(numpy.array(e, dtype=float), numpy.array([numpy.nan if v is None else v for v in p], dtype=float),
                    None if w is None else numpy.array(w, dtype=float))
    except Exception as ex:
        return "err:" + type(ex).__name__
    if r is numpy.ma.masked:
        return "masked"
    r = float(r)
    if r == float("inf"):
        return "inf"
    return "num %r" % r


def _mape_line(e, p, w):
    return "mape %s %s %s" % (_fl(e), ",".join("nan" if v is None else str(int(v)) for v in p) if p else "-",
                              "none" if w is None else _fl(w))


# ------------------------------------------------------------------------------ correspondence

def correspond(ctx):
    ctx.shadow(need_cython=False)
    import numpy
    corr = Corr()
    corr.rule = RULE
    rng = ctx.rng
    lines, expect = [], []
    nmax, pmax, dmax = ctx.pick((14, 5, 5), (32, 7, 7))
    for n in range(0, nmax + 1):
        yv = [rng.randint(-99, 99) for _ in range(n)]
        wv = [rng.randint(1, 9) for _ in range(n)]
        for past in range(0, pmax + 1):
            for d1 in (1, 2):
                for d2 in range(d1 + 1, dmax + 1):
                    for ncol in (None, 0, 1, 2):
                        for hasw in (False, True):
                            for same in (False, True):
                                if ncol is None:
                                    X, xtxt = None, "none"
                                else:
                                    rows = [[rng.randint(-99, 99) for _ in range(ncol)] for _ in range(n)]
                                    X = numpy.array(rows, dtype=float).reshape(n, ncol)
                                    xtxt = "%d:%s" % (ncol, ";".join(_fl(r) for r in rows) if n else "-")
                                y = numpy.array(yv, dtype=float)
                                w = numpy.array(wv, dtype=float) if hasw else None
                                impl = _impl_build(past, d1, d2, X, y, w, same)
                                lines.append("build %d %d %d %d %s %s %s" % (same, past, d1, d2, xtxt, _fl(yv),
                                                                            _fl(wv) if hasw else "none"))
                                inp = {"n": n, "past": past, "delay1": d1, "delay2": d2, "ncol": ncol,
                                       "weights": hasw, "same_rows": same, "y": yv}
                                expect.append(("build", inp, impl))
                                nrow = n - d2 - past + 2
                                corr.case(("build", n, past, d1, d2, ncol, hasw, same), nontrivial=True,
                                          sample={"op": lines[-1], "impl": impl}
                                          if (n, past, d1, d2, ncol, hasw) == (5, 2, 1, 3, 1, True) else None)
                                corr.hit("build:" + (impl if not impl.startswith("ok") else
                                                     "ok-rows>0" if nrow > 0 else "ok-no-row"))
                                corr.hit("nrow<0" if nrow < 0 else "nrow=0" if nrow == 0 else "nrow>0")
                                if past == 0:
                                    corr.hit("past=0 (negative slice bound wraps)")
                                if d1 > 1:
                                    corr.hit("delay1>1")
    for t in range(ctx.pick(3000, 20000)):
        n = rng.choice([0, 1, 2, 2, 3, 3, 4, 5, 6, 8, 11])
        kind = rng.randrange(6)
        e = [rng.randint(-9, 9) for _ in range(n)]
        if kind == 0:
            e = [e[0]] * n if n else []
        if kind == 1 and n:
            p = [None] + e[:-1]
        elif kind == 2 and n:
            p = [e[0]] + e[:-1]
        else:
            lead = rng.randint(0, min(n, 3))
            p = [None if (i < lead or rng.random() < 0.1) else rng.randint(-9, 9) for i in range(n)]
        if rng.random() < 0.1 and n:
            p = p[:-1]
        w = [rng.randint(0, 4) for _ in range(n)] if rng.random() < 0.4 else None
        impl = _impl_mape(e, p, w)
        lines.append(_mape_line(e, p, w))
        expect.append(("mape", {"expected": e, "predicted": p, "weights": w}, impl))
        corr.case(("mape", tuple(e), tuple(p), None if w is None else tuple(w)), nontrivial=n >= 2,
                  sample={"op": lines[-1], "impl": impl} if t < 2 else None)
        corr.hit("mape:" + impl.split(" ")[0])
    out = run_driver(DRIVER, lines)
    for (op, inp, impl), got in zip(expect, out):
        if op == "mape" and got.startswith("num "):
            got = "num %r" % float(Fraction(got[4:]))
        if got != impl:
            corr.disagree(op, inp, got, impl)
    return corr


# ------------------------------------------------------------------------------ search (oracle from the statement)

_OFF = [0.0]          # fractional part added to the series by the current layout (see _series)
LAYOUTS = ("plain", "strided-y", "half-intX", "fine-f32X")


def _series(n, ncol, weights, layout="plain"):
    """A series whose values reveal their time index: y[t] = 7t+3 (+ a fractional offset), X[t][j] = 1000+10t+j,
    w[t] = 5000+t.  Layouts: `strided-y` = y is a column of a C-ordered table (a non-contiguous view);
    `half-intX` = non-integral series with integer-typed exogenous features; `fine-f32X` = a series that float32
    cannot hold exactly with float32 exogenous features."""
    import numpy
    off = {"half-intX": 0.5, "fine-f32X": 2.0 ** -20}.get(layout, 0.0)
    _OFF[0] = off
    y = numpy.array([7 * t + 3 + off for t in range(n)], dtype=float)
    if layout == "strided-y":
        y = numpy.column_stack([y, y + 0.25, -y]).copy(order="C")[:, 0]
    xdt = {"half-intX": numpy.int64, "fine-f32X": numpy.float32}.get(layout, float)
    X = None if ncol is None else numpy.array([[1000 + 10 * t + j for j in range(ncol)] for t in range(n)],
                                              dtype=xdt).reshape(n, ncol)
    w = numpy.array([5000 + t for t in range(n)], dtype=float) if weights else None
    return X, y, w


def _check_row(r, xrow, yrow, wval, n, past, d1, d2, ncol):
    """Statement, for one non-NaN row: returns [(key, what, observed, required)]."""
    bad = []
    nc = ncol or 0
    vals = list(xrow) + list(yrow)
    if any(v != v for v in vals):
        return [("partly-nan-row", "row %d mixes NaN and values" % r, [list(map(float, xrow)), list(map(float, yrow))],
                 "a frame row has all its lags and targets")]

    def idx(v):
        q = int(round((float(v) - 3 - _OFF[0]) / 7))
        return q if float(v) == 7 * q + 3 + _OFF[0] and 0 <= q < n else None
    lags = [idx(v) for v in xrow[nc:]]
    tgts = [idx(v) for v in yrow]
    if None in lags or None in tgts:
        return [("not-series-values", "row %d holds values that are not observations of the series" % r,
                 [list(map(float, xrow)), list(map(float, yrow))], "lags and targets taken from y")]
    if len(lags) != past or sorted(lags) != list(range(min(lags), min(lags) + past)):
        bad.append(("lags-not-consecutive", "row %d: lag features are not `past`=%d consecutive values" % (r, past),
                    lags, "%d consecutive time indices" % past))
    if len(tgts) != d2 - d1 or sorted(tgts) != list(range(min(tgts), min(tgts) + len(tgts))):
        bad.append(("targets-not-consecutive", "row %d: targets are not %d consecutive values" % (r, d2 - d1), tgts,
                    "%d consecutive time indices" % (d2 - d1)))
    if lags and tgts and max(lags) >= min(tgts):
        bad.append(("look-ahead", "row %d: a lag feature is not strictly older than every target" % r,
                    {"lags": lags, "targets": tgts}, "max(lag) < min(target)"))
    if lags and tgts and min(tgts) - max(lags) != d1:
        bad.append(("first-target-offset", "row %d: first target is not delay1=%d after the newest lag" % (r, d1),
                    {"newest_lag": max(lags), "first_target": min(tgts)}, "first target = newest lag + %d" % d1))
    if lags:
        newest = max(lags)
        if nc and [int(v) for v in xrow[:nc]] != [1000 + 10 * newest + j for j in range(nc)]:
            bad.append(("exogenous-misaligned", "row %d: exogenous features are not those of the newest lag" % r,
                        [int(v) for v in xrow[:nc]], "X[%d]" % newest))
        if wval is not None and int(wval) != 5000 + newest:
            bad.append(("weights-misaligned", "row %d: weight is not the one of the newest lag" % r, int(wval),
                        5000 + newest))
        if newest != past - 1 + r:
            bad.append(("rows-out-of-order", "row %d does not frame the r-th window of the series" % r, lags,
                        "newest lag %d" % (past - 1 + r)))
    return bad


def _frame_violations(n, past, d2, ncol, weights, layout="plain", before=None):
    """Run both variants on the real code (delay1 = 1) and apply the statement."""
    import numpy
    d1 = 1
    model = _used_model(before, past, d2) if before else None
    X, y, w = _series(n, ncol, weights, layout)
    bad = []
    nrow = n - d2 - past + 2
    enough = nrow >= 0
    try:
        nx, ny, nw = _call_build(past, d1, d2, X, y, w, False, model=model)
        plain = (nx, ny, nw)
    except Exception as e:
        plain = None
        if enough:
            bad.append(("plain-raises-" + type(e).__name__, "build_ts_X_y raises on a series that can be framed",
                        "%s: %s" % (type(e).__name__, str(e)[:120]), "a table of %d rows" % nrow))
    if plain is not None:
        nx, ny, nw = plain
        if enough and (nx.shape[0] != nrow or ny.shape[0] != nrow or (nw is not None and len(nw) != nrow)):
            bad.append(("row-count", "number of framed rows", [nx.shape[0], ny.shape[0],
                                                               None if nw is None else len(nw)],
                        "n - delay2 - past + 2 = %d" % nrow))
        if (nw is None) != (not weights):
            bad.append(("weights-presence", "weights returned", nw is not None, weights))
        for r in range(min(nx.shape[0], ny.shape[0])):
            wv = None if nw is None or r >= len(nw) else nw[r]
            bad += _check_row(r, nx[r], ny[r], wv, n, past, d1, d2, ncol)
    try:
        sx, sy, sw = _call_build(past, d1, d2, X, y, w, True, model=model)
        same = (sx, sy, sw)
    except Exception as e:
        same = None
        if enough:
            bad.append(("same_rows-raises-" + type(e).__name__, "same_rows variant raises on a series that can be "
                        "framed", "%s: %s" % (type(e).__name__, str(e)[:120]), "a table of %d rows" % n))
    if same is not None:
        sx, sy, sw = same
        if sx.shape[0] != n or sy.shape[0] != n:
            bad.append(("same_rows-length", "same_rows table does not keep the original length",
                        [sx.shape[0], sy.shape[0]], n))
        elif plain is not None and enough:
            nx, ny, _ = plain
            pad = n - nx.shape[0]
            okpad = bool(numpy.isnan(sx[:pad]).all() and numpy.isnan(sy[:pad]).all())
            okrest = sx[pad:].shape == nx.shape and sy[pad:].shape == ny.shape and \
                bool((sx[pad:] == nx).all() and (sy[pad:] == ny).all())
            if not (okpad and okrest):
                bad.append(("same_rows-not-padded-plain", "same_rows table is not the plain table left-padded with NaN",
                            {"X": sx.tolist(), "y": sy.tolist()}, {"pad_rows": pad, "X": nx.tolist(), "y": ny.tolist()}))
        # a table already returned keeps its content when another series of the same length is framed afterwards
        try:
            keep = [None if a is None else numpy.array(a, copy=True) for a in (sx, sy, sw)]
            X2 = None if X is None else X + 50000
            _call_build(past, d1, d2, X2, y + 70000.0, w, True, model=model)
            _call_build(past, d1, d2, X2, y + 90000.0, w, False, model=model)
            for nm, a, b in zip(("X", "y", "weights"), (sx, sy, sw), keep):
                if a is not None and not numpy.array_equal(numpy.asarray(a, dtype=float), numpy.asarray(b, dtype=float),
                                                           equal_nan=True):
                    bad.append(("earlier-result-overwritten", "the %s table returned for one series changes when another series "
                                "of the same length is framed afterwards" % nm, numpy.asarray(a, dtype=float)[-2:].tolist(),
                                numpy.asarray(b, dtype=float)[-2:].tolist()))
                    break
        except Exception:  # noqa: BLE001
            pass
        if sx.shape[0] != n or sy.shape[0] != n or (plain is not None and enough):
            pass
        elif not enough:
            # too short: nothing can be framed, so no row may carry a value
            for r in range(n):
                if not (numpy.isnan(sx[r]).all() and numpy.isnan(sy[r]).all()):
                    bad.append(("same_rows-short-series-has-row", "a series too short to be framed yields a row",
                                {"row": r, "X": sx[r].tolist(), "y": sy[r].tolist()}, "only NaN rows"))
                    break
    return bad


def _mape_violations(e, p, w, int_series=False):
    """Statement for ts_mape on (expected, predicted, weights); `p` may hold None (NaN forecast).  `int_series`: the
    series is stored with an integer dtype (counts); the weights may be fractional (decay / normalised weights)."""
    import numpy
    from mlinsights.timeseries.metrics import ts_mape
    ea = numpy.array(e, dtype=numpy.int64 if int_series else float)
    pa = numpy.array([numpy.nan if v is None else v for v in p], dtype=float)
    wa = None if w is None else numpy.array(w, dtype=float)
    # rows on which forecast and naive forecast can both be compared: t >= 1 with p[t], p[t-1] not NaN
    rows = [t for t in range(1, len(e)) if p[t] is not None and p[t - 1] is not None]
    den = sum(abs(e[t] - e[t - 1]) * (1 if w is None else w[t]) for t in rows)
    num = sum(abs(p[t] - e[t]) * (1 if w is None else w[t]) for t in rows)
    try:
        r = ts_mape(ea, pa, wa)
    except Exception as ex:
        cls = "zero-denominator" if den == 0 and num != 0 else "nonzero-denominator" if den != 0 else "zero-over-zero"
        return [("ts_mape:%s-raises-%s" % (cls, type(ex).__name__),
                 "ts_mape raises instead of returning a non-negative value (sum|y_t - y_{t-1}| = %s, "
                 "sum|pred_t - y_t| = %s)" % (den, num), "%s: %s" % (type(ex).__name__, str(ex)[:120]),
                 "+inf" if den == 0 and num != 0 else "a value >= 0")]
    if r is numpy.ma.masked:
        if rows:
            return [("ts_mape:masked-with-comparable-rows", "ts_mape returns masked although rows can be compared",
                     "masked", "a value >= 0")]
        return []
    r = float(r)
    bad = []
    if not r >= 0:
        bad.append(("ts_mape:negative", "ts_mape is negative or NaN", r, ">= 0"))
    naive = all(p[t] == e[t - 1] for t in range(1, len(e))) and len(e) >= 2 and (p[0] is None or p[0] == e[0])
    if naive and den != 0 and r != 1.0:
        bad.append(("ts_mape:naive-not-one", "ts_mape of the naive previous-value forecast is not 1", r, 1.0))
    if den != 0 and abs(r - num / den) > 1e-9 * max(1.0, abs(num / den)):
        bad.append(("ts_mape:not-the-ratio", "ts_mape is not sum|pred - y| / sum|y_t - y_{t-1}|", r, num / den))
    return bad


def _mape_scale_violations(scale, weight_scale):
    """ts_mape is a ratio: a series (or its weights) expressed in another unit gives the same value; the naive
    previous-value forecast scores 1 whatever the magnitude of the series"""
    import numpy
    from mlinsights.timeseries.metrics import ts_mape
    base = numpy.array([3.0, 5.0, 4.0, 9.0, 7.0, 12.0, 8.0, 15.0]) * scale
    naive = numpy.concatenate([[numpy.nan], base[:-1]])
    w = None if weight_scale is None else numpy.array([1.0, 2.0, 1.0, 3.0, 1.0, 2.0, 2.0, 1.0]) * weight_scale
    bad = []
    try:
        r = ts_mape(base, naive, w)
    except Exception as ex:  # noqa: BLE001
        return [("ts_mape:raises-on-scaled-series", "ts_mape raises on a series of magnitude %g" % scale,
                 "%s: %s" % (type(ex).__name__, str(ex)[:120]), 1.0)]
    if r is numpy.ma.masked or not abs(float(r) - 1.0) <= 1e-9:
        bad.append(("ts_mape:naive-not-one:scaled", "ts_mape of the naive previous-value forecast is not 1 for a series of "
                    "magnitude %g%s" % (scale, "" if w is None else " with weights of magnitude %g" % weight_scale),
                    None if r is numpy.ma.masked else float(r), 1.0))
    return bad


def _mape_table_violations(n, past, d2):
    """the multi-horizon target table build_ts_X_y yields (delay2 >= 3: several consecutive targets per row) scored
    against the naive forecast 'the previous row': still exactly 1"""
    import numpy
    from mlinsights.timeseries.metrics import ts_mape
    X, y, w = _series(n, None, False, "plain")
    y = y + numpy.array([(t * t) % 7 for t in range(n)], dtype=float)       # not an arithmetic progression
    try:
        _, ny, _ = _call_build(past, 1, d2, None, y, None, False)
    except Exception:  # noqa: BLE001
        return []
    ny = numpy.asarray(ny, dtype=float)
    if ny.ndim != 2 or ny.shape[1] < 2 or ny.shape[0] < 3:
        return []
    pred = numpy.vstack([numpy.full((1, ny.shape[1]), numpy.nan), ny[:-1]])
    try:
        r = ts_mape(ny, pred)
    except Exception as ex:  # noqa: BLE001
        return [("ts_mape:raises-on-target-table", "ts_mape raises on the target table of build_ts_X_y",
                 "%s: %s" % (type(ex).__name__, str(ex)[:120]), 1.0)]
    if r is numpy.ma.masked or not abs(float(r) - 1.0) <= 1e-12:
        return [("ts_mape:naive-not-one:target-table", "ts_mape of the naive previous-row forecast of a %d-column target "
                 "table is not 1" % ny.shape[1], None if r is numpy.ma.masked else float(r), 1.0)]
    return []


def search(ctx, hints):
    ctx.shadow(need_cython=False)
    rng = ctx.rng
    vs, evals, nontriv, samples = [], 0, set(), []
    for scale, wscale in ((1e-11, None), (1e-9, 1.0), (1.0, 1e-11), (1e9, None), (1e-4, 1e-6)):
        evals += 1
        nontriv.add(("mape-scale", scale, wscale))
        for key, what, obs, req in _mape_scale_violations(scale, wscale):
            vs.append(Violation(key, what, {"kind": "mape-scale", "scale": scale, "weight_scale": wscale, "n": 8, "past": 0,
                                            "delay2": 0}, obs, req))
    for n, past, d2 in ((12, 1, 3), (15, 2, 4), (20, 3, 3)):
        evals += 1
        nontriv.add(("mape-table", n, past, d2))
        for key, what, obs, req in _mape_table_violations(n, past, d2):
            vs.append(Violation(key, what, {"kind": "mape-table", "n": n, "past": past, "delay2": d2}, obs, req))
    nmax, pmax, dmax = ctx.pick((24, 6, 6), (48, 9, 9))
    for n in range(0, nmax + 1):
        for past in range(1, pmax + 1):
            for d2 in range(2, dmax + 1):
                for ncol in (None, 1, 2):
                    for weights in (False, True):
                        if ncol == 2 and not weights and (n + past + d2) % 2:
                            continue
                        layout = LAYOUTS[(n + 3 * past + 5 * d2 + (ncol or 0)) % len(LAYOUTS)] if n % 3 == 1 else "plain"
                        bad = _frame_violations(n, past, d2, ncol, weights, layout)
                        evals += 1
                        nontriv.add((n, past, d2, ncol, weights, layout))
                        inp = {"kind": "frame", "n": n, "past": past, "delay1": 1, "delay2": d2, "ncol": ncol,
                               "weights": weights, "layout": layout}
                        for key, what, obs, req in bad:
                            vs.append(Violation("build_ts_X_y:" + key, what, inp, obs, req))
                        if len(samples) < 2 and n == 6 and past == 2:
                            samples.append(dict(inp, violations=len(bad)))
    # the same model object used under two configurations in sequence (set_params in between)
    for t in range(ctx.pick(600, 6000)):
        n = rng.randint(0, nmax)
        before = {"n": n if rng.random() < 0.7 else rng.randint(0, nmax), "past": rng.randint(1, pmax),
                  "delay2": rng.randint(2, dmax), "ncol": rng.choice([None, 1, 2]), "weights": rng.random() < 0.5}
        past, d2 = rng.randint(1, pmax), rng.randint(2, dmax)
        ncol = before["ncol"] if rng.random() < 0.7 else rng.choice([None, 1, 2])
        weights = rng.random() < 0.5
        bad = _frame_violations(n, past, d2, ncol, weights, "plain", before=before)
        evals += 1
        nontriv.add((n, past, d2, ncol, weights, "after", tuple(sorted(before.items(), key=str))))
        inp = {"kind": "frame", "n": n, "past": past, "delay1": 1, "delay2": d2, "ncol": ncol, "weights": weights,
               "layout": "plain", "before": before}
        for key, what, obs, req in bad:
            vs.append(Violation("build_ts_X_y:" + key, what + " (model object used before under another configuration)",
                                inp, obs, req))
    # ts_mape
    cases = []
    for n in range(2, 7):
        for c in (0, 3):
            cases.append(([c] * n, [c] * n, None))                # 0/0
            cases.append(([c] * n, [c] * (n - 1) + [c + 2], None))  # zero denominator, non-zero error
            cases.append(([c] * n, [None] + [c + 1] * (n - 1), [1] * n))
    for t in range(ctx.pick(4000, 30000)):
        n = rng.randint(2, 9)
        e = [rng.randint(-9, 9) for _ in range(n)]
        k = rng.randrange(5)
        if k == 0:
            e = [e[0]] * n
        if k == 1:
            p = [None] + e[:-1]
        elif k == 2:
            p = [e[0]] + e[:-1]
        else:
            lead = rng.randint(0, min(n, 3))
            p = [None if (i < lead or rng.random() < 0.08) else rng.randint(-9, 9) for i in range(n)]
        w = [rng.randint(0, 4) for _ in range(n)] if rng.random() < 0.4 else None
        if w is not None and rng.random() < 0.4:
            w = [rng.choice([0.0, 0.125, 0.25, 0.5, 0.75, 1.0, 2.5]) for _ in range(n)]     # fractional (exact in binary)
        cases.append((e, p, w, rng.random() < 0.35))
    for case in cases:
        e, p, w = case[:3]
        ints = len(case) > 3 and case[3]
        evals += 1
        nontriv.add((tuple(e), tuple(p), None if w is None else tuple(w), ints))
        for key, what, obs, req in _mape_violations(e, p, w, ints):
            inp = {"kind": "mape", "expected": e, "predicted": p, "weights": w}
            if ints:
                inp["int_series"] = True
                what += " (series of integer dtype)"
            vs.append(Violation(key, what, inp, obs, req))
    best = {}

    def size(v):
        i = v.input
        return (i["n"], i["past"], i["delay2"]) if i["kind"] in ("frame", "mape-table", "mape-scale") else (len(i["expected"]), 0, 0)
    for v in vs:
        if v.key not in best or size(v) < size(best[v.key]):
            best[v.key] = v
    return list(best.values()), {"evaluations": evals, "distinct_nontrivial": len(nontriv), "samples": samples}


def replay(ctx, item):
    ctx.shadow(need_cython=False)
    inp = item["input"]
    if inp.get("kind") == "mape-scale":
        return [Violation(k, w, inp, o, r) for k, w, o, r in _mape_scale_violations(inp["scale"], inp["weight_scale"])]
    if inp.get("kind") == "mape-table":
        return [Violation(k, w, inp, o, r) for k, w, o, r in _mape_table_violations(inp["n"], inp["past"], inp["delay2"])]
    if inp.get("kind") == "mape":
        bad = _mape_violations(inp["expected"], inp["predicted"], inp["weights"], bool(inp.get("int_series")))
        out = [Violation(k, w, inp, o, r) for k, w, o, r in bad]
    else:
        bad = _frame_violations(inp["n"], inp["past"], inp["delay2"], inp["ncol"], inp["weights"],
                                inp.get("layout", "plain"), before=inp.get("before"))
        out = [Violation("build_ts_X_y:" + k, w, inp, o, r) for k, w, o, r in bad]
    best = {}
    for v in out:
        best.setdefault(v.key, v)
    return list(best.values())
