"""C17 — IntervalRegressor bootstraps over the whole training set, aggregates exactly."""
import ast
from fractions import Fraction

from core import Corr, Violation, run_driver
from extract import pyexpr

ID = "C17"
#: functions the hand-written model transcribes: their control skeleton (extract/shape.py) is regenerated into
#: Gen/C17.lean and compared with the literal in Properties/C17.lean (`modelled_functions_have_the_transcribed_shape`)
SHAPES = [
    ("shapeFit", "mlinsights/mlmodel/interval_regressor.py", "IntervalRegressor.fit"),
    ("shapePredictAll", "mlinsights/mlmodel/interval_regressor.py", "IntervalRegressor.predict_all", "full"),
    ("shapePredict", "mlinsights/mlmodel/interval_regressor.py", "IntervalRegressor.predict", "full"),
    ("shapePredictSorted", "mlinsights/mlmodel/interval_regressor.py", "IntervalRegressor.predict_sorted", "full"),
]
SRC = "mlinsights/mlmodel/interval_regressor.py"
LEAN_TARGETS = ["MlVerif.Gen.C17", "MlVerif.Model.Interval", "MlVerif.Properties.C17"]
PROPERTY_FILE = "MlVerif/Properties/C17.lean"
DRIVER = "Drivers/C17.lean"
TRUSTED = [
    "numpy.random.randint(lo, hi, size) is supported on exactly [lo, hi) and returns `size` draws",
    "numpy fancy indexing a[idx] selects rows idx in order; ndarray.mean/numpy.sort on exact small integers",
    "joblib.Parallel returns results in submission order",
    "base regressors are parameters of the model (their predictions are fed to it)",
]
ASSUMPTIONS = [
    "round(alpha*n) in the statement is read as the code's int(alpha*n + 0.5); the search oracle accepts "
    "either neighbour on an exact .5 tie",
]
RULE = ("correspondence: (n, alpha) grid -> extracted randint arguments vs recorded numpy.random.randint calls; "
        "recorded draws -> model gather vs what each recording base regressor was fitted on; "
        "integer prediction matrices -> model mean/sort vs predict/predict_sorted. Non-trivial = n>=1 with "
        "at least one draw / matrix with >=2 estimators and unsorted rows")


# ------------------------------------------------------------------------------ extractor

def extract(ctx):
    tree = ast.parse(ctx.source(SRC))
    fit = pyexpr.find_function(tree, "IntervalRegressor.fit")
    inner = pyexpr.find_function(fit, "_fit_piecewise_estimator")
    table = {"X.shape[0]": ("n", "int"), "alpha": ("alpha", "rat"), "len(X)": ("n", "int")}
    tr = pyexpr.Tr(table)
    ns = pyexpr.assignments(inner, "new_size")
    if len(ns) == 1:
        new_size = tr.int_expr(ns[0].value)
    else:
        new_size = '(MlVerif.Gen.unknownInt "new_size: %d assignments")' % len(ns)
    table2 = dict(table)
    table2["new_size"] = ("(newSize n alpha)", "int")
    tr2 = pyexpr.Tr(table2)
    cs = pyexpr.calls(inner, "numpy.random.randint")
    if len(cs) == 1 and len(cs[0].args) == 3 and not cs[0].keywords:
        lo, hi, size = (tr2.int_expr(a) for a in cs[0].args)
    else:
        lo = hi = size = '(MlVerif.Gen.unknownInt "numpy.random.randint call not found in the expected form")'
    body = pyexpr.HEADER + """import MlVerif.Gen.Base
namespace MlVerif.Gen.C17
open MlVerif.Gen

/-- `new_size = %s` -/
def newSize (n : Int) (alpha : Rat) : Int := %s
/-- arguments of `numpy.random.randint(lo, hi, size)` in `_fit_piecewise_estimator` -/
def randLo (n : Int) (alpha : Rat) : Int := %s
def randHi (n : Int) (alpha : Rat) : Int := %s
def randSize (n : Int) (alpha : Rat) : Int := %s

end MlVerif.Gen.C17
""" % (ast.unparse(ns[0].value) if ns else "?", new_size, lo, hi, size)
    return {"MlVerif/Gen/C17.lean": body}


# ------------------------------------------------------------------------------ helpers

class Recorder:
    """Base regressor that records exactly what it is fitted on; predicts a.x0 + b."""

    def __init__(self, a=1, b=0):
        self.a = a
        self.b = b

    def get_params(self, deep=True):
        return {"a": self.a, "b": self.b}

    def set_params(self, **kw):
        for k, v in kw.items():
            setattr(self, k, v)
        return self

    def fit(self, X, y, sample_weight=None):
        import numpy
        self.seen_X = numpy.array(X).copy()
        self.seen_y = numpy.array(y).copy()
        self.seen_w = None if sample_weight is None else numpy.array(sample_weight).copy()
        # like kernel / neighbour models, it also KEEPS the arrays it was given (no copy)
        self.kept_X, self.kept_y, self.kept_w = X, y, sample_weight
        # make the prediction depend on the training sample
        self.k_ = int(self.seen_y.sum()) % 11 if len(self.seen_y) else 0
        return self

    def predict(self, X):
        import numpy
        X = numpy.asarray(X)
        # non-integer (dyadic, exact in float32 and float64) predictions, whatever the dtype of the batch
        return X[:, 0].astype(float) * self.a + self.b + self.k_ + 0.25


class RandintRecorder:
    def __init__(self):
        self.calls = []

    def __enter__(self):
        import numpy
        self.numpy = numpy
        self.orig = numpy.random.randint

        def rec(*a, **k):
            entry = [a, k, []]
            self.calls.append(entry)        # arguments are recorded even when the call raises
            r = self.orig(*a, **k)
            entry[2] = r.copy() if hasattr(r, "copy") else r
            return r
        numpy.random.randint = rec
        return self

    def __exit__(self, *a):
        self.numpy.random.randint = self.orig


def fmt_frac(fr):
    fr = Fraction(fr)
    return "%d/%d" % (fr.numerator, fr.denominator)


def fl(xs):
    xs = list(xs)
    return ",".join(str(int(x)) for x in xs) if xs else "-"


def make_data(n, d=2, weights=True):
    import numpy
    X = numpy.array([[i] + [10 * i + j for j in range(1, d)] for i in range(n)], dtype=float).reshape(n, d)
    y = numpy.array([100 + i for i in range(n)], dtype=float)
    w = numpy.array([1000 + i for i in range(n)], dtype=float) if weights else None
    if weights == "zeros":       # "all sample weights": rows of weight 0 are rows of the training set like the others
        w[::2] = 0.0
    if weights == "frac_int_y":  # integer-typed targets (counts) with fractional weights: each keeps its own dtype
        y = y.astype(numpy.int64)
        w = numpy.array([0.25 + 0.5 * (i % 5) for i in range(n)], dtype=float)
    return X, y, w


# ------------------------------------------------------------------------------ correspondence

def correspond(ctx):
    ctx.shadow(need_cython=False)
    import numpy
    from mlinsights.mlmodel.interval_regressor import IntervalRegressor
    corr = Corr()
    corr.rule = RULE
    rng = ctx.rng
    lines, expect = [], []
    alphas = [Fraction(1), Fraction(1, 2), Fraction(3, 4), Fraction(1, 4), Fraction(5, 4), Fraction(2),
              Fraction(1, 8), Fraction(7, 8)]
    ns = list(range(1, ctx.pick(14, 60)))
    for n in ns:
        for al in alphas:
            size_expected = int(n * float(al) + 0.5)
            X, y, w = make_data(n, 2, weights=(n % 2 == 0))
            numpy.random.seed(rng.randrange(1 << 30))
            ne = rng.choice([1, 2, 3, 5])
            model = IntervalRegressor(Recorder(), alpha=float(al), n_estimators=ne)
            with RandintRecorder() as rr:
                try:
                    model.fit(X, y, w)
                    err = None
                except Exception as e:  # canonical error kind
                    err = type(e).__name__
            # op 1: the randint arguments
            lines.append("randargs %d %s" % (n, fmt_frac(al)))
            if rr.calls:
                a, k, _ = rr.calls[0]
                impl = "%s %s %s" % tuple(int(v) for v in a[:3]) if len(a) == 3 and not k else "args=%r %r" % (a, k)
            else:
                impl = "no-randint-call"
            expect.append(("randargs", (n, str(al)), impl))
            corr.case(("randargs", n, al), nontrivial=True,
                      sample={"op": "randargs", "n": n, "alpha": str(al), "impl": impl} if n in (1, 5) else None)
            corr.hit("alpha<1" if al < 1 else "alpha>=1")
            corr.hit("fit_error:%s" % err if err else "fit_ok")
            if err is None and rr.calls:
                # op 2: what each estimator saw
                for j, est in enumerate(model.estimators_):
                    if j >= len(rr.calls):
                        break
                    idx = [int(v) for v in rr.calls[j][2]]
                    wtxt = fl(w) if w is not None else "none"
                    lines.append("gather %s %s %s %s" % (fl(idx), ";".join(fl(r) for r in X), fl(y), wtxt))
                    impl = "%s|%s|%s" % (";".join(fl(r) for r in est.seen_X) if len(est.seen_X) else "-",
                                         fl(est.seen_y),
                                         "none" if est.seen_w is None else fl(est.seen_w))
                    expect.append(("gather", (n, str(al), idx), impl))
                    corr.case(("gather", n, al, tuple(idx)), nontrivial=len(idx) > 0)
                    corr.hit("weights" if w is not None else "no_weights")
    # op 3: aggregation on integer prediction matrices
    for t in range(ctx.pick(150, 3000)):
        r = rng.randint(1, 6)
        m = rng.randint(1, 9)
        mat = [[rng.randint(-20, 20) for _ in range(m)] for _ in range(r)]

        class Const:
            def __init__(self, col):
                self.col = col

            def predict(self, X):
                return numpy.array(self.col, dtype=float)
        model = IntervalRegressor(Recorder(), n_estimators=m)
        model.estimators_ = [Const([mat[i][j] for i in range(r)]) for j in range(m)]
        Xq = numpy.zeros((r, 1))
        p = model.predict(Xq)
        ps = model.predict_sorted(Xq)
        lines.append("agg %s" % ";".join(fl(row) for row in mat))
        impl = "%s|%s" % (",".join(repr(float(v)) for v in p), ";".join(fl(row) for row in ps))
        expect.append(("agg", mat, impl))
        corr.case(("agg", tuple(map(tuple, mat))), nontrivial=(m >= 2 and any(row != sorted(row) for row in mat)),
                  sample={"op": "agg", "matrix": mat, "impl": impl} if t < 2 else None)
        corr.hit("agg_m=%d" % m)
    out = run_driver(DRIVER, lines)
    for (op, inp, impl), got in zip(expect, out):
        if op == "agg":
            # model prints exact rationals for the mean; compare with the float exactly
            means, srt = got.split("|")
            mm = ",".join(repr(float(Fraction(v))) for v in means.split(","))
            got = "%s|%s" % (mm, srt)
        if got != impl:
            corr.disagree(op, inp, got, impl)
    return corr


# ------------------------------------------------------------------------------ search (oracle from the statement)

def _one_config(n, alpha, ne, weights, seed, d=2, n_jobs=None):
    """Run the real code once; return a list of (key, what, observed, required)."""
    import numpy
    from mlinsights.mlmodel.interval_regressor import IntervalRegressor
    bad = []
    X, y, w = make_data(n, d, weights)
    numpy.random.seed(seed)
    model = IntervalRegressor(Recorder(), alpha=alpha, n_estimators=ne, n_jobs=n_jobs)
    try:
        r = model.fit(X, y, w)
    except Exception as e:
        return [("fit-raises", "fit raises %s on a valid training set (n=%d)" % (type(e).__name__, n),
                 "%s: %s" % (type(e).__name__, e), "n_estimators models trained")], set()
    if r is not model:
        bad.append(("fit-return", "fit does not return self", repr(r), "self"))
    if len(model.estimators_) != ne:
        bad.append(("n-estimators", "number of trained models", len(model.estimators_), ne))
    lo_size = int(numpy.floor(alpha * n + 0.5))
    ok_sizes = {lo_size}
    if abs((alpha * n + 0.5) - round(alpha * n + 0.5)) < 1e-9:
        ok_sizes |= {lo_size - 1, lo_size + 1}
    drawn = set()
    for est in model.estimators_:
        # a model that keeps a reference to its training arrays (a kernel model does) still holds ITS sample once
        # all models are trained
        kept_ok = numpy.array_equal(numpy.asarray(est.kept_X), est.seen_X) and \
            numpy.array_equal(numpy.asarray(est.kept_y), est.seen_y) and \
            (est.seen_w is None or numpy.array_equal(numpy.asarray(est.kept_w), est.seen_w))
        if not kept_ok:
            bad.append(("training-arrays-modified-after-fit", "the arrays a model was trained on are overwritten afterwards "
                        "(a model keeping a reference to its training sample no longer holds the rows it was fitted on)",
                        numpy.asarray(est.kept_X)[:3].tolist(), est.seen_X[:3].tolist()))
            break
    for est in model.estimators_:
        if len(est.seen_y) not in ok_sizes:
            bad.append(("sample-size", "bootstrap sample size", len(est.seen_y), "round(alpha*n)=%d" % lo_size))
        for i in range(len(est.seen_y)):
            row = int(est.seen_X[i, 0])
            drawn.add(row)
            okx = list(est.seen_X[i]) == list(X[row]) if 0 <= row < n else False
            oky = okx and est.seen_y[i] == y[row]
            okw = okx and ((est.seen_w is None) == (w is None)) and (w is None or est.seen_w[i] == w[row])
            if not (okx and oky and okw):
                bad.append(("rows-together", "features/target/weight of a drawn row not kept together",
                            [list(map(float, est.seen_X[i])), float(est.seen_y[i]),
                             None if est.seen_w is None else float(est.seen_w[i])], "row %d of the training set" % row))
                break
    # aggregation
    Xq = numpy.array([[float(i), 0.0] for i in range(-2, 3)])[:, :d]
    # query batches of every common dtype: the individual predictions must come back untouched
    for dt in (numpy.int64, numpy.float32, numpy.int32):
        Xd = Xq.astype(dt)
        pa_d = model.predict_all(Xd)
        ind_d = numpy.array([e.predict(Xd) for e in model.estimators_]).T
        if pa_d.shape != ind_d.shape or not (pa_d == ind_d).all():
            bad.append(("predict-all-dtype", "predict_all is not the individual predictions for a %s query batch" % dt.__name__,
                        pa_d.tolist(), ind_d.tolist()))
            break
        pm = model.predict(Xd)
        if not numpy.allclose(pm, ind_d.mean(axis=1), rtol=1e-12, atol=1e-12):
            bad.append(("predict-mean-dtype", "predict is not the mean of the individual predictions for a %s query batch"
                        % dt.__name__, pm.tolist(), ind_d.mean(axis=1).tolist()))
            break
    # history on ONE query array modified in place between two calls ("all query batches": the answer is a function
    # of the batch's content, whatever object holds it and whatever was asked before)
    Xm = Xq.copy()
    for step in range(3):
        for meth in ("predict_all", "predict", "predict_sorted"):
            got = getattr(model, meth)(Xm)
            indm = numpy.array([e.predict(Xm) for e in model.estimators_]).T
            want = {"predict_all": indm, "predict": indm.mean(axis=1), "predict_sorted": numpy.sort(indm, axis=1)}[meth]
            if got.shape != want.shape or not numpy.allclose(got, want, rtol=1e-12, atol=1e-12):
                bad.append(("same-array-new-content:" + meth, "%s on a query array modified in place since the last call "
                            "does not describe its current content" % meth, numpy.asarray(got).tolist(), want.tolist()))
        Xm += 1.0
    # history: the hyper-parameter n_estimators is changed after fit (no refit): the fitted models still decide
    model.set_params(n_estimators=ne + 3)
    pm = model.predict(Xq)
    indh = numpy.array([e.predict(Xq) for e in model.estimators_]).T
    if not numpy.allclose(pm, indh.mean(axis=1), rtol=1e-12, atol=1e-12):
        bad.append(("predict-mean-after-set_params", "after set_params(n_estimators=...) without refit, predict is not the "
                    "mean of the individual predictions", pm.tolist(), indh.mean(axis=1).tolist()))
    model.set_params(n_estimators=ne)
    pa = model.predict_all(Xq)
    ind = numpy.array([e.predict(Xq) for e in model.estimators_]).T
    if pa.shape != ind.shape or not (pa == ind).all():
        bad.append(("predict-all", "predict_all is not the individual predictions", pa.tolist(), ind.tolist()))
    p = model.predict(Xq)
    if not numpy.allclose(p, ind.mean(axis=1), rtol=1e-12, atol=1e-12):
        bad.append(("predict-mean", "predict is not the mean of the individual predictions", p.tolist(),
                    ind.mean(axis=1).tolist()))
    ps = model.predict_sorted(Xq)
    if ps.shape != ind.shape or not (numpy.sort(ind, axis=1) == ps).all():
        bad.append(("predict-sorted", "predict_sorted is not the sorted individual predictions", ps.tolist(),
                    numpy.sort(ind, axis=1).tolist()))
    elif not ((ps.min(axis=1) <= p + 1e-9).all() and (p <= ps.max(axis=1) + 1e-9).all()):
        bad.append(("min-mean-max", "min <= predict <= max fails", p.tolist(), ps.tolist()))
    return bad, drawn


def _with_replacement_probe(seed):
    """rows are drawn WITH replacement: with n = 4 rows and samples of 2 rows, a sample repeats a row with
    probability 1/4; over 300 samples the chance that no sample repeats a row is (3/4)^300 < 1e-37."""
    import numpy
    from mlinsights.mlmodel.interval_regressor import IntervalRegressor
    X, y, w = make_data(4, 2, False)
    numpy.random.seed(seed)
    model = IntervalRegressor(Recorder(), alpha=0.5, n_estimators=300)
    try:
        model.fit(X, y)
    except Exception:  # noqa: BLE001  (reported by the other oracles)
        return []
    rep = sum(1 for e in model.estimators_ if len(set(int(v) for v in e.seen_X[:, 0])) < len(e.seen_X))
    if rep == 0:
        return [("without-replacement", "no bootstrap sample of 2 rows out of 4 ever repeats a row in 300 resamples: rows "
                 "are not drawn with replacement", {"samples_with_a_repeated_row": 0, "resamples": 300},
                 "about 75 of 300 samples repeat a row")]
    return []


def search(ctx, hints):
    ctx.shadow(need_cython=False)
    vs, evals, nontriv, samples = [], 0, set(), []
    rng = ctx.rng
    # (a) every row eligible: tiny training sets, many draws.  With T total draws the chance that a
    #     fixed row of n is never drawn is ((n-1)/n)^T <= (5/6)^400 < 1e-31: no false alarm.
    for n in range(1, 7):
        for weights in (False, True, "zeros", "frac_int_y"):
            alpha = 1.0
            ne = max(2, (400 + n - 1) // n)
            bad, drawn = _one_config(n, alpha, ne, weights, rng.randrange(1 << 30))
            evals += 1
            nontriv.add(("elig", n, weights))
            missing = sorted(set(range(n)) - drawn) if not any(b[0] == "fit-raises" for b in bad) else []
            if missing:
                bad.append(("row-never-drawn", "training rows never drawn in %d resamples of size %d" % (ne, n),
                            {"never_drawn": missing}, "every row of 0..%d eligible" % (n - 1)))
            for key, what, obs, req in bad:
                vs.append(Violation("IntervalRegressor.fit:" + key, what,
                                    {"n": n, "alpha": alpha, "n_estimators": ne, "weights": weights, "kind": "elig"},
                                    obs, req))
            if len(samples) < 2:
                samples.append({"n": n, "alpha": alpha, "n_estimators": ne, "rows_drawn": sorted(drawn)})
    for key, what, obs, req in _with_replacement_probe(rng.randrange(1 << 30)):
        vs.append(Violation("IntervalRegressor.fit:" + key, what,
                            {"n": 4, "alpha": 0.5, "n_estimators": 300, "weights": False, "kind": "replacement"}, obs, req))
    evals += 1
    # (b) general configurations
    for t in range(ctx.pick(60, 1500)):
        n = rng.randint(1, 40)
        # alpha as a float, and as a Python int (alpha=1, alpha=2: the same fractions of n written without a dot)
        alpha = rng.choice([0.25, 0.5, 0.75, 1.0, 1.0, 1.5, 2.0, 0.3, 0.9, 1, 2, 1])
        ne = rng.randint(1, 6)
        weights = rng.choice([False, True, "zeros", "frac_int_y"])
        n_jobs = rng.choice([None, None, 1, 2, 3])
        bad, _ = _one_config(n, alpha, ne, weights, rng.randrange(1 << 30), d=rng.choice([1, 2, 3]), n_jobs=n_jobs)
        evals += 1
        nontriv.add((n, alpha, type(alpha).__name__, ne, weights, n_jobs))
        for key, what, obs, req in bad:
            vs.append(Violation("IntervalRegressor.fit:" + key, what,
                                {"n": n, "alpha": alpha, "n_estimators": ne, "weights": weights, "kind": "general",
                                 "n_jobs": n_jobs}, obs, req))
    # dedupe by key, keep the smallest n
    best = {}
    for v in vs:
        if v.key not in best or v.input["n"] < best[v.key].input["n"]:
            best[v.key] = v
    return list(best.values()), {"evaluations": evals, "distinct_nontrivial": len(nontriv), "samples": samples}


def replay(ctx, item):
    ctx.shadow(need_cython=False)
    inp = item["input"]
    n, ne = inp["n"], inp["n_estimators"]
    out = []
    if inp.get("kind") == "replacement":
        return [Violation("IntervalRegressor.fit:" + k, w, inp, o, r) for k, w, o, r in _with_replacement_probe(1)]
    for s in range(5):
        bad, drawn = _one_config(n, inp["alpha"], ne, inp["weights"], s, n_jobs=inp.get("n_jobs"))
        if inp.get("kind") == "elig" and not any(b[0] == "fit-raises" for b in bad):
            missing = sorted(set(range(n)) - drawn)
            if missing:
                bad.append(("row-never-drawn", "training rows never drawn", {"never_drawn": missing}, "all rows eligible"))
        out += [Violation("IntervalRegressor.fit:" + k, w, inp, o, r) for k, w, o, r in bad]
    best = {}
    for v in out:
        best.setdefault(v.key, v)
    return list(best.values())
