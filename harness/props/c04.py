"""C04 — Predictions are a pure per-row function of the model and survive persistence."""
import ast
import os
import sys

from core import Corr, Violation, run_driver
from extract import pyexpr

sys.path.insert(0, os.path.dirname(os.path.abspath(__file__)))
import c08  # noqa: E402  (the piecewise dispatch model and its regenerated definitions are shared)

ID = "C04"
LEAN_TARGETS = ["MlVerif.Gen.C04", "MlVerif.Gen.C08", "MlVerif.Model.RowWise", "MlVerif.Model.Piecewise",
                "MlVerif.Lemmas.RowWise", "MlVerif.Lemmas.Piecewise2", "MlVerif.Properties.C04"]
PROPERTY_FILE = "MlVerif/Properties/C04.lean"
DRIVER = "Drivers/C04.lean"
TRUSTED = [
    "the wrapped scikit-learn predictors/transformers (LinearRegression, LogisticRegression, trees, KMeans.predict/"
    "transform, pairwise_distances_argmin_min, manhattan_distances, decision_path, KBinsDiscretizer.transform, "
    "numpy.hstack/argmax/dot) are row-wise: hypothesis of the theorems, validated by the differential run",
    "float = real: BLAS may round a batch product and a single-row product differently; float outputs are "
    "compared with relative tolerance 1e-9 (absolute 1e-9*(1+max|out|) near zero), discrete outputs exactly",
    "pickle, copy.deepcopy and sklearn.base.clone are structure-preserving copies (persistence theorems are thin: "
    "they say a structure-preserving copy of the fitted value tree gives the same outputs; the run-time mechanics "
    "are exercised, not proved)",
]
ASSUMPTIONS = [
    "balanced prediction of ConstraintKMeans (balanced_predictions=True) is excluded, as the statement says",
    "TransferTransformer is exercised on non-tree estimators (fit on fitted trees raises: candidate D23 of C15)",
    "estimators are used through their documented constructor values (criterion='mselin'/'simple' strings); "
    "an estimator holding a Cython criterion *instance* as hyper-parameter is probed separately (see search)",
]
RULE = ("menu of fitted estimators (PiecewiseRegressor/Classifier tree+bins, DecisionTreeLogisticRegression, "
        "PiecewiseTreeRegressor mselin/simple, KMeansL1L2 L1/L2, ConstraintKMeans plain, ClassifierAfterKMeans, "
        "TransferTransformer) x predict-like methods x random integer-grid batches incl. rows outside the training "
        "range; per batch: every single row, random sub-batches, permutations, repeated call, pickle round trip, "
        "clone_with_fitted_parameters. Model side: recorded node probabilities -> Lean DT.predict provenance, "
        "decision paths -> Lean predictLeaves, both compared exactly. Non-trivial = batch of >= 2 distinct rows")
LEVEL_TEXT = ("Lean 4 theorems for all batches: a batch method that is a scatter dispatch over row-wise functions, a "
              "recursive above/below mask split over row-wise node functions, a per-row lookup loop, an hstack of "
              "row-wise transforms or a composition of such equals map of a per-row function, hence batch = single "
              "rows, commutes with sub-batches/permutations/any index gather, including rows in buckets unseen at "
              "training time. Which shape each predict-like method has is regenerated from the source by an AST "
              "classifier. Persistence is modelled as a structure-preserving copy of a value tree (thin).")
LEVEL_NOTE = "partial: wrapped scikit-learn predictors are assumed row-wise; pickle/deepcopy mechanics exercised, not proved"
TECHNIQUE = ("Lean 4 proof (induction over batches / node trees, scatter lemma) + AST-regenerated dispatch-shape table "
             "+ differential correspondence and batch-vs-rows search on the real code")

MENU = [
    ("mlinsights/mlmodel/piecewise_estimator.py", "PiecewiseEstimator", ["transform_bins", "_apply_predict_method"]),
    ("mlinsights/mlmodel/piecewise_estimator.py", "PiecewiseRegressor", ["predict"]),
    ("mlinsights/mlmodel/piecewise_estimator.py", "PiecewiseClassifier", ["predict", "predict_proba", "decision_function"]),
    ("mlinsights/mlmodel/decision_tree_logreg.py", "_DecisionTreeLogisticRegressionNode", ["predict", "predict_proba"]),
    ("mlinsights/mlmodel/decision_tree_logreg.py", "DecisionTreeLogisticRegression", ["predict", "predict_proba"]),
    ("mlinsights/mlmodel/piecewise_tree_regression.py", "PiecewiseTreeRegressor", ["predict", "predict_leaves", "_predict_reglin"]),
    ("mlinsights/mlmodel/kmeans_l1.py", "KMeansL1L2", ["predict", "transform", "_predict_l1", "_transform_l1"]),
    ("mlinsights/mlmodel/kmeans_constraint.py", "ConstraintKMeans", ["predict"]),
    ("mlinsights/mlmodel/classification_kmeans.py", "ClassifierAfterKMeans",
     ["transform_features", "predict", "predict_proba", "decision_function"]),
    ("mlinsights/mlmodel/transfer_transformer.py", "TransferTransformer", ["transform"]),
]
FIT_CLASSES = [
    ("mlinsights/mlmodel/piecewise_estimator.py", "PiecewiseEstimator"),
    ("mlinsights/mlmodel/decision_tree_logreg.py", "DecisionTreeLogisticRegression"),
    ("mlinsights/mlmodel/piecewise_tree_regression.py", "PiecewiseTreeRegressor"),
    ("mlinsights/mlmodel/kmeans_l1.py", "KMeansL1L2"),
    ("mlinsights/mlmodel/kmeans_constraint.py", "ConstraintKMeans"),
    ("mlinsights/mlmodel/classification_kmeans.py", "ClassifierAfterKMeans"),
    ("mlinsights/mlmodel/transfer_transformer.py", "TransferTransformer"),
]


# ------------------------------------------------------------------------------ extractor

def _q(s):
    return '"' + s.replace("\\", "/").replace('"', "'") + '"'


def _stores(node):
    """Subscript assignment targets `buf[idx] = ...` inside node: list of (buf, idx source, value node)."""
    out = []
    for n in ast.walk(node):
        if isinstance(n, ast.Assign):
            for t in n.targets:
                if isinstance(t, ast.Subscript) and isinstance(t.value, ast.Name):
                    out.append((t.value.id, t.slice, n.value))
    return out


def classify(fn):
    """Dispatch shapes of one predict-like method: subset of
    {scatter, recursion, rowloop, hstack, delegate, unknown}."""
    shapes = set()
    loops = [n for n in ast.walk(fn) if isinstance(n, (ast.For, ast.While))]
    task_gens = set()
    for n in ast.walk(fn):          # the task list handed to joblib: Parallel(...)(delayed(f)(...) for ... in ...)
        if isinstance(n, ast.Call) and isinstance(n.func, ast.Call) and ast.unparse(n.func.func) == "Parallel" \
                and len(n.args) == 1 and isinstance(n.args[0], ast.GeneratorExp):
            task_gens.add(id(n.args[0]))
    comps = [n for n in ast.walk(fn) if isinstance(n, (ast.ListComp, ast.SetComp, ast.DictComp, ast.GeneratorExp))
             and id(n) not in task_gens]
    recursive = any(isinstance(n, ast.Call) and isinstance(n.func, ast.Attribute) and n.func.attr == fn.name
                    and ast.unparse(n.func.value).startswith("self.") for n in ast.walk(fn))
    in_loop = set()
    for lp in loops:
        if isinstance(lp, ast.While):
            shapes.add("unknown")
            continue
        for n in ast.walk(lp):
            in_loop.add(id(n))
        tgt = lp.target
        loopvars = {n.id for n in ast.walk(tgt) if isinstance(n, ast.Name)}
        it = ast.unparse(lp.iter)
        idxvar = None
        if it.startswith("range(") and "shape[0]" in it and isinstance(tgt, ast.Name):
            idxvar = tgt.id
        elif it.startswith("enumerate(") and isinstance(tgt, ast.Tuple) and isinstance(tgt.elts[0], ast.Name):
            idxvar = tgt.elts[0].id
        st = _stores(lp)
        kinds = set()
        for buf, sl, val in st:
            first = sl.elts[0] if isinstance(sl, ast.Tuple) else sl
            if isinstance(first, ast.Name) and first.id == idxvar:
                kinds.add("rowloop")
            elif isinstance(first, ast.Name) and (first.id in loopvars or
                                                  any(isinstance(a, ast.Assign) and ast.unparse(a.targets[0]) == first.id
                                                      for a in ast.walk(lp))):
                # mask comes with / is computed for the loop item; the value written must be the item's own
                # result (a name) or a per-bucket constant looked up in a dict, nothing computed from the batch
                plain = isinstance(val, ast.Name) or (isinstance(val, ast.Call) and isinstance(val.func, ast.Attribute)
                                                      and val.func.attr == "get")
                kinds.add("scatter" if plain else "unknown")
            else:
                kinds.add("unknown")
        appends = [n for n in ast.walk(lp) if isinstance(n, ast.Call) and isinstance(n.func, ast.Attribute)
                   and n.func.attr == "append"]
        if not st and appends:
            returns = [n for n in ast.walk(fn) if isinstance(n, ast.Return) and n.value is not None]
            if returns and all(ast.unparse(r.value).startswith("numpy.hstack(") for r in returns):
                kinds.add("hstack")
            else:
                kinds.add("unknown")
        if not kinds:
            kinds.add("unknown")
        shapes |= kinds
    for n in ast.walk(fn):
        if isinstance(n, ast.Assign) and id(n) not in in_loop:
            for t in n.targets:
                if isinstance(t, ast.Subscript) and isinstance(t.value, ast.Name):
                    if isinstance(t.slice, ast.Name):
                        shapes.add("recursion" if recursive else "scatter")
                    elif ast.unparse(t) in ("association[:]", "indall[:]"):
                        pass                    # whole-buffer initialisation
                    else:
                        shapes.add("unknown")
    if comps:
        shapes.add("unknown")
    if not shapes:
        shapes.add("delegate")
    return sorted(shapes)


def self_writes(fn):
    out = []
    for n in ast.walk(fn):
        targets = []
        if isinstance(n, ast.Assign):
            targets = n.targets
        elif isinstance(n, (ast.AugAssign, ast.AnnAssign)):
            targets = [n.target]
        for t in targets:
            for x in ast.walk(t):
                if isinstance(x, ast.Attribute) and isinstance(x.value, ast.Name) and x.value.id == "self":
                    out.append(x.attr)
        if isinstance(n, ast.Call) and ast.unparse(n.func) == "setattr" and n.args and ast.unparse(n.args[0]) == "self":
            out.append("setattr:" + ast.unparse(n.args[1]))
    return out


def _namecond(node):
    if isinstance(node, ast.BoolOp):
        op = ".and" if isinstance(node.op, ast.And) else ".or"
        parts = [_namecond(v) for v in node.values]
        acc = parts[-1]
        for p in reversed(parts[:-1]):
            acc = "(%s %s %s)" % (op, p, acc)
        return acc
    if isinstance(node, ast.UnaryOp) and isinstance(node.op, ast.Not):
        return "(.not %s)" % _namecond(node.operand)
    if isinstance(node, ast.Call) and isinstance(node.func, ast.Attribute) and ast.unparse(node.func.value) == "k" \
            and len(node.args) == 1 and isinstance(node.args[0], ast.Constant) and isinstance(node.args[0].value, str):
        if node.func.attr == "endswith":
            return "(.endsWith %s)" % _q(node.args[0].value)
        if node.func.attr == "startswith":
            return "(.startsWith %s)" % _q(node.args[0].value)
    return "(.unknown %s)" % _q(ast.unparse(node))


def extract(ctx):
    files = dict(c08.extract(ctx))
    rows, writes = [], []
    trees = {}
    for path, cls, meths in MENU:
        tree = trees.setdefault(path, ast.parse(ctx.source(path)))
        try:
            c = pyexpr.find_function(tree, cls)
        except pyexpr.Unknown:
            for m in meths:
                rows.append((cls, m, ["unknown"]))
            continue
        for m in meths:
            fn = next((n for n in c.body if isinstance(n, ast.FunctionDef) and n.name == m), None)
            if fn is None:
                rows.append((cls, m, ["unknown"]))
                continue
            rows.append((cls, m, classify(fn)))
            for a in self_writes(fn):
                writes.append((cls, m, a))
    fitted = []
    for path, cls in FIT_CLASSES:
        tree = trees.setdefault(path, ast.parse(ctx.source(path)))
        c = pyexpr.find_function(tree, cls)
        attrs = []
        for fn in c.body:
            if isinstance(fn, ast.FunctionDef) and (fn.name == "fit" or fn.name.startswith("_fit") or
                                                    fn.name == "constraint_kmeans"):
                for a in self_writes(fn):
                    if a.endswith("_") and a not in attrs:
                        attrs.append(a)
        fitted.append((cls, attrs))
    # clone_with_fitted_parameters
    st = ast.parse(ctx.source("mlinsights/mlmodel/sklearn_testing.py"))
    cw = pyexpr.find_function(st, "clone_with_fitted_parameters")
    adjust = pyexpr.find_function(cw, "adjust")
    cond, present, top = '(.unknown "not found")', [], []
    for n in ast.walk(adjust):
        if isinstance(n, ast.For) and ast.unparse(n.iter) == "obj1.__dict__":
            outer = n.body[0] if n.body and isinstance(n.body[0], ast.If) else None
            if outer is not None and ast.unparse(outer.test) == "hasattr(obj2, k)":
                inner = [s for s in outer.body if isinstance(s, ast.If)]
                node = inner[0] if inner else None
                while node is not None:
                    act = "raise" if any(isinstance(x, ast.Raise) for x in node.body) else \
                        ";".join(ast.unparse(x) for x in node.body if not (isinstance(x, ast.Assign) and
                                                                           ast.unparse(x.targets[0]) == "v1"))
                    present.append("%s -> %s" % (ast.unparse(node.test), act))
                    if len(node.orelse) == 1 and isinstance(node.orelse[0], ast.If):
                        node = node.orelse[0]
                    else:
                        present.append("else -> " + ";".join(ast.unparse(x) for x in node.orelse))
                        node = None
                if len(outer.orelse) == 1 and isinstance(outer.orelse[0], ast.If):
                    e = outer.orelse[0]
                    copies = any("clone_with_fitted_parameters(v1)" in ast.unparse(x) and "setattr(obj2, k" in ast.unparse(x)
                                 for x in e.body)
                    raises = any(isinstance(x, ast.Raise) for x in e.orelse)
                    if copies and raises:
                        cond = _namecond(e.test)
    node = next((s for s in cw.body if isinstance(s, ast.If)), None)
    while node is not None:
        top.append("%s -> %s" % (ast.unparse(node.test), ";".join(ast.unparse(x) for x in node.body)))
        if len(node.orelse) == 1 and isinstance(node.orelse[0], ast.If):
            node = node.orelse[0]
        else:
            top.append("else -> " + ";".join(ast.unparse(x) for x in node.orelse))
            node = None
    # cython criteria: which special methods the common base class defines
    pyx = ctx.source("mlinsights/mlmodel/_piecewise_tree_regression_common.pyx")
    import re
    crit = sorted(set(re.findall(r"^\s+def (__getstate__|__setstate__|__reduce__|__deepcopy__)\(", pyx, flags=re.M)))
    gs = re.search(r"def __getstate__\(self\):\s*\n\s*return (.*)", pyx)
    lin = ctx.source("mlinsights/mlmodel/piecewise_tree_regression_criterion_linear.pyx")
    crit_lin = sorted(set(re.findall(r"^\s+def (__getstate__|__setstate__|__reduce__|__deepcopy__)\(", lin, flags=re.M)))

    def deepcopy_body(src):
        """the statements of `__deepcopy__` (docstring and blank lines dropped), normalised"""
        m = re.search(r"def __deepcopy__\(self, memo=None\):\n((?:[ ]{8}.*\n|\s*\n)+)", src)
        if not m:
            return "?"
        body = re.sub(r'"""[\s\S]*?"""', "", m.group(1))
        return ";".join(x.strip() for x in body.split("\n") if x.strip())
    dc = deepcopy_body(pyx)
    dc_lin = deepcopy_body(lin)
    body = pyexpr.HEADER + """import MlVerif.Gen.Base
namespace MlVerif.Gen.C04
open MlVerif.Gen

inductive Shape where
  | scatter | recursion | rowloop | hstack | delegate | unknown
deriving DecidableEq, Repr

inductive NameCond where
  | endsWith (s : String) | startsWith (s : String) | not (c : NameCond) | and (a b : NameCond) | or (a b : NameCond)
  | unknown (src : String)
deriving DecidableEq, Repr

def NameCond.eval : NameCond → String → Bool
  | .endsWith s, k => k.endsWith s
  | .startsWith s, k => k.startsWith s
  | .not c, k => !(c.eval k)
  | .and a b, k => a.eval k && b.eval k
  | .or a b, k => a.eval k || b.eval k
  | .unknown _, _ => false

/-- dispatch shapes of every predict-like method (class, method, shapes found by the AST classifier) -/
def shapes : List (String × String × List Shape) := [
%(rows)s]
/-- attributes assigned on `self` by those methods -/
def predictWrites : List (String × String × String) := [%(writes)s]
/-- fitted attributes assigned by `fit` and its helpers, per class -/
def fittedAttrs : List (String × List String) := [
%(fitted)s]
/-- `clone_with_fitted_parameters.adjust`: an attribute of the original that the clone lacks is re-created
(`setattr(obj2, k, clone_with_fitted_parameters(v1))`) iff its name satisfies this, otherwise RuntimeError -/
def cloneCopyCond : NameCond := %(cond)s
/-- ... and for an attribute the clone already has -/
def clonePresentBranches : List String := [%(present)s]
/-- top-level case split of `clone_with_fitted_parameters` -/
def cloneTopCases : List String := [%(top)s]
/-- special methods of `CommonRegressorCriterion` and what `__getstate__` returns -/
def criterionSpecial : List String := [%(crit)s]
/-- ... and of `LinearRegressorCriterion`, whose constructor takes the features instead of `n_samples` -/
def criterionLinearSpecial : List String := [%(crit_lin)s]
def criterionState : String := %(gs)s
/-- body of `__deepcopy__` of the common criterion / of the linear criterion: scikit-learn's tree builder works on a
deep copy of a criterion instance, which must be a NEW object -/
def criterionDeepcopy : String := %(dc)s
def criterionLinearDeepcopy : String := %(dc_lin)s

end MlVerif.Gen.C04
""" % dict(
        rows=",\n".join("  (%s, %s, [%s])" % (_q(c), _q(m), ", ".join("." + s for s in sh)) for c, m, sh in rows),
        writes=", ".join("(%s, %s, %s)" % (_q(c), _q(m), _q(a)) for c, m, a in writes),
        fitted=",\n".join("  (%s, [%s])" % (_q(c), ", ".join(_q(a) for a in attrs)) for c, attrs in fitted),
        cond=cond, present=", ".join(_q(p) for p in present), top=", ".join(_q(p) for p in top),
        crit=", ".join(_q(x) for x in crit), crit_lin=", ".join(_q(x) for x in crit_lin), gs=_q(gs.group(1).strip() if gs else "?"), dc=_q(dc), dc_lin=_q(dc_lin))
    files["MlVerif/Gen/C04.lean"] = body
    return files


# ------------------------------------------------------------------------------ the menu (real code)

def _data(rng, n=None, d=None):
    import numpy
    n = n or rng.randint(30, 70)
    d = d or rng.choice([2, 3])
    X = numpy.array([[rng.randint(0, 9) for _ in range(d)] for _ in range(n)], dtype=float)
    yr = X[:, 0] * 2 - X[:, 1] + numpy.array([rng.randint(0, 3) for _ in range(n)])
    yc = ((X[:, 0] + X[:, 1] + numpy.array([rng.randint(0, 2) for _ in range(n)])) > 9).astype(int)
    if len(set(yc)) < 2:
        yc[0], yc[1] = 0, 1
    return X, yr, yc


def _batch(rng, d, m=None):
    """Distinct rows on an integer grid that extends beyond the training range (unseen cells/leaves)."""
    import numpy
    m = m or rng.randint(2, 14)
    rows = set()
    while len(rows) < m:
        rows.add(tuple(rng.randint(-2, 12) for _ in range(d)))
    rows = list(rows)
    rng.shuffle(rows)
    return numpy.array(rows, dtype=float)


def menu_names():
    return ["PR_tree_lin", "PR_bins_lin", "PR_tree_dummy", "PC_tree_logreg", "PC_bins_tree", "DTLR", "DTLR_deep",
            "PTR_mselin", "PTR_simple", "KM_L1", "KM_L2", "CKM_plain", "CKM_weights", "CAK", "CAK_labels", "TT_logreg",
            "TT_scaler", "TT_kmeans", "TT_pca"]


def build(ctx, name, rng):
    """Fit one estimator of the menu.  Returns (model, [methods], d)."""
    import warnings
    ctx.shadow(need_cython=True)
    from sklearn.linear_model import LinearRegression, LogisticRegression
    from sklearn.dummy import DummyRegressor
    from sklearn.tree import DecisionTreeRegressor, DecisionTreeClassifier
    from sklearn.preprocessing import StandardScaler, KBinsDiscretizer
    from sklearn.decomposition import PCA
    from sklearn.cluster import KMeans
    from mlinsights.mlmodel.piecewise_estimator import PiecewiseRegressor, PiecewiseClassifier
    from mlinsights.mlmodel.piecewise_tree_regression import PiecewiseTreeRegressor
    from mlinsights.mlmodel.decision_tree_logreg import DecisionTreeLogisticRegression
    from mlinsights.mlmodel.kmeans_l1 import KMeansL1L2
    from mlinsights.mlmodel.kmeans_constraint import ConstraintKMeans
    from mlinsights.mlmodel.classification_kmeans import ClassifierAfterKMeans
    from mlinsights.mlmodel.transfer_transformer import TransferTransformer
    X, yr, yc = _data(rng)
    d = X.shape[1]
    seed = rng.randrange(1000)
    nj = rng.choice([None, 1, 4])
    P3 = ["predict", "predict_proba", "decision_function"]
    with warnings.catch_warnings():
        warnings.simplefilter("ignore")
        if name == "PR_tree_lin":
            return PiecewiseRegressor(DecisionTreeRegressor(max_depth=rng.randint(1, 4), random_state=seed),
                                      LinearRegression(), n_jobs=nj).fit(X, yr), ["predict", "transform_bins"], d
        if name == "PR_bins_lin":
            return PiecewiseRegressor(KBinsDiscretizer(n_bins=rng.choice([2, 3])), LinearRegression(),
                                      n_jobs=nj).fit(X, yr), ["predict", "transform_bins"], d
        if name == "PR_tree_dummy":
            return PiecewiseRegressor("tree", DummyRegressor(), n_jobs=nj).fit(X, yr), ["predict"], d
        if name == "PC_tree_logreg":
            return PiecewiseClassifier(DecisionTreeClassifier(max_depth=rng.randint(1, 3), random_state=seed),
                                       LogisticRegression(max_iter=40), random_state=seed, n_jobs=nj).fit(X, yc), P3, d
        if name == "PC_bins_tree":
            return PiecewiseClassifier(KBinsDiscretizer(n_bins=2), DecisionTreeClassifier(max_depth=2, random_state=seed),
                                       random_state=seed, n_jobs=nj).fit(X, yc), ["predict", "predict_proba"], d
        if name == "DTLR":
            return DecisionTreeLogisticRegression(max_depth=rng.randint(2, 3)).fit(X, yc), ["predict", "predict_proba"], d
        if name == "DTLR_deep":
            return DecisionTreeLogisticRegression(max_depth=5, min_samples_leaf=1, fit_improve_algo="none").fit(X, yc), \
                ["predict", "predict_proba"], d
        if name == "PTR_mselin":
            m = PiecewiseTreeRegressor(max_depth=rng.randint(1, 3), min_samples_leaf=4)
            if rng.random() < 0.5:
                m.set_params(criterion="simple").set_params(criterion="mselin")
            return m.fit(X, yr), ["predict", "predict_leaves"], d
        if name == "PTR_simple":
            m = PiecewiseTreeRegressor(criterion="mselin" if rng.random() < 0.5 else "simple", max_depth=rng.randint(1, 3))
            return m.set_params(criterion="simple").fit(X, yr), ["predict"], d
        # half of the time the option that selects the code path is given through set_params on an instance built with
        # ANOTHER value (what a parameter search does): the fitted model and its copies must not depend on the route
        via = rng.random() < 0.5
        if name == "KM_L1":
            m = KMeansL1L2(rng.choice([2, 3]), norm="L2" if via else "L1", n_init=1, max_iter=6, random_state=seed)
            return m.set_params(norm="L1").fit(X[:30]), ["predict", "transform"], d
        if name == "KM_L2":
            m = KMeansL1L2(rng.choice([2, 3]), norm="L1" if via else "L2", n_init=1, max_iter=10, random_state=seed)
            return m.set_params(norm="L2").fit(X), ["predict", "transform"], d
        if name == "CKM_plain":
            return ConstraintKMeans(rng.choice([2, 3]), max_iter=10, random_state=seed, n_init=1).fit(X[:30]), \
                ["predict", "transform"], d
        if name == "CKM_weights":
            m = ConstraintKMeans(rng.choice([2, 3]), max_iter=10, random_state=seed, n_init=1,
                                 strategy="gain" if rng.random() < 0.5 else "weights")
            return m.set_params(strategy="weights").fit(X[:30]), ["predict", "transform"], d
        if name == "CAK":
            return ClassifierAfterKMeans(c_n_init=1, c_random_state=seed, e_max_iter=40).fit(X, yc), \
                P3 + ["transform_features"], d
        if name == "CAK_labels":
            # label values whose set-iteration order is not their sorted order (dict-valued fitted attributes are
            # then filled in non-sorted key order): {-1, 1} iterates 1, -1 and {3, 9, 12} iterates 9, 3, 12
            import numpy
            three = rng.random() < 0.5
            if three:
                y3 = numpy.where(X[:, 0] > 5, 12, numpy.where(X[:, 1] > 4, 9, 3))
                y3[:3] = [3, 9, 12]
            else:
                y3 = numpy.where(yc > 0, 1, -1)
            return ClassifierAfterKMeans(c_n_init=1, c_random_state=seed, e_max_iter=60).fit(X, y3), \
                P3 + ["transform_features"], d
        if name == "TT_logreg":
            return TransferTransformer(LogisticRegression(max_iter=40).fit(X, yc)).fit(), ["transform"], d
        if name == "TT_scaler":
            return TransferTransformer(StandardScaler().fit(X)).fit(), ["transform"], d
        if name == "TT_kmeans":
            return TransferTransformer(KMeans(3, n_init=1, random_state=seed).fit(X)).fit(), ["transform"], d
        if name == "TT_pca":
            return TransferTransformer(PCA(2).fit(X)).fit(), ["transform"], d
    raise ValueError(name)


def same(a, b, exact):
    import numpy
    a, b = numpy.asarray(a), numpy.asarray(b)
    if a.shape != b.shape:
        return False
    if exact or a.dtype.kind not in "fc":
        return bool(numpy.array_equal(a, b))
    tol = 1e-9 * (1.0 + float(numpy.max(numpy.abs(a))) if a.size else 1.0)
    return bool(numpy.allclose(a, b, rtol=1e-9, atol=tol))


# ------------------------------------------------------------------------------ correspondence (model side)

def _dtlr_nodes(model):
    out, todo = [], [model.tree_]
    while todo:
        n = todo.pop()
        out.append(n)
        for c in (n.above, n.below):
            if c is not None:
                todo.append(c)
    return sorted(out, key=lambda n: n.index)


def correspond(ctx):
    import warnings
    from fractions import Fraction
    import numpy
    ctx.shadow(need_cython=True)
    corr = Corr()
    corr.rule = RULE
    rng = ctx.rng
    lines, post = [], []
    # (a) recursive mask split: recorded node probabilities -> provenance computed by the Lean model
    for t in range(ctx.pick(14, 160)):
        name = "DTLR" if t % 2 == 0 else "DTLR_deep"
        with warnings.catch_warnings():
            warnings.simplefilter("ignore")
            model, _, d = build(ctx, name, rng)
            B = _batch(rng, d)
            nodes = _dtlr_nodes(model)
            key = {tuple(r): i for i, r in enumerate(B)}
            num = {id(n): k for k, n in enumerate(nodes)}      # own numbering (the library's indices may have gaps)
            rec = {k: [None] * len(B) for k in range(len(nodes))}
            saved = []
            for n in nodes:
                orig = n.estimator.predict_proba

                def wrap(Xs, _o=orig, _i=num[id(n)]):
                    p = _o(Xs)
                    for row, pr in zip(Xs, p):
                        rec[_i][key[tuple(row)]] = pr.copy()
                    return p
                n.estimator.predict_proba = wrap
                saved.append(n)
            try:
                out = model.predict_proba(B)
            finally:
                for n in saved:
                    del n.estimator.predict_proba
        if num[id(model.tree_)] != 0:
            corr.disagree("dt-root", name, "root first", "root is node %d" % num[id(model.tree_)])
            continue
        nl = ",".join("%d:%d:%d" % (num[id(n)], num[id(n.above)] if n.above is not None else -1,
                                    num[id(n.below)] if n.below is not None else -1) for n in nodes)
        thr = ",".join(str(Fraction(float(n.threshold))) for n in nodes)
        tab = ";".join(",".join("x" if v is None else str(Fraction(float(v[1]))) for v in rec[num[id(n)]]) for n in nodes)
        lines.append("dt %s %s %s %d" % (nl, thr, tab, len(B)))
        post.append(("dt", name, (rec, out)))
        depth = model.tree_depth_
        corr.hit("dtlr_depth=%d" % depth)
        corr.hit("dtlr_nodes=%s" % (len(nodes) if len(nodes) < 6 else "6+"))
        corr.case(("dt", nl, tuple(map(tuple, B))), nontrivial=len(nodes) >= 2 and len(B) >= 2,
                  sample={"op": "dt", "nodes": nl, "batch_rows": len(B)} if t < 2 else None)
    # (b) leaf lookup: decision paths -> predictLeaves by the Lean model; values = dot(row, betas[leaf])
    for t in range(ctx.pick(14, 160)):
        with warnings.catch_warnings():
            warnings.simplefilter("ignore")
            model, _, d = build(ctx, "PTR_mselin", rng)
            B = _batch(rng, d)
            dp = numpy.asarray(model.decision_path(B).todense())
            lv = model.predict_leaves(B)
            pred = model.predict(B)
        paths = ";".join(",".join(str(j) for j in range(dp.shape[1]) if dp[r, j]) for r in range(len(B)))
        lines.append("pleaves %s %s" % (",".join(map(str, model.leaves_index_)), paths))
        post.append(("pleaves", "PTR_mselin", (lv, pred, B, model.betas_)))
        corr.hit("ptr_leaves=%d" % len(model.leaves_index_))
        corr.case(("pleaves", paths), nontrivial=len(model.leaves_index_) >= 2 and len(B) >= 2,
                  sample={"op": "pleaves", "leaves_index": list(map(int, model.leaves_index_)), "batch_rows": len(B)}
                  if t < 2 else None)
    # (c) the gather operator of the theorems vs numpy fancy indexing
    for t in range(ctx.pick(20, 200)):
        n = rng.randint(1, 12)
        xs = [rng.randint(-50, 50) for _ in range(n)]
        idx = [rng.randrange(n) for _ in range(rng.randint(0, 15))]
        lines.append("gather %s %s" % (c08.fl(xs), c08.fl(idx)))
        post.append(("gather", None, c08.fl(numpy.array(xs)[idx]) if idx else "-"))
        corr.case(("gather", tuple(xs), tuple(idx)), nontrivial=len(idx) >= 2)
    out_lines = run_driver(DRIVER, lines)
    for (op, name, data), got in zip(post, out_lines):
        if op == "dt":
            rec, out = data
            prov = [int(v) for v in got.split(",")] if got not in ("-", "bad-op") else []
            ok = len(prov) == len(out) and all(
                p in rec and rec[p][r] is not None and numpy.array_equal(rec[p][r], out[r]) for r, p in enumerate(prov))
            if not ok:
                corr.disagree(op, name, got, "output rows are not the recorded rows of these nodes")
            else:
                corr.hit("dt_rows_ending_below_root", sum(1 for p in prov if p != 0))
        elif op == "pleaves":
            lv, pred, B, betas = data
            if got != c08.fl(lv):
                corr.disagree(op, name, got, c08.fl(lv))
            else:
                Xone = numpy.hstack([B, numpy.ones((B.shape[0], 1))])
                want = numpy.array([numpy.dot(Xone[i, :], betas[int(li), :]) for i, li in enumerate(lv)])
                if not numpy.array_equal(want, pred):
                    corr.disagree("reglin-values", name, want.tolist(), pred.tolist())
        elif got != data:
            corr.disagree(op, name, got, data)
    return corr


# ------------------------------------------------------------------------------ search (oracle from the statement)

def check_estimator(ctx, name, gen_seed, n_batches=2):
    """Batch vs single rows / sub-batches / permutations / repeated calls / pickle / clone_with_fitted_parameters."""
    import pickle
    import random
    import warnings
    import numpy
    from mlinsights.mlmodel.sklearn_testing import clone_with_fitted_parameters
    rng = random.Random(gen_seed)
    bad = []
    info = {"estimator": name}
    with warnings.catch_warnings():
        warnings.simplefilter("ignore")
        try:
            model, meths, d = build(ctx, name, rng)
        except Exception as e:
            return [("%s.fit:raises" % name, "fit raises on a valid training set",
                     "%s: %s" % (type(e).__name__, str(e)[:150]), "a fitted model")], info
        meths = list(meths) + [m for m in _row_methods(model, d) if m not in meths]
        # route "used, then fitted again": the object served predictions for an earlier training set before the fit whose
        # model is examined - the batch outputs and the copies below describe the LAST fit only
        target = {"PR": "yr", "PC": "yc", "DT": "yc", "PT": "yr", "KM": None, "CK": None}.get(name[:2], "skip")
        if name == "CAK":
            target = "yc"
        info["refitted"] = False
        if target != "skip" and rng.random() < 0.5:
            try:
                B0 = _batch(rng, d)
                for meth in meths:
                    _rowfn(model, meth)(B0)
                X2, yr2, yc2 = _data(rng, d=d)
                if target is None:
                    model.fit(X2[:30])
                else:
                    model.fit(X2, yr2 if target == "yr" else yc2)
                info["refitted"] = True
            except Exception as e:  # noqa: BLE001
                return [("%s.fit:raises" % name, "a second fit of a used model raises on a valid training set",
                         "%s: %s" % (type(e).__name__, str(e)[:150]), "a fitted model")], info
        cls = type(model).__name__
        copies = {}
        for how, fn in (("pickle", lambda m: pickle.loads(pickle.dumps(m))),
                        ("clone_with_fitted_parameters", clone_with_fitted_parameters)):
            try:
                copies[how] = fn(model)
            except Exception as e:
                bad.append(("%s:%s-raises" % (cls, how), "%s of the fitted model raises" % how,
                            "%s: %s" % (type(e).__name__, str(e)[:150]), "a model with identical outputs"))
        unseen = 0
        if "transform_bins" in meths:
            # rows falling in buckets unseen at training time: alone, in pairs, and mixed with seen rows
            G = _batch(rng, d, 40)
            ids = numpy.asarray(model.transform_bins(G))
            ub = [i for i in range(G.shape[0]) if ids[i] < 0]
            sb = [i for i in range(G.shape[0]) if ids[i] >= 0]
            for meth in [m for m in meths if m != "transform_bins"]:
                f = _rowfn(model, meth)
                fullG = numpy.asarray(f(G))
                for i in ub[:4]:
                    for rows_ in ([i], [i] + sb[:3], sb[:2] + [i] + sb[2:4]):
                        out = numpy.asarray(f(G[rows_]))
                        if not same(fullG[rows_], out, False):
                            bad.append(("%s.%s:unseen-bucket-row" % (cls, meth),
                                        "a row of a bucket unseen at training time gets another output when it is the only "
                                        "such row of the batch", out.tolist()[:4], fullG[rows_].tolist()[:4]))
                            break
        for b in range(n_batches):
            B = _drop_ties(model, _batch(rng, d))
            if B.shape[0] == 0:
                continue
            for meth in meths:
                f = _rowfn(model, meth)
                full = numpy.asarray(f(B))
                site = "%s.%s" % (cls, meth)

                def report(kind, what, obs, req):
                    bad.append(("%s:%s" % (site, kind), what, obs, req))
                if full.shape[0] != B.shape[0]:
                    report("shape", "number of output rows", list(full.shape), B.shape[0])
                    continue
                if meth == "transform_bins":
                    unseen += int((full < 0).sum())
                rep = numpy.asarray(f(B))
                if not same(full, rep, True):
                    report("repeated-call", "two calls on the same batch differ", rep.tolist()[:5], full.tolist()[:5])
                for i in range(B.shape[0]):
                    one = numpy.asarray(f(B[i:i + 1]))
                    if one.shape[0] != 1 or not same(full[i:i + 1], one, False):
                        report("single-row", "output of row %d alone differs from its output inside the batch" % i,
                               one.tolist(), full[i:i + 1].tolist())
                        break
                for _ in range(3):
                    mask = numpy.array([rng.random() < 0.5 for _ in range(B.shape[0])])
                    if not mask.any():
                        mask[rng.randrange(B.shape[0])] = True
                    sub = numpy.asarray(f(B[mask]))
                    if not same(full[mask], sub, False):
                        report("sub-batch", "output on a sub-batch differs from the batch outputs of the same rows",
                               sub.tolist()[:5], full[mask].tolist()[:5])
                        break
                perm = list(range(B.shape[0]))
                rng.shuffle(perm)
                pp = numpy.asarray(f(B[perm]))
                if not same(full[perm], pp, False):
                    report("permutation", "output on a permuted batch is not the permuted output",
                           pp.tolist()[:5], full[perm].tolist()[:5])
                for how, m2 in copies.items():
                    try:
                        o2 = numpy.asarray(_rowfn(m2, meth)(B))
                    except Exception as e:
                        report(how, "%s copy cannot predict" % how, "%s: %s" % (type(e).__name__, str(e)[:120]),
                               "identical outputs")
                        continue
                    if not same(full, o2, True):
                        report(how, "outputs after %s differ" % how, o2.tolist()[:5], full.tolist()[:5])
        # tall batches ("all batches"): row counts around the block sizes a vectorised implementation would use;
        # the batch output must be the concatenation of the outputs of its chunks, and boundary rows alone agree
        talls = [TALL_ROWS[(gen_seed + i) % len(TALL_ROWS)] for i in range(3 if ctx.thorough else 1)]
        for m_tall in talls:
            T = numpy.array([[rng.randint(-2, 12) for _ in range(d)] for _ in range(m_tall)], dtype=float)
            T0 = _drop_ties(model, T)
            if T0.shape[0] != T.shape[0] and T0.shape[0] > 0:       # keep the row count: repeat rows that have a route
                T = T0[numpy.arange(m_tall) % T0.shape[0]]
            for meth in meths:
                f = _rowfn(model, meth)
                try:
                    full = numpy.asarray(f(T))
                    parts = [numpy.asarray(f(T[i:i + 97])) for i in range(0, m_tall, 97)]
                    chunked = numpy.concatenate(parts, axis=0)
                except Exception as e:  # noqa: BLE001
                    bad.append(("%s.%s:tall-batch-raises" % (cls, meth), "a batch of %d rows raises" % m_tall,
                                "%s: %s" % (type(e).__name__, str(e)[:120]), "one output row per input row"))
                    continue
                if full.shape[0] != m_tall or not same(full, chunked, False):
                    r = 0
                    if full.shape == chunked.shape:
                        neq = [i for i in range(m_tall) if not same(full[i:i + 1], chunked[i:i + 1], False)]
                        r = neq[0] if neq else 0
                    bad.append(("%s.%s:tall-batch" % (cls, meth), "output on a batch of %d rows is not the concatenation of "
                                "the outputs of its chunks (first at row %d)" % (m_tall, r),
                                full[r:r + 3].tolist() if full.shape[0] > r else list(full.shape), chunked[r:r + 3].tolist()))
        # a fitted model is not changed by using it: outputs before and after calling EVERY other public method
        # (score included) on the same batch are identical
        B = _batch(rng, d)
        yB = numpy.zeros(B.shape[0], dtype=int)
        try:
            first = {meth: numpy.asarray(_rowfn(model, meth)(B)).copy() for meth in meths}
            called = _call_everything(model, B, yB, skip=())
            for meth in meths:
                again = numpy.asarray(_rowfn(model, meth)(B))
                if not same(first[meth], again, True):
                    bad.append(("%s.%s:changes-after-other-calls" % (cls, meth),
                                "the output on a batch changes after other public methods (%s) were called on the fitted "
                                "model" % ", ".join(called)[:120], again.tolist()[:4], first[meth].tolist()[:4]))
        except Exception:  # noqa: BLE001
            pass
        info["unseen_rows"] = unseen
        info["methods"] = meths
        # a copy is independent of the original: writing into the original's fitted arrays IN PLACE afterwards
        # (what partial_fit / warm-started fits do) must not change what the copy returns
        if "clone_with_fitted_parameters" in copies:
            m2 = copies["clone_with_fitted_parameters"]
            Bq = _batch(rng, d)
            try:
                before = [numpy.asarray(_rowfn(m2, meth)(Bq)).copy() for meth in meths]
                touched = _scribble(model)
                after = [numpy.asarray(_rowfn(m2, meth)(Bq)) for meth in meths]
                for meth, a, b in zip(meths, before, after):
                    if touched and not same(a, b, True):
                        bad.append(("%s.%s:clone-shares-memory-with-original" % (cls, meth),
                                    "outputs of the clone_with_fitted_parameters copy change when the ORIGINAL's fitted "
                                    "arrays are modified in place", b.tolist()[:4], a.tolist()[:4]))
                        break
            except Exception:  # noqa: BLE001  (the scribbled original itself may be unusable; only the copy matters)
                pass
    return bad, info


TALL_ROWS = (1025, 2049, 4097, 1023, 2047, 4095, 8193)


def _rowfn(model, meth):
    """the bound method, its result made a dense array (decision_path returns a sparse matrix)"""
    import numpy
    f = getattr(model, meth)

    def call(X):
        out = f(X)
        if hasattr(out, "todense"):
            out = numpy.asarray(out.todense())
        return out
    return call


def _row_methods(model, d):
    """"every row-wise output": the public methods the package defines for the class that take exactly one required
    argument and return, for batches of 5 and of 9 rows, an array / sparse matrix with 5 and 9 rows.  Found by calling
    the CURRENT code, so that a row-wise method the hand-written menu does not name (decision_path, get_leaves_index,
    transform_features, ...) is checked as well."""
    import inspect
    import numpy
    out = []
    for name in sorted(dir(type(model))):
        if name.startswith("_") or name.startswith(("fit", "set_", "partial_fit", "score", "get_params")):
            continue
        f = getattr(type(model), name, None)
        if not inspect.isfunction(f) or not (getattr(f, "__module__", "") or "").startswith("mlinsights"):
            continue
        try:
            req = [p for p in list(inspect.signature(f).parameters.values())[1:]
                   if p.default is inspect.Parameter.empty and p.kind in (p.POSITIONAL_ONLY, p.POSITIONAL_OR_KEYWORD)]
        except (TypeError, ValueError):
            continue
        if len(req) != 1:
            continue
        try:
            ok = True
            for m in (5, 9):
                B = numpy.array([[float((3 * i + 5 * j) % 11) for j in range(d)] for i in range(m)])
                r = _rowfn(model, name)(B)
                if not (isinstance(r, numpy.ndarray) and r.ndim >= 1 and r.shape[0] == m):
                    ok = False
            if ok:
                out.append(name)
        except Exception:  # noqa: BLE001
            continue
    return out


def _drop_ties(model, B):
    """DecisionTreeLogisticRegression routes a row by `probability > threshold`; a row whose node probability equals the
    threshold up to the last bits (BLAS rounds a batch product and a single-row product differently - declared in
    DESIGN section 6) has no well-defined route in floating point and is left out, as in C10."""
    import numpy
    if type(model).__name__ != "DecisionTreeLogisticRegression":
        return B
    from props import c10
    keep = []
    for i in range(B.shape[0]):
        try:
            _, tie = c10._row_path(model.tree_, B[i], set())
        except Exception:  # noqa: BLE001
            tie = False
        keep.append(not tie)
    return B[numpy.array(keep, dtype=bool)] if any(keep) else B[:0]


def _call_everything(model, B, yB, skip=()):
    """call every public method mlinsights defines for the class that takes (), (X) or (X, y); exceptions ignored"""
    import inspect
    called = []
    for name in sorted(dir(type(model))):
        if name.startswith("_") or name.startswith(("fit", "set_", "partial_fit")) or name in skip:
            continue
        f = getattr(type(model), name, None)
        if not inspect.isfunction(f) or not (getattr(f, "__module__", "") or "").startswith("mlinsights"):
            continue
        try:
            req = [p for p in list(inspect.signature(f).parameters.values())[1:]
                   if p.default is inspect.Parameter.empty and p.kind in (p.POSITIONAL_ONLY, p.POSITIONAL_OR_KEYWORD)]
        except (TypeError, ValueError):
            continue
        if len(req) > 2:
            continue
        try:
            getattr(model, name)(*[B, yB][:len(req)])
            called.append(name)
        except Exception:  # noqa: BLE001
            called.append(name + "(raised)")
    return called


def _scribble(obj, depth=0, seen=None):
    """overwrite every writeable float array reachable from the fitted attributes of `obj` in place; returns the count"""
    import numpy
    seen = set() if seen is None else seen
    n = 0
    if id(obj) in seen or depth > 4:
        return 0
    seen.add(id(obj))
    items = []
    if isinstance(obj, dict):
        items = list(obj.values())
    elif isinstance(obj, (list, tuple)):
        items = list(obj)
    elif hasattr(obj, "__dict__"):
        items = [v for k, v in vars(obj).items() if k.endswith("_") and not k.startswith("__")]
    for v in items:
        if isinstance(v, numpy.ndarray):
            if v.dtype.kind == "f" and v.flags.writeable and v.size:
                v[...] = v * 3.0 + 1.0
                n += 1
        elif isinstance(v, (dict, list, tuple)) or (hasattr(v, "__dict__") and hasattr(v, "get_params")):
            n += _scribble(v, depth + 1, seen)
    return n


def check_criterion_instance(ctx, gen_seed):
    """A fitted estimator whose `criterion` hyper-parameter is one of the library's Cython criteria
    (the `else` branch of PiecewiseTreeRegressor.fit; the documented way to use them with scikit-learn trees)
    must survive a pickle round trip like any other fitted predictor."""
    import pickle
    import random
    import warnings
    import numpy
    ctx.shadow(need_cython=True)
    from sklearn.tree import DecisionTreeRegressor
    from mlinsights.mlmodel.piecewise_tree_regression import PiecewiseTreeRegressor
    from mlinsights.mlmodel.piecewise_tree_regression_criterion import SimpleRegressorCriterion
    from mlinsights.mlmodel.piecewise_tree_regression_criterion_fast import SimpleRegressorCriterionFast
    from mlinsights.mlmodel.piecewise_tree_regression_criterion_linear import LinearRegressorCriterion
    rng = random.Random(gen_seed)
    X, yr, _ = _data(rng, n=30)
    B = _batch(rng, X.shape[1])
    bad = []
    for cname, mk in (("SimpleRegressorCriterion", lambda: SimpleRegressorCriterion(1, X.shape[0])),
                      ("SimpleRegressorCriterionFast", lambda: SimpleRegressorCriterionFast(1, X.shape[0])),
                      ("LinearRegressorCriterion", lambda: LinearRegressorCriterion(1, X))):
        for est in (PiecewiseTreeRegressor, DecisionTreeRegressor):
            with warnings.catch_warnings():
                warnings.simplefilter("ignore")
                model = est(criterion=mk(), max_depth=2).fit(X, yr)
                full = model.predict(B)
                try:
                    m2 = pickle.loads(pickle.dumps(model))
                    ok = same(full, m2.predict(B), True)
                    obs = "outputs differ"
                except Exception as e:
                    ok, obs = False, "%s: %s" % (type(e).__name__, str(e)[:120])
            if not ok:
                bad.append(("CommonRegressorCriterion.pickle:fitted-model-holding-a-criterion-cannot-be-unpickled",
                            "pickle round trip of a fitted %s(criterion=%s(...))" % (est.__name__, cname), obs,
                            "a model with identical outputs"))
    return bad, {"estimator": "criterion-instance"}


def _run(ctx, item):
    if item["kind"] == "estimator":
        return check_estimator(ctx, item["estimator"], item["gen_seed"])
    if item["kind"] == "criterion":
        return check_criterion_instance(ctx, item["gen_seed"])
    raise ValueError("unknown replay kind %r" % item["kind"])


def search(ctx, hints):
    ctx.shadow(need_cython=True)
    rng = ctx.rng
    items = []
    names = menu_names()
    for rep in range(ctx.pick(4, 24)):
        for nm in names:
            items.append({"kind": "estimator", "estimator": nm, "gen_seed": rng.randrange(1 << 30)})
    items.append({"kind": "criterion", "gen_seed": rng.randrange(1 << 30)})
    vs, evals, nontriv, samples = [], 0, set(), []
    for it in items:
        try:
            bad, info = _run(ctx, it)
        except Exception as e:      # the real code raised where the statement promises a result
            import traceback
            bad, info = [("%s:raises-on-valid-input" % it.get("estimator", it["kind"]),
                          "the estimator raises on a valid batch",
                          "%s: %s | %s" % (type(e).__name__, str(e)[:150], traceback.format_exc()[-300:]),
                          "a result")], {}
        evals += 1
        nontriv.add((it["kind"], it.get("estimator"), it["gen_seed"]))
        if len(samples) < 4:
            samples.append(dict(it, **info))
        for key, what, obs, req in bad:
            vs.append(Violation(key, what, it, obs, req))
    best = {}
    for v in vs:
        best.setdefault(v.key, v)
    return list(best.values()), {"evaluations": evals, "distinct_nontrivial": len(nontriv), "samples": samples}


def replay(ctx, item):
    ctx.shadow(need_cython=True)
    bad, _ = _run(ctx, item["input"])
    best = {}
    for key, what, obs, req in bad:
        best.setdefault(key, Violation(key, what, item["input"], obs, req))
    return list(best.values())
