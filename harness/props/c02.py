"""C02 — fit/predict never alter hyper-parameters or caller data, even when fit fails."""
import sys
import contextlib
import io

from core import Corr, Violation, run_driver
from extract import lifecycle_gen as lg
from extract import skeleton as sk
from extract import diag
from props import _menu
from props import _guided

ID = "C02"
LEAN_TARGETS = ["MlVerif.Gen.C02", "MlVerif.Model.Flow", "MlVerif.Model.Lifecycle", "MlVerif.Lemmas.Flow",
                "MlVerif.Lemmas.Lifecycle", "MlVerif.Properties.C02"]
PROPERTY_FILE = "MlVerif/Properties/C02.lean"
DRIVER = "Drivers/C02.lean"
TRUSTED = [
    "harness/extract/skeleton.py: the translation of Python method bodies into the IR `Prog Act` (inlining of "
    "methods of the class hierarchy, module-level mlinsights functions, nested functions; bounded depth); its "
    "classification tables (which numpy/builtin calls return fresh objects / views / write in place) are trusted facts",
    "calls into scikit-learn / numpy / joblib neither write their array arguments (copy_X=False / copy_x=False are user "
    "opt-ins and excluded) nor assign constructor parameters of `self`; aliasing through containers is conservative",
    "an aug-assignment `self.param op= v` is a rebinding of the hyper-parameter (tracked and required to be restored), "
    "not an in-place write into the parameter object",
]
ASSUMPTIONS = [
    "scope: every estimator class of mlinsights.mlmodel, mlinsights.sklapi, mlinsights.timeseries (search_rank and "
    "mlbatch do not import in this sandbox); every public method defined in mlinsights code",
    "'what get_params reports' is compared structurally (class and parameters of nested estimators, recursively), "
    "not by object identity",
]
RULE = ("correspondence: every menu estimator x method is run on real data with attribute assignment traced "
        "(assignments performed by mlinsights code only); the observed hyper-parameter / attribute writes must be "
        "contained in what the regenerated skeleton of that method predicts, and the ORDERED sequence of assignments "
        "must be a trace the skeleton can emit (decided by the Lean matcher `Trace.accepts`, proved never to reject "
        "an emitted trace). search: histories of successful and "
        "failing calls (invalid data of 4 kinds; inner estimator raising on its k-th fit for every k) with "
        "get_params snapshots and byte snapshots of X, y, sample_weight before/after every call, and a later "
        "successful fit compared with a fresh instance. Non-trivial = a call that executed (success or the "
        "injected failure actually raised)")
LEVEL_TEXT = ("Proof: two abstract interpreters over a control-flow IR are proved sound in Lean for all programs and all "
              "executions (every branch, iteration count, and an exception at ANY call): accepted => hyper-parameters "
              "at every exit equal those at entry; accepted => no write reaches caller-owned memory. They are then "
              "decided in the kernel on skeletons regenerated from the current source for every public method of every "
              "estimator class, together with 'every fit returns self'. Partial: the Python->IR translation and the "
              "behaviour of scikit-learn calls are trusted and validated dynamically by the trace-containment "
              "correspondence and the failing-input search.")
LEVEL_NOTE = "; ".join(TRUSTED)
TECHNIQUE = ("Lean 4 proof of a generic abstract interpreter (soundness by induction over the IR) + kernel-decided "
             "obligations on AST-regenerated method skeletons + trace-containment correspondence + fault-injection search")


def extract(ctx):
    txt, _ = lg.gen_c02(ctx.repo)
    return {"MlVerif/Gen/C02.lean": txt}


# ----------------------------------------------------------------------------------------- tracing

class SetattrTrace:
    """Record attribute assignments/deletions on instances of `cls` performed by mlinsights code."""

    def __init__(self, cls, root):
        self.cls = cls
        self.root = root
        self.events = []

    def __enter__(self):
        ev, root = self.events, self.root

        def tracer(obj, name, value):
            f = sys._getframe(1)
            if f.f_code.co_filename.startswith(root):
                ev.append(("set", name, f.f_code.co_name, id(obj)))
            object.__setattr__(obj, name, value)

        def dtracer(obj, name):
            f = sys._getframe(1)
            if f.f_code.co_filename.startswith(root):
                ev.append(("del", name, f.f_code.co_name, id(obj)))
            object.__delattr__(obj, name)
        self.had_set = "__setattr__" in self.cls.__dict__
        self.had_del = "__delattr__" in self.cls.__dict__
        if not self.had_set:
            self.cls.__setattr__ = tracer
        if not self.had_del:
            self.cls.__delattr__ = dtracer
        return self

    def __exit__(self, *a):
        if not self.had_set:
            del self.cls.__setattr__
        if not self.had_del:
            del self.cls.__delattr__


def predicted_writes(classes):
    """(class, method) -> (hyper-parameters possibly written, attributes possibly written, params)"""
    out = {}
    for c in classes:
        for r in c["methods"]:
            pw, aw = set(), set()
            for a in sk.atoms(r["prog"]):
                if a[0] in ("write", "restore"):
                    pw.add(a[1])
                elif a[0] in ("wattr", "dattr"):
                    aw.add(a[1])
            out[(c["class"], r["method"])] = (pw, aw, set(c["params"]))
    return out


def weighted_observer_calls(est, observers, X, y, w):
    """[(label, thunk)]: every (X, y) observer that also takes `sample_weight` (score) called WITH the weights - the
    caller's weight array is caller data like X and y"""
    import inspect
    out = []
    if w is None:
        return out
    for ob in observers:
        if not ob.endswith("_xy"):
            continue
        m = getattr(est, ob[:-3], None)
        try:
            ok = m is not None and "sample_weight" in inspect.signature(m).parameters
        except (TypeError, ValueError):
            ok = False
        if ok:
            out.append((ob[:-3] + "[sample_weight]", lambda m=m: m(X, y, sample_weight=w)))
    return out


def observer_method(name):
    return name[:-3] if name.endswith("_xy") else name


def correspond(ctx):
    root = ctx.shadow(need_cython=True)
    import numpy
    import warnings
    warnings.filterwarnings("ignore")
    corr = Corr()
    corr.rule = RULE
    _, classes = lg.gen_c02(ctx.repo)
    tables = lg.gen_c02.tables
    pred = predicted_writes(classes)
    menu = _menu.build_menu()
    lines, line_info = [], []
    for e in menu:
        if e.slow and not ctx.thorough:
            continue
        for variant in range(ctx.pick(1, 3)):
            X, y, w = _menu.make_data(e.data, ctx.rng, variant)
            est = e.factory()
            cls = type(est)
            numpy.random.seed(ctx.rng.randrange(1 << 30))
            calls = [("fit", lambda: _menu.call_fit(est, X, y, w))]
            for ob in e.observers:
                calls.append((observer_method(ob), lambda ob=ob: _menu.call_observer(est, ob, X, y)))
            for mname, thunk in calls:
                with SetattrTrace(cls, root) as tr:
                    try:
                        thunk()
                        err = None
                    except Exception as ex:  # noqa: BLE001
                        err = type(ex).__name__
                key = (e.cls, mname)
                if key not in pred:
                    corr.hit("method-not-in-ir")
                    continue
                pw, aw, params = pred[key]
                own = [ev for ev in tr.events if ev[3] == id(est)]
                obs_p = sorted({ev[1] for ev in own if ev[1] in params})
                obs_a = sorted({ev[1] for ev in own if ev[1] not in params})
                # ordered trace -> Lean matcher (can the skeleton emit exactly this sequence?)
                tab = tables.get(key)
                if tab is not None:
                    toks, unknown = [], []
                    for kind, name, _, _ in own:
                        if name in params:
                            toks.append("P%d" % tab["params"][name]) if name in tab["params"] else unknown.append(name)
                        elif name in tab["attrs"]:
                            toks.append(("A%d" if kind == "set" else "D%d") % tab["attrs"][name])
                        else:
                            unknown.append(name)
                    if not unknown:
                        lines.append("trace %d %s" % (tab["index"], ",".join(toks) if toks else "-"))
                        line_info.append({"estimator": e.name, "method": mname, "error": err,
                                          "events": ["%s %s" % (k, n) for k, n, _, _ in own][:60]})
                corr.case((e.name, mname, variant), nontrivial=True,
                          sample={"estimator": e.name, "method": mname, "observed_param_writes": obs_p,
                                  "observed_attr_writes": obs_a, "predicted_param_writes": sorted(pw)}
                          if mname == "fit" and len(corr.samples) < 4 else None)
                corr.hit("error:%s" % err if err else "ok")
                corr.hit("method:%s" % mname)
                if obs_p:
                    corr.hit("param-write-observed")
                miss_p = [n for n in obs_p if n not in pw]
                miss_a = [n for n in obs_a if n not in aw]
                if miss_p or miss_a:
                    corr.disagree("trace-containment", {"estimator": e.name, "method": mname},
                                  {"predicted_param_writes": sorted(pw), "predicted_attr_writes": sorted(aw)},
                                  {"unpredicted_param_writes": miss_p, "unpredicted_attr_writes": miss_a})
    # the trusted classification tables of the extractor, exercised against the installed numpy
    from extract import validate_tables
    problems, vstats = validate_tables.validate(ctx.repo, everything=ctx.thorough)
    corr.hit("table-names-exercised", vstats["names_exercised"])
    corr.hit("table-calls", vstats["successful_calls"])
    for pb in problems:
        corr.disagree("classification-table", pb, "listed as returning a fresh object / not writing its arguments", pb["problem"])
    if lines:
        out = run_driver(DRIVER, lines)
        for info, got in zip(line_info, out):
            corr.hit("trace:%s" % got)
            corr.hit("trace-length>=3") if len(info["events"]) >= 3 else None
            if got != "accept":
                corr.disagree("trace-membership", info, got,
                              "the real call performed this sequence of assignments; no execution of the skeleton emits it")
    return corr


# ----------------------------------------------------------------------------------------- search

BAD_DATA = ("nan", "rank", "short", "mismatch", "weights-list", "nan-y")


def corrupt(kind, X, y, w):
    import numpy
    if X is None:  # time series
        yy = numpy.array(y, dtype=float)
        if kind == "nan":
            yy = yy.copy()
            yy[3] = numpy.nan
            return None, yy, w
        if kind == "short":
            return None, yy[:1], w
        if kind == "rank":
            return None, yy.reshape(-1, 1, 1), w
        return None, None, w
    if isinstance(X, list):
        if kind == "nan":
            return X[:3] + [None] + X[3:], y, w
        if kind == "short":
            return [], y, w
        if kind == "rank":
            return [[x] for x in X], y, w
        return [""], y, w
    if hasattr(X, "columns"):
        if kind == "short":
            return X.iloc[:0], y, w
        if kind == "nan":
            X2 = X.copy()
            X2["c1"] = 3.5
            return X2.drop(columns=[c for c in ("c2",) if c in X2.columns]), y, w
        if kind == "rank":
            return X.values[:, 0], y, w
        return X.iloc[:1], y, w
    X = numpy.array(X, dtype=float)
    if kind == "weights-list":
        # a plain Python list of weights (accepted by scikit-learn validation; may fail later in mlinsights code)
        return X, y, [1.0 + (i % 3) for i in range(X.shape[0])]
    if kind == "nan-y":
        if y is None:
            return X, y, w
        y2 = numpy.array(y, dtype=float)
        y2[2] = numpy.nan
        return X, y2, w
    if kind == "nan":
        X2 = X.copy()
        X2[1, 0] = numpy.nan
        return X2, y, w
    if kind == "rank":
        return X[:, 0], y, w
    if kind == "short":
        return X[:1], (None if y is None else y[:1]), (None if w is None else w[:1])
    if kind == "mismatch":
        if y is None:
            return X.reshape(X.shape[0], X.shape[1], 1), y, w
        return X, y[:-3], w
    raise ValueError(kind)


def strip_ids(snap):
    """structural comparison of get_params snapshots: drop object identities"""
    if isinstance(snap, tuple):
        if len(snap) == 4 and snap[0] == "est":
            return ("est", snap[1], strip_ids(snap[3]))
        if len(snap) == 2 and snap[0] == "callable":
            return snap
        return tuple(strip_ids(s) for s in snap)
    return snap


def diff_params(a, b):
    a, b = strip_ids(a), strip_ids(b)
    if a == b:
        return []
    da = dict(a) if all(isinstance(x, tuple) and len(x) == 2 for x in a) else {}
    db = dict(b) if all(isinstance(x, tuple) and len(x) == 2 for x in b) else {}
    return sorted(k for k in set(da) | set(db) if da.get(k) != db.get(k)) or ["<structure>"]


def run_scenario(e, scenario, variant, seed, ctx_rng_seed):
    """returns list of (key, what, observed, required); and whether the scenario executed"""
    import random
    import numpy
    import warnings
    warnings.filterwarnings("ignore")
    rng = random.Random(ctx_rng_seed)
    bad = []
    X, y, w = _menu.make_data(e.data, rng, variant)
    kind, arg = scenario
    counter = _menu.Counter(None)
    inner = _menu.failing(_menu.inner_base(e.inner_kind), counter) if e.inner_kind else None
    est = e.factory(inner) if inner else e.factory()
    names = ("X", "y", "sample_weight")

    def guarded(label, thunk, data):
        p0 = _menu.params_snapshot(est)
        b0 = _menu.buffers(*data)
        try:
            r = thunk()
            err = None
        except Exception as ex:  # noqa: BLE001
            r, err = None, ex
        p1 = _menu.params_snapshot(est)
        b1 = _menu.buffers(*data)
        ch = diff_params(p0, p1)
        if ch:
            bad.append(("%s.%s:hyperparam-changed%s:%s" % (e.cls, label, "-on-failure" if err else "", ",".join(ch)),
                        "%s changes what get_params reports%s" % (label, " when it raises %s" % type(err).__name__ if err else ""),
                        {k: [dict(strip_ids(p0)).get(k), dict(strip_ids(p1)).get(k)] for k in ch if k != "<structure>"},
                        "get_params() identical before and after the call"))
        for n, x0, x1 in zip(names, b0, b1):
            if x0 != x1:
                bad.append(("%s.%s:caller-data-written:%s" % (e.cls, label, n),
                            "%s writes into the caller's %s" % (label, n), "buffer changed", "bytes unchanged"))
        return r, err

    numpy.random.seed(seed)
    executed = True
    if kind == "ok":
        r, err = guarded("fit", lambda: _menu.call_fit(est, X, y, w), (X, y, w))
        if err is not None:
            return [("%s.fit:raises-on-valid-data" % e.cls, "fit raises on the menu's valid data",
                     "%s: %s" % (type(err).__name__, str(err)[:200]), "fit succeeds")], True
        if r is not est:
            bad.append(("%s.fit:does-not-return-self" % e.cls, "fit does not return the estimator itself",
                        repr(r)[:80], "self"))
        for ob in e.observers:
            guarded(observer_method(ob), lambda ob=ob: _menu.call_observer(est, ob, X, y), (X, y, w))
        for label, thunk in weighted_observer_calls(est, e.observers, X, y, w):
            guarded(label, thunk, (X, y, w))
        # the menu's data carries no weights for this entry: fit once more WITH weights when `fit` takes them (a
        # weighted fit is a fit: same promises - returns self, leaves hyper-parameters and the caller's arrays alone)
        if w is None and y is not None and X is not None:
            import inspect
            try:
                takes = "sample_weight" in inspect.signature(est.fit).parameters
            except (TypeError, ValueError):
                takes = False
            if takes:
                w2 = 1.0 + 0.25 * (numpy.arange(len(y)) % 5)
                r2, err2 = guarded("fit[sample_weight]", lambda: est.fit(X, y, sample_weight=w2), (X, y, w2))
                if err2 is None and r2 is not est:
                    bad.append(("%s.fit:does-not-return-self" % e.cls, "fit with sample_weight does not return the estimator "
                                "itself", repr(r2)[:80], "self"))
        return bad, True
    # failing fit first
    if kind == "bad-data":
        Xb, yb, wb = corrupt(arg, X, y, w)
        _, err = guarded("fit", lambda: _menu.call_fit(est, Xb, yb, wb), (Xb, yb, wb))
        executed = err is not None
    elif kind == "inner-fails":
        counter.fail_at = arg
        _, err = guarded("fit", lambda: _menu.call_fit(est, X, y, w), (X, y, w))
        counter.fail_at = None
        executed = isinstance(err, _menu.InjectedFailure) or (err is not None and "injected failure" in str(err))
        if err is not None and not executed:
            executed = True  # some other exception surfaced; still a failing fit
    # a later successful fit must equal a fresh instance's
    numpy.random.seed(seed + 1)
    r, err = guarded("fit", lambda: _menu.call_fit(est, X, y, w), (X, y, w))
    if err is not None:
        bad.append(("%s.fit:raises-after-failed-fit" % e.cls, "a valid fit raises after an earlier failing fit",
                    "%s: %s" % (type(err).__name__, str(err)[:200]), "fit succeeds as on a fresh clone"))
        return bad, executed
    if r is not est:
        bad.append(("%s.fit:does-not-return-self" % e.cls, "fit does not return the estimator itself", repr(r)[:80], "self"))
    fresh = e.factory(_menu.failing(_menu.inner_base(e.inner_kind), _menu.Counter(None))) if e.inner_kind else e.factory()
    numpy.random.seed(seed + 1)
    try:
        _menu.call_fit(fresh, X, y, w)
    except Exception as ex:  # noqa: BLE001
        return bad + [("%s.fit:raises-on-valid-data" % e.cls, "fit raises on the menu's valid data",
                       "%s: %s" % (type(ex).__name__, str(ex)[:200]), "fit succeeds")], executed
    if e.seeded:
        for ob in e.observers:
            def outcome(obj):
                numpy.random.seed(seed + 2)
                try:
                    return _menu.call_observer(obj, ob, X, y)
                except Exception as ex:  # noqa: BLE001
                    return ("raises", type(ex).__name__)
            a, b = outcome(est), outcome(fresh)
            if a != b:
                bad.append(("%s.fit:refit-after-failure-differs:%s" % (e.cls, observer_method(ob)),
                            "after a failing fit (%s %s) a successful fit differs from a fresh instance's" % (kind, arg),
                            "outputs of %s differ" % observer_method(ob), "identical outputs"))
    return bad, executed


#: user opt-ins documented as letting the estimator work on the caller's arrays: outside the property (ASSUMPTIONS)
OPT_OUT_PARAMS = ("copy_x", "copy_X", "copy")


def run_guided(e, override, variant, seed, ctx_rng_seed, fail_at=None):
    """The menu entry with some hyper-parameters replaced by values the CURRENT SOURCE compares them with
    (`_guided`).  Such a configuration may be one `fit` or an observer legitimately refuses: whatever a call does -
    return or raise - it must leave get_params and the caller's data as they were, and a successful fit returns self."""
    import random
    import numpy
    import warnings
    warnings.filterwarnings("ignore")
    rng = random.Random(ctx_rng_seed)
    X, y, w = _menu.make_data(e.data, rng, variant)
    counter = _menu.Counter(fail_at)
    inner = _menu.failing(_menu.inner_base(e.inner_kind), counter) if e.inner_kind else None
    est = _guided.apply(e, override, inner)
    if est is None:
        return [], False
    bad = []
    names = ("X", "y", "sample_weight")

    def guarded(label, thunk, data):
        p0 = _menu.params_snapshot(est)
        b0 = _menu.buffers(*data)
        try:
            r, err = thunk(), None
        except Exception as ex:  # noqa: BLE001
            r, err = None, ex
        p1 = _menu.params_snapshot(est)
        b1 = _menu.buffers(*data)
        ch = diff_params(p0, p1)
        if ch:
            bad.append(("%s.%s:hyperparam-changed%s:%s" % (e.cls, label, "-on-failure" if err else "", ",".join(ch)),
                        "%s changes what get_params reports%s" % (label, " when it raises %s" % type(err).__name__ if err else ""),
                        {k: [dict(strip_ids(p0)).get(k), dict(strip_ids(p1)).get(k)] for k in ch if k != "<structure>"},
                        "get_params() identical before and after the call"))
        for n, x0, x1 in zip(names, b0, b1):
            if x0 != x1:
                bad.append(("%s.%s:caller-data-written:%s" % (e.cls, label, n),
                            "%s writes into the caller's %s" % (label, n), "buffer changed", "bytes unchanged"))
        return r, err

    numpy.random.seed(seed)
    r, err = guarded("fit", lambda: _menu.call_fit(est, X, y, w), (X, y, w))
    if err is None and r is not est:
        bad.append(("%s.fit:does-not-return-self" % e.cls, "fit does not return the estimator itself", repr(r)[:80], "self"))
    if err is None:
        for ob in e.observers:
            guarded(observer_method(ob), lambda ob=ob: _menu.call_observer(est, ob, X, y), (X, y, w))
        for label, thunk in weighted_observer_calls(est, e.observers, X, y, w):
            guarded(label, thunk, (X, y, w))
    return bad, True


def count_inner_fits(e, variant, seed):
    import random
    import numpy
    counter = _menu.Counter(None)
    inner = _menu.failing(_menu.inner_base(e.inner_kind), counter)
    est = e.factory(inner)
    X, y, w = _menu.make_data(e.data, random.Random(seed), variant)
    numpy.random.seed(seed)
    try:
        _menu.call_fit(est, X, y, w)
    except Exception:  # noqa: BLE001
        pass
    return counter.n


def scenarios_for(e, ctx, variant, seed):
    sc = [("ok", None)]
    for k in BAD_DATA:
        sc.append(("bad-data", k))
    if e.inner_kind:
        n = count_inner_fits(e, variant, seed)
        for k in range(1, min(n, ctx.pick(4, 12)) + 1):
            sc.append(("inner-fails", k))
    return sc


def search(ctx, hints):
    ctx.shadow(need_cython=True)
    menu = _menu.build_menu()
    vs, evals, nontriv, samples = {}, 0, set(), []
    # classes with a skeleton the analyses reject get the deep exploration whatever the tier
    expl = explain(ctx)
    rejected = {x["class"] for x in expl if isinstance(x, dict)}
    for e in menu:
        if e.slow and not ctx.thorough and e.cls not in rejected:
            continue
        for variant in range(3 if e.cls in rejected else ctx.pick(1, 3)):
            dseed = ctx.rng.randrange(1 << 30)
            for sc in scenarios_for(e, ctx, variant, dseed):
                seed = ctx.rng.randrange(1 << 30)
                bad, executed = run_scenario(e, sc, variant, seed, dseed)
                evals += 1
                if executed:
                    nontriv.add((e.name, sc, variant))
                if len(samples) < 4 and sc[0] != "ok" and executed:
                    samples.append({"estimator": e.name, "scenario": list(sc), "variant": variant,
                                    "violations": [b[0] for b in bad]})
                for key, what, obs, req in bad:
                    if key not in vs:
                        vs[key] = Violation(key, what, {"entry": e.name, "scenario": list(sc), "variant": variant,
                                                        "seed": seed, "dseed": dseed}, obs, req)
    # configurations read from the current source (values each hyper-parameter is compared with), one and two at a time
    guided = 0
    for e in menu:
        if e.slow and not ctx.thorough and e.cls not in rejected:
            continue
        ovs = [o for o in _guided.overrides(ctx.repo, e.cls, pairs=True, cap=60 if e.cls in rejected else ctx.pick(12, 60))
               if not any(k in OPT_OUT_PARAMS for k in o)]
        for ov in ovs:
            seed, dseed = ctx.rng.randrange(1 << 30), ctx.rng.randrange(1 << 30)
            # the plain run, and (wrappers) the inner estimator failing on its 1st / 2nd fit
            for fail_at in ([None, 1, 2] if e.inner_kind else [None]):
                with contextlib.redirect_stdout(io.StringIO()), contextlib.redirect_stderr(io.StringIO()):
                    bad, executed = run_guided(e, ov, 0, seed, dseed, fail_at)     # (verbose=True is one of the values)
                evals += 1
                if executed:
                    guided += 1
                    nontriv.add((e.name, "guided", tuple(sorted(ov.items(), key=str)), fail_at))
                for key, what, obs, req in bad:
                    if key not in vs:
                        vs[key] = Violation(key, what, {"entry": e.name, "scenario": ["guided", fail_at], "override": ov,
                                                        "variant": 0, "seed": seed, "dseed": dseed}, obs, req)
    return list(vs.values()), {"evaluations": evals, "distinct_nontrivial": len(nontriv), "samples": samples,
                               "source_driven_configurations": guided,
                               "explanations_of_rejected_skeletons": expl}


def explain(ctx):
    """diagnostic explanation (Python mirror of the analyses) of every skeleton the analyses reject"""
    try:
        _, classes = lg.build(ctx.repo)
    except Exception as ex:  # noqa: BLE001
        return ["extractor failed: %s" % ex]
    out = []
    for c in classes:
        for r in c["methods"]:
            e1 = diag.explain_param(lg.drop_useless_kills(sk.simplify(r["prog"], lg.PARAM_ATOMS)))
            e2 = diag.explain_own(sk.simplify(r["prog"], lg.OWN_ATOMS), r["borrowed"])
            if e1 or e2 or (r["method"] == "fit" and not r.get("returns_self", True)):
                out.append({"class": c["class"], "method": r["method"], "hyperparams": [str(x) for x in e1],
                            "ownership": [str(x) for x in e2],
                            "returns": r.get("returns") if not r.get("returns_self", True) else None})
    return out


def replay(ctx, item):
    ctx.shadow(need_cython=True)
    inp = item["input"]
    menu = {e.name: e for e in _menu.build_menu()}
    e = menu[inp["entry"]]
    if inp["scenario"][0] == "guided":
        bad, _ = run_guided(e, inp["override"], inp["variant"], inp["seed"], inp["dseed"], inp["scenario"][1])
    else:
        bad, _ = run_scenario(e, tuple(inp["scenario"]), inp["variant"], inp["seed"], inp["dseed"])
    return [Violation(k, w, inp, o, r) for k, w, o, r in bad if k == item["key"]] or \
           [Violation(k, w, inp, o, r) for k, w, o, r in bad]
